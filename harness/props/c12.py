"""C12 - ISO-DEP exchanges each APDU exactly once or reports a tag error.

L1: theorems of NfcVerif.Props.C12 about the executable model
    NfcVerif.Model.IsoDepV2 (transcription of the repaired IsoDepInitiator.exchange/
    _exchange - fixes/C12 and fixes/C08/0010-0012 -, Type4Tag.send_apdu, the FSC/FWT/
    S(WTX)-limit derivation) running against the ISO/IEC 14443-4 PICC and the
    per-block fault script of NfcVerif.Model.IsoDep, or against any card.
L2: the real Type4ATag/Type4BTag (activated over a fake clf whose exchange()
    is the scripted PICC simulator sims/iso_card.py) and the compiled model
    run the same command sequences under the same fault scripts; compared
    are results / exception classes, the PCD block number, every block sent,
    the card's execution log and the card's block number.
L3: at-most-once execution, exact response or Type4TagCommandError, block
    size bound, absorbed faults, S(WTX) timeout, and the three wire-level bounds
    that make every exchange end (waiting time granted per block, rounds per
    retry loop, size / non-emptiness of a chained response) - judged on the real
    code with the simulators only (no model involved).
"""
import itertools
import logging

from common import Model, hx, exc_name

logging.disable(logging.CRITICAL)

LEAN_TARGETS = ["NfcVerif.Props.C12", "drv_c12", "NfcVerif.Props.TablesIso", "NfcVerif.Props.TablesTag"]

THEOREMS = [
    "NfcVerif.C12.isodep_at_most_once",
    "NfcVerif.C12.isodep_response_exact",
    "NfcVerif.C12.isodep_session_inv",
    "NfcVerif.C12.isodep_presence_keeps_card",
    "NfcVerif.C12.isodep_session_ops",
    "NfcVerif.C12.isodep_session_from_activation",
    "NfcVerif.C12.isodep_session_latched",
    "NfcVerif.C12.isodep_refuses_after_error",
    "NfcVerif.C12.isodep_error_sets_flag",
    "NfcVerif.C12.isodep_send_apdu_exact",
    "NfcVerif.C12.isodep_error_kind",
    "NfcVerif.C12.isodep_terminates",
    "NfcVerif.C12.isodep_terminates_activated",
    "NfcVerif.C12.isodep_absorbs",
    "NfcVerif.C12.isodep_absorbs_bound_tight",
    "NfcVerif.C12.isodep_repairs_invisible",
    "NfcVerif.C12.isodep_same_as_c08_model",
    "NfcVerif.C12.isodep_block_bound",
    "NfcVerif.C12.isodep_block_bound_derived",
    "NfcVerif.C12.isodep_block_bound_any_card",
    "NfcVerif.C12.fsc_fwt_derivation",
    "NfcVerif.C12.ats_derivation",
    "NfcVerif.C12.ats_tl_only",
    "NfcVerif.C12.isodep_block_bound_ats",
]

FSC_TABLE = (16, 24, 32, 40, 48, 64, 96, 128, 256)
KINDS = "lcpe"


class Cfg:
    """one activation + card configuration"""

    def __init__(self, kind="A", fsci=0, fwi=4, max_send=256, max_recv=256, chunk=13, wtx=(0, 0, 0), wtxm=1,
                 rlen=0, sw=b"\x90\x00", ats=None):
        self.kind, self.fsci, self.fwi, self.max_send, self.max_recv = kind, fsci, fwi, max_send, max_recv
        self.chunk, self.wtx, self.wtxm, self.rlen, self.sw = chunk, tuple(wtx), wtxm, rlen, bytes(sw)
        self.ats = None if ats is None else bytes(ats)   # Type 4A: explicit Answer To Select (fsci/fwi = what it announces)

    def key(self):
        return (self.kind, self.fsci, self.fwi, self.max_send, self.max_recv, self.chunk, self.wtx, self.wtxm,
                self.rlen, self.sw, self.ats)

    def card_words(self):
        return "%d %d %d %d %d %d %s" % (self.chunk, self.wtx[0], self.wtx[1], self.wtx[2], self.wtxm, self.rlen, hx(self.sw))

    def as_dict(self):
        return {"kind": self.kind, "fsci": self.fsci, "fwi": self.fwi, "max_send": self.max_send,
                "max_recv": self.max_recv, "chunk": self.chunk, "wtx_before_response/ack/chained_block": list(self.wtx),
                "wtxm": self.wtxm, "response_body_len": self.rlen, "sw": self.sw.hex(),
                "ats": None if self.ats is None else self.ats.hex()}


def make_ats(fsci, ta=None, tb=None, tc=None, hist=b"", t0=True):
    """Answer To Select as laid out in ISO/IEC 14443-4 5.2: TL T0 [TA(1)] [TB(1)] [TC(1)] historical bytes.
    returns (ats, fsci announced, fwi announced) - defaults FSCI 2 / FWI 4 where the byte is absent"""
    if not t0:
        return bytes([1]), 2, 4
    body = bytes([fsci | (0x10 if ta is not None else 0) | (0x20 if tb is not None else 0) | (0x40 if tc is not None else 0)])
    body += bytes(x for x in (ta, tb, tc) if x is not None) + bytes(hist)
    return bytes([len(body) + 1]) + body, fsci, (tb >> 4) if tb is not None else 4


def activate(cfg, script, sims, tt4, clfmod):
    """real Type4ATag / Type4BTag around the simulator"""
    card = sims.IsoCard(cfg.chunk, cfg.wtx[0], cfg.wtx[1], cfg.wtx[2], cfg.wtxm, sims.tie_app(cfg.rlen, cfg.sw))
    air = sims.Air(card, script, cfg.max_send, cfg.max_recv)
    if cfg.kind == "A":
        air.ats = cfg.ats if cfg.ats is not None else bytes([5, 0x70 | cfg.fsci, 0x80, (cfg.fwi << 4) | 0, 0x02])
        target = clfmod.RemoteTarget("106A", sens_res=bytearray(b"\x44\x03"), sel_res=bytearray(b"\x20"),
                                     sdd_res=bytearray(b"\x04\x01\x02\x03\x04\x05\x06"))
        tag = tt4.Type4ATag(air, target)
    else:
        sensb = bytes([0x50, 1, 2, 3, 4, 0, 0, 0, 0, 0x00, (cfg.fsci << 4) | 1, (cfg.fwi << 4) | 0])
        target = clfmod.RemoteTarget("106B", sensb_res=bytearray(sensb))
        tag = tt4.Type4BTag(air, target)
    return tag, air, card


def wlim_spec(fwi):
    """max_wtxm_sum = int(MAX_WTX_TIME / fwt): the waiting time one request with WTXM 59 gets at FWI 14, in units of FWT"""
    return 59 * 2 ** (14 - (fwi if fwi <= 14 else 4))


def wlim_of(dep, fwi):
    """the limit the real initiator uses (a tree without the repair has none: the model is asked with the specified one)"""
    v = getattr(dep, "max_wtxm_sum", None)
    return v if isinstance(v, int) and not isinstance(v, bool) and v >= 0 else wlim_spec(fwi)


def res_str(x):
    """canonical result of transceive / exchange: octets, or whatever else came back (a failing input, not a crash)"""
    if isinstance(x, (bytes, bytearray)):
        return "ok " + hx(x)
    return "ret " + repr(x)[:80].replace(" ", "_").replace("|", "/").replace(";", ",")


def run_ops(tag, air, cmds, sims):
    """commands (None = presence check) on an activated tag; every outcome becomes a string"""
    results = []
    air.marks = []           # number of blocks sent before each command
    for c in cmds:
        air.marks.append(len(air.trace))
        try:
            if c is None:
                r = tag._dep.exchange(None)
                results.append("ok -" if r is None else res_str(r))
            else:
                results.append(res_str(tag.transceive(bytearray(c))))
        except sims.SimLimit:
            results.append("exc SimLimit")
        except Exception as e:  # noqa
            results.append("exc " + exc_name(e))
    return results


def run_real(cfg, script, cmds, sims, tt4, clfmod):
    tag, air, card = activate(cfg, script, sims, tt4, clfmod)
    return tag, air, card, run_ops(tag, air, cmds, sims)


def where(e):
    import os
    import traceback
    tb = traceback.extract_tb(e.__traceback__)
    return "%s:%d" % (os.path.basename(tb[-1].filename), tb[-1].lineno) if tb else "?"


def is_wtx(b):
    return len(b) > 1 and b[0] & 0xFE == 0xF2


def judge_wire(ck, air, n_retry, lim, replay):
    """the three wire-level bounds that make every exchange end, read off the blocks the reader was handed and the
    answers it got (no model, no look at the initiator's state):
      (a) S(WTX): a multiplier outside 1..59 is never granted; the multipliers granted while one block is outstanding
          sum up to at most `lim`;
      (b) one retry loop (the same I-block / R(ACK), R(NAK) in between) has at most n_retry + 2 rounds (n_retry + 1 of
          them can end in a timeout / transmission error, one more is the retransmission after R(ACK));
      (c) response chaining: R(ACK) is only sent after a chained block that carried INF, and while the response
          collected so far has at most 65538 octets."""
    marks = set(getattr(air, "marks", []))
    granted = 0
    run_first, run_len = None, 0
    acc, last_inf = 0, None
    for i, ((out, _t), ans) in enumerate(zip(air.trace, air.answers)):
        if i in marks:
            run_first, run_len, acc, last_inf, granted = None, 0, 0, None, 0
        if is_wtx(out):
            if i == 0 or i in marks or air.answers[i - 1] != out:
                ck.fail("isodep-wtx-response-differs", "S(WTX) response %s (block %d) does not repeat the request %r" % (
                    out.hex(), i, air.answers[i - 1].hex() if i and isinstance(air.answers[i - 1], bytes) else None), replay)
                return
            m = out[1] & 0x3F
            if m == 0 or m > 59:
                ck.fail("isodep-wtx-rfu-multiplier-granted", "S(WTX) request %s with RFU multiplier %d was granted (block %d)"
                        % (out.hex(), m, i), replay)
                return
            granted += m
            if granted > lim:
                ck.fail("isodep-wtx-unlimited", "waiting time granted for one block: %d units of FWT (block %d), limit %d - a card that "
                        "keeps asking keeps the reader busy for ever" % (granted, i, lim), replay)
                return
        else:
            granted = 0
            is_nak = len(out) == 1 and out[0] & 0xFE == 0xB2
            if run_first is not None and (out == run_first or (is_nak and not (len(run_first) == 1 and run_first[0] & 0xFE == 0xB2))):
                run_len += 1
            else:
                # a new retry loop starts with this block
                if len(out) == 1 and out[0] & 0xFE == 0xA2 and i not in marks:
                    if last_inf == 0:
                        ck.fail("isodep-chain-unlimited", "R(ACK) (block %d) asks for more after a chained block without INF" % i, replay)
                        return
                    if acc > 65538:
                        ck.fail("isodep-chain-unlimited", "R(ACK) (block %d) asks for more although %d response octets were already "
                                "collected" % (i, acc), replay)
                        return
                run_first, run_len = out, 1
            if run_len > n_retry + 2:
                ck.fail("isodep-retransmit-unlimited", "block %s sent %d times (with R(NAK) rounds) in one retry loop, budget %d "
                        "(block %d)" % (run_first.hex(), run_len, n_retry, i), replay)
                return
        if isinstance(ans, bytes) and ans and ans[0] & 0xEE == 0x02:
            acc += len(ans) - 1
            last_inf = len(ans) - 1


def canon(results, dep, trace, log, bn):
    errno = getattr(dep, "errno", None)
    pni = "%d/%s" % (dep.pni, "none" if errno is None else "%d" % errno)
    return "%s | %s | %s | %s | %d" % (";".join(results), pni, ",".join(hx(b) for b in trace) or ".",
                                       ",".join(hx(b) for b in log) or ".", bn)


def make_cmd(rng, n, tag_byte):
    """command of n octets, first octet identifies it within a sequence"""
    if n == 0:
        return b""
    return bytes([tag_byte]) + bytes(rng.randrange(256) for _ in range(n - 1))


def scripts_exhaustive(legs, k, kinds):
    for m in range(k + 1):
        for pos in itertools.combinations(range(legs), m):
            for ks in itertools.product(kinds, repeat=m):
                s = ["d"] * (pos[-1] + 1 if pos else 0)
                for p, f in zip(pos, ks):
                    s[p] = f
                yield "".join(s)


def run(ck):
    ck.tables("TablesIso", "TablesTag")   # T-tie for constants: source tables re-extracted, bridge theorems re-proved
    import nfc.clf
    import nfc.tag
    import nfc.tag.tt4 as tt4
    from sims import iso_card as sims
    rng = ck.rng
    ck.rule = ("case = (activation kind A/B, FSCI, FWI, device limits, card response block size, S(WTX) placement, "
               "response length, command sequence, fault script); distinct by hash of the canonical case; "
               "non-trivial = at least one fault of the script was consumed, or a command or response was chained, "
               "or the card asked for waiting time; for the rule-less cards (scripted answers, answers repeated for ever) a case "
               "is (activation, fault script, answers, operations) and counts as non-trivial when the card answers at all")
    ck.assumptions += [
        "the card follows ISO/IEC 14443-4 (block numbering rules C-E, block handling rules 2, 3, 9-13, no CID/NAD) in the "
        "at-most-once / exact-response / absorbed-faults theorems; termination, the frame bound, the error kinds, the block "
        "sizes and 'once failed, always failed' hold for every card whatsoever",
        "absorbed faults additionally: S(WTX) multiplier 1..59, at most W requests per block with W * WTXM <= max_wtxm_sum, "
        "non-empty chained response blocks, response of at most 65539 octets (CardOk); 2k <= n_retry + 1",
        "clf.exchange reports a lost block as TimeoutError, a corrupted one as TransmissionError (the card stays mute on a "
        "corrupted block), and may raise ProtocolError or return an empty frame",
        "a session starts with an activation (PCD block number 0, PICC block number 1); nothing is assumed about how "
        "earlier exchanges of the session ended",
        "the model functions equal the Python functions outside the compared inputs (D-tie: exhaustive where stated, sampled beyond)",
    ]
    ck.trusted += ["hand-written Lean models NfcVerif.Model.IsoDepV2 (repaired initiator) and NfcVerif.Model.IsoDep (PICC, air interface), "
                   "tied by differential runs",
                   "harness/sims/iso_card.py (PICC simulator and fault channel), harness/props/c12.py"]
    ck.lean("NfcVerif.Props.C12", THEOREMS)
    if ck.thorough:
        ck.leanchecker(["NfcVerif.Props.C12"])
    model = Model("drv_c12")

    reqs = []    # (line, real canonical, replay dict)
    fwt_of = lambda fwi: 4096 / 13.56E6 * (2 ** fwi)  # noqa

    # ------------------------------------------------------------------ one case: real run, oracle, model request
    def one(cfg, script, cmds, bucket, exhaustive_part=False):
        if len(ck.fails) >= 50:
            return None      # enough failing inputs recorded (Check keeps 50); do not grind through a broken tree
        replay = {"config": cfg.as_dict(), "script": script, "commands": [None if c is None else bytes(c).hex() for c in cmds]}
        try:
            return one_(cfg, script, cmds, bucket, replay)
        except sims.SimLimit as e:
            ck.fail("isodep-endless-exchange", "activation / bookkeeping: %s" % e, replay)
        except Exception as e:  # noqa - the code under test did something the bookkeeping below did not foresee
            ck.fail("isodep-unexpected-behaviour", "%s: %s (%s)" % (type(e).__name__, e, where(e)), replay)
        return None

    def one_(cfg, script, cmds, bucket, replay):
        tag, air, card, results = run_real(cfg, script, cmds, sims, tt4, nfc.clf)
        dep = tag._dep
        trace = [b for b, _ in air.trace]
        real = canon(results, dep, trace, card.log, card.bn)
        replay["impl"] = real
        used = script[:air.pos]
        chained = any(c is not None and len(c) > dep.miu for c in cmds) or cfg.rlen + 2 > cfg.chunk
        nontrivial = air.faults_used > 0 or chained or card.wtx_sent > 0
        ck.case((cfg.key(), used, tuple(cmds)), nontrivial, bucket,
                sample=replay if (nontrivial and (len(ck.samples) < 2 or rng.random() < 0.0005)) else None)
        fwi_eff = cfg.fwi if cfg.fwi <= 14 else 4
        line = "seq %d %d %d %d %s %s %s" % (dep.miu, dep.n_retry_nak, dep.n_retry_ack, wlim_of(dep, cfg.fwi), cfg.card_words(),
                                            script or "-", ",".join("N" if c is None else hx(c) for c in cmds))
        reqs.append((line, real, replay))

        # ---- L3 oracle, independent of the model
        for r in results:
            if r.startswith("ret "):
                ck.fail("isodep-bad-return", "transceive returned %s" % r[4:], replay)
            if r == "exc SimLimit":
                ck.fail("isodep-endless-exchange", "transceive did not return within %d block exchanges against the ISO card" % air.cap, replay)
        fsc = min(FSC_TABLE[min(cfg.fsci, 8)], cfg.max_send)
        for b in trace:
            if len(b) + 2 > fsc:
                ck.fail("isodep-block-exceeds-fsc", "block %s (%d+2 octets) exceeds FSC %d" % (b.hex(), len(b), fsc), replay)
        real_cmds = [bytes(c) for c in cmds if c]
        first_fail = next((j for j, r in enumerate(results) if r.startswith("exc TagCommandError") and cmds[j]), len(cmds))
        for entry in card.log:
            if entry not in real_cmds:
                # within one exchange this never happens; after a failed chained exchange the card still holds
                # the blocks it received and the next command is appended to them
                key = "isodep-spliced-command-after-error" if first_fail < len(cmds) - 1 else "isodep-garbled-command"
                ck.fail(key, "card executed %s which was never sent" % entry.hex(), replay)
        for c in sorted(set(real_cmds)):
            if card.log.count(c) > real_cmds.count(c):
                after = [bytes(x) if x else x for x in cmds].index(c) > first_fail
                ck.fail("isodep-duplicate-after-error" if after else "isodep-duplicate-execution",
                        "command %s executed %d times" % (c.hex(), card.log.count(c)), replay)
        failed_before = False
        app = sims.tie_app(cfg.rlen, cfg.sw)
        for c, r in zip(cmds, results):
            if c is None:
                if r != "ok -" and r[4:] not in ("TimeoutError", "TransmissionError", "ProtocolError"):
                    ck.fail("isodep-presence-raw-exception", "presence check ended in %s" % r, replay)
                continue
            if len(c) == 0:
                continue     # an empty byte string is not a command APDU (tie only)
            c = bytes(c)
            if r.startswith("ok"):
                got = bytes.fromhex(r[3:]) if r[3:] != "-" else b""
                want = [app(i, c) for i, e in enumerate(card.log) if e == c]
                if len(want) != 1 or got != want[-1]:
                    key = ("isodep-stale-after-error" if failed_before else
                           "isodep-wtx-response-chain" if cfg.wtx[2] > 0 and card.wtx_sent > 0 else "isodep-wrong-response")
                    ck.fail(key, "command %s returned %s, the card %s" % (
                        c.hex(), got.hex(), "answered %s" % want[-1].hex() if want else "never executed it"), replay)
            elif r.startswith("exc"):
                name = r[4:]
                if name not in ("TagCommandError(0)", "TagCommandError(-1)", "TagCommandError(-2)"):
                    key = "isodep-wtx-raw-exception" if card.wtx_sent > 0 else "isodep-raw-exception"
                    ck.fail(key, "transceive(%s) raised %s" % (c.hex(), name), replay)
                failed_before = True
        # after an unrecoverable error no further command may reach the card (block numbers are undefined) - presence
        # checks in between are sent (one R(NAK) each) and change nothing
        marks = air.marks + [len(air.trace)]
        for j in range(first_fail + 1, len(cmds)):
            if cmds[j] is not None and (marks[j + 1] != marks[j] or results[j] != results[first_fail]):
                ck.fail("isodep-command-after-error", "command %d sent %d block(s) and ended in %r after command %d had failed with %r"
                        % (j, marks[j + 1] - marks[j], results[j], first_fail, results[first_fail]), replay)
        for j, c in enumerate(cmds):
            if c is None and [b for b, _ in air.trace[marks[j]:marks[j + 1]]] not in ([b"\xb2"], [b"\xb3"]):
                ck.fail("isodep-presence-blocks", "presence check %d sent %s" % (j, [b.hex() for b, _ in air.trace[marks[j]:marks[j + 1]]]), replay)
        # the card keeps to what ISO/IEC 14443-4 allows: multiplier 1..59, waiting time per block within the reader's
        # limit, response of at most 65539 octets (non-empty chained blocks: chunk >= 1 always)
        lim = wlim_spec(cfg.fwi)
        m = cfg.wtxm & 0x3F
        card_ok = (max(cfg.wtx) == 0 or (1 <= m <= 59 and max(cfg.wtx) * m <= lim)) and cfg.rlen + len(cfg.sw) <= 65539
        n_retry = min(dep.n_retry_nak, dep.n_retry_ack)
        # absorbed faults: k errors in one exchange need 2k - 1 <= n_retry (a block lost on its way to the card costs the
        # R(NAK) and the retransmission after R(ACK); the retransmission is always made)
        if len(cmds) == 1 and cmds[0] and "p" not in used and card_ok \
                and 2 * air.faults_used <= n_retry + 1 and not results[0].startswith("ok"):
            key = ("isodep-wtx-raw-exception" if card.wtx_sent > 0 and not results[0].startswith("exc TagCommandError") else
                   "isodep-wtx-response-chain" if air.faults_used == 0 and card.wtx_sent > 0 and cfg.wtx[2] > 0 else
                   "isodep-not-absorbed")
            ck.fail(key, "%d fault(s) with retry budget %d ended in %s" % (air.faults_used, n_retry, results[0]), replay)
        # a request with an RFU multiplier that reached the reader ends the exchange with PROTOCOL_ERROR
        if len(cmds) == 1 and cmds[0] and not (1 <= m <= 59) and any(a == bytes([0xF2, cfg.wtxm]) for a in air.answers) \
                and results[0] != "exc TagCommandError(-2)":
            ck.fail("isodep-wtx-rfu-multiplier-granted", "card asked for waiting time with RFU multiplier %d, result %s" % (m, results[0]), replay)
        # timeouts handed to the reader
        fwt = fwt_of(fwi_eff)
        for b, t in air.trace:
            want_t = (b[1] & 0x3F) * fwt if len(b) > 1 and b[0] & 0xFE == 0xF2 else fwt + 49152 / 13.56E6
            if t is None or isinstance(t, bool) or not isinstance(t, (int, float)) or abs(t - want_t) > 1e-9:
                ck.fail("isodep-wrong-timeout", "block %s sent with timeout %r, expected %r" % (b.hex(), t, want_t), replay)
        judge_wire(ck, air, min(int(1 / fwt), 5), lim, replay)
        return air, card, results

    def legs_of(cfg, cmds):
        try:
            tag, air, card, results = run_real(cfg, "", cmds, sims, tt4, nfc.clf)
            return air.pos
        except Exception as e:  # noqa - reported by one() for the same configuration; any number of legs will do
            ck.fail("isodep-unexpected-behaviour", "%s: %s (%s)" % (type(e).__name__, e, where(e)), {"config": cfg.as_dict()})
            return 6

    # ------------------------------------------------------------------ the two known witnesses, always
    # F16: fault while the card asks for waiting time; S(WTX) during response chaining
    one(Cfg("A", 8, 4, 256, 256, 253, (1, 0, 0), 2, 4), "ddl", [b"\x00\xb0\x00\x00\x04"], "witness")
    one(Cfg("A", 8, 4, 256, 256, 253, (1, 0, 0), 2, 4), "dddc", [b"\x00\xb0\x00\x00\x04"], "witness")
    one(Cfg("B", 2, 4, 256, 256, 8, (0, 0, 1), 1, 14), "", [b"\x00\xb0\x00\x00\x0e"], "witness")
    # stale response after a failed exchange (open finding): response lost beyond the budget, next I-block lost once
    one(Cfg("A", 8, 11, 256, 256, 253, (0, 0, 0), 1, 4), "dldlldd", [b"\x00\xb0\x00\x00\x04", b"\x00\xb0\x00\x04\x04"], "witness")

    # ------------------------------------------------------------------ cards that never stop (any card; L3 + tie)
    # a card that answers from a list and then repeats a second list for ever: endless S(WTX) requests, R(ACK) with the
    # other block number for ever, chained response blocks for ever (with and without INF), mixtures, with faults.
    # L3: the exchange must end (SimLimit = interaction budget used up) with ok / Type4TagCommandError, and the three
    # wire-level bounds hold (judge_wire).  L2: the model is asked with the same card (request 'cyc').
    cyc_reqs = []

    def flood(kind, fsci, fwi, script, prefix, cycle, cmds, bucket):
        if len(ck.fails) >= 50:
            return
        replay = {"kind": kind, "fsci": fsci, "fwi": fwi, "script": script,
                  "card_answers_first": [None if r is None else bytes(r).hex() for r in prefix],
                  "card_answers_then_for_ever": [None if r is None else bytes(r).hex() for r in cycle],
                  "commands": [None if c is None else bytes(c).hex() for c in cmds]}
        try:
            fwt = fwt_of(fwi if fwi <= 14 else 4)
            n, lim = min(int(1 / fwt), 5), wlim_spec(fwi)
            card = sims.CycleCard(prefix, cycle)
            # interaction budget: four times what one retry loop can need, per command, and room for 300 loops
            air = sims.Air(card, script, 256, 256, cap=len(cmds) * 4 * (n + 2) * (lim + 2) + 1500 * (n + 2))
            if kind == "A":
                air.ats = bytes([5, 0x70 | fsci, 0x80, (fwi << 4), 0x02])
                tag = tt4.Type4ATag(air, nfc.clf.RemoteTarget("106A", sens_res=bytearray(b"\x44\x03"), sel_res=bytearray(b"\x20"),
                                                             sdd_res=bytearray(b"\x04\x01\x02\x03\x04\x05\x06")))
            else:
                tag = tt4.Type4BTag(air, nfc.clf.RemoteTarget("106B", sensb_res=bytearray(
                    [0x50, 1, 2, 3, 4, 0, 0, 0, 0, 0, (fsci << 4) | 1, fwi << 4])))
            results = run_ops(tag, air, cmds, sims)
            dep = tag._dep
            errno = getattr(dep, "errno", None)
            tr = [b for b, _ in air.trace]
            shown = ",".join(hx(b) for b in tr) or "."
            if len(tr) > 15:
                shown = ",".join(hx(b) for b in tr[:12]) + ",.," + ",".join(hx(b) for b in tr[-3:])
            real = "%s | %d/%s | %d | %s" % (";".join(results), dep.pni, "none" if errno is None else "%d" % errno, len(tr), shown)
            replay["impl"] = real
            line = "cyc %d %d %d %d %s %s %s %s" % (
                dep.miu, dep.n_retry_nak, dep.n_retry_ack, wlim_of(dep, fwi), script or "-",
                ",".join("x" if r is None else hx(r) for r in prefix) or ".",
                ",".join("x" if r is None else hx(r) for r in cycle) or ".", ",".join("N" if c is None else hx(c) for c in cmds))
            cyc_reqs.append((line, real, replay))
            ck.case(("cyc", kind, fsci, fwi, script, tuple(prefix), tuple(cycle), tuple(cmds)), True, bucket)
            for c, r in zip(cmds, results):
                if r == "exc SimLimit":
                    last = tr[-1] if tr else b""
                    what = ("S(WTX) requests" if is_wtx(last) else "R(ACK) with the other block number" if last[:1] and last[0] & 0xEE == 0x02
                            else "chained response blocks" if last[:1] and last[0] & 0xFE == 0xA2 else "its answers")
                    ck.fail("isodep-endless-exchange", "transceive(%s) had not returned after %d block exchanges (budget: 4 x the %d "
                            "blocks one retry loop may need + room for 1500 loops): the card keeps the reader busy with %s for ever"
                            % ("None" if c is None else bytes(c).hex(), air.cap, (n + 2) * (lim + 1), what), replay)
                    return
                if r.startswith("ret "):
                    ck.fail("isodep-bad-return", "transceive returned %s" % r[4:], replay)
                if c is not None and len(c) and r.startswith("exc") and r[4:] not in ("TagCommandError(0)", "TagCommandError(-1)", "TagCommandError(-2)"):
                    ck.fail("isodep-raw-exception-any-card", "transceive(%s) raised %s" % (bytes(c).hex(), r[4:]), replay)
            fsc = FSC_TABLE[min(fsci, 8)]
            for b in tr:
                if not is_wtx(b) and len(b) + 2 > fsc:
                    ck.fail("isodep-block-exceeds-fsc", "block %s (%d+2 octets) exceeds FSC %d" % (b.hex(), len(b), fsc), replay)
            judge_wire(ck, air, n, lim, replay)
        except Exception as e:  # noqa
            ck.fail("isodep-unexpected-behaviour", "%s: %s (%s)" % (type(e).__name__, e, where(e)), replay)

    big = bytes((7 + i) % 256 for i in range(253))
    short, chained_cmd = b"\x00\xb0\x00\x00\x04", bytes(range(1, 31))
    # the three as-found floods first (FWI 14: no retries, limit 59)
    flood("A", 0, 14, "", [], [b"\xf2\x01"], [short], "flood:S(WTX)")
    flood("B", 8, 11, "", [], [b"\xa3"], [short], "flood:R(ACK)")
    flood("A", 8, 13, "", [], [b"\x12" + big, b"\x13" + big], [short], "flood:chaining")
    flood("B", 8, 13, "", [], [b"\x12", b"\x13"], [short], "flood:chaining")
    for fwi in ([8, 9, 10, 11, 12, 13, 14, 15] if ck.thorough else [9, 11, 14]):
        lim = wlim_spec(fwi)
        for m in (1, 2, 58, 59):
            if lim // m > (2000 if ck.thorough else 500):
                continue
            for kind, fsci, cmd in (("A", 0, short), ("B", 0, chained_cmd), ("A", 8, short)):
                for pcb in (0xF2, 0xF3):
                    flood(kind, fsci, fwi, "", [], [bytes([pcb, m])], [cmd], "flood:S(WTX)")
                # the flood starts in the second retry round / behind the first command block / in the response phase
                flood(kind, fsci, fwi, "l", [], [bytes([0xF2, m])], [cmd], "flood:S(WTX)")
                flood(kind, fsci, fwi, "", [b"\xa2"], [bytes([0xF2, m])], [cmd], "flood:S(WTX)")
                flood(kind, fsci, fwi, "", [b"\x12\x55" if len(cmd) <= FSC_TABLE[fsci] - 3 else b"\xa2", b"\xa3", b"\x12\x55"],
                      [bytes([0xF2, m])], [cmd], "flood:S(WTX)")
                # limit reached exactly / exceeded by one request: lim // m requests then the block
                k = lim // m
                if k <= 600:
                    flood(kind, fsci, fwi, "", [bytes([0xF2, m])] * k + [b"\x02\x90\x00"], [], [short], "S(WTX) at the limit")
                    flood(kind, fsci, fwi, "", [bytes([0xF2, m])] * (k + 1) + [b"\x02\x90\x00"], [], [short], "S(WTX) at the limit")
                    flood(kind, fsci, fwi, "", [bytes([0xF2, m])] * k + [None] + [bytes([0xF2, m])] * k + [b"\x02\x90\x00"], [], [short],
                          "S(WTX) at the limit")
        # RFU multipliers (0, 60..63, and with the upper bits set), once and for ever
        for mb in (0x00, 0x3C, 0x3D, 0x3F, 0x40, 0x80, 0xC0, 0x7B, 0xFB, 0x41, 0xFF):
            flood("AB"[mb & 1], 2, fwi, "", [], [bytes([0xF2, mb])], [short], "S(WTX) multiplier")
            flood("AB"[mb & 1], 2, fwi, "", [bytes([0xF2, mb]), b"\x02\x6a\x82"], [], [short, short], "S(WTX) multiplier")
            flood("AB"[mb & 1], 2, fwi, "", [b"\x12\x01\x02", bytes([0xF2, mb]), b"\x03\x90\x00"], [], [short, None, short], "S(WTX) multiplier")
        # R(ACK) with the other block number for ever, alone and mixed with timeouts / S(WTX) / after progress
        for cyc in ([b"\xa3"], [None, b"\xa3"], [b"\xf2\x01", b"\xa3"], [b"\xa3", b""], [b"\xa3", None, None]):
            flood("A", 0, fwi, "", [], cyc, [short], "flood:R(ACK)")
            flood("B", 0, fwi, "", [], cyc, [chained_cmd], "flood:R(ACK)")
            flood("A", 0, fwi, "dl", [b"\xa2"], [b"\xa2" if c == b"\xa3" else c for c in cyc], [chained_cmd], "flood:R(ACK)")
        # chained response blocks for ever: with INF (the response grows beyond 65538), without INF, with S(WTX) between
        if fwi >= 11:
            for cyc in ([b"\x12" + big, b"\x13" + big], [b"\x12", b"\x13"], [b"\x12" + big, b"\x13"],
                        [b"\xf2\x01", b"\x12" + big, b"\xf2\x01", b"\x13" + big], [b"\x12" + big, None, b"\x13" + big, None]):
                flood("A", 8, fwi, "", [], cyc, [short], "flood:chaining")
                flood("B", 0, fwi, "", [b"\xa2", b"\xa3"], [cyc[(i + 0) % len(cyc)] for i in range(len(cyc))], [chained_cmd], "flood:chaining")
    # response size at the limit: R(ACK) is sent while the response collected so far has at most 65538 octets, so every
    # response of up to 65539 octets is returned completely (L3: judged here against the octets the card sent)
    def sized(sizes):
        blocks, bn = [], 0
        for k, n in enumerate(sizes):
            blocks.append(bytes([(0x12 if k + 1 < len(sizes) else 0x02) | bn]) + bytes((k + 3 * i) % 256 for i in range(n)))
            bn ^= 1
        return blocks
    for x in ((65538, 65539) if not ck.thorough else (65535, 65536, 65537, 65538, 65539, 65540, 65791)):
        for tail in ([1], []) if x != 65791 else ([],):
            sizes = [253] * 259 + [x - 65527] + tail
            if sum(sizes) > 65539 and not tail and x != 65791:
                continue
            blocks = sized(sizes)
            before, n0 = len(ck.fails), len(cyc_reqs)
            flood("A", 8, 14, "", blocks, [], [short], "response size limit")
            total = b"".join(b[1:] for b in blocks)
            if len(cyc_reqs) == n0 + 1 and before == len(ck.fails) and (x <= 65538 if tail else len(total) <= 65539):
                got = cyc_reqs[-1][1].split(" | ")[0]
                if got != "ok " + total.hex():
                    ck.fail("isodep-response-size-limit", "a response of %d octets (%d collected when the last R(ACK) was due) ended in %s"
                            % (len(total), x if tail else x - sizes[-1], got[:60]), {"blocks": "259 x 253 octets, %s" % sizes[259:], "impl": got[:80]})

    # random cards from an alphabet of well-formed and odd blocks
    alphabet = [b"\xf2\x01", b"\xf2\x3b", b"\xf2\x3c", b"\xf2\x00", b"\xf3\x02", b"\xa2", b"\xa3", b"\xb2", b"\xb3", b"\x02\x90\x00",
                b"\x03\x90\x00", b"\x12", b"\x13", b"", None, b"\xf2", b"\xc2", b"\x0a\x00", b"\x12" + big]
    for _ in range(1500 if ck.thorough else 300):
        fwi = rng.choice([9, 10, 11, 11, 12, 13, 14])
        prefix = [rng.choice(alphabet + [b"\x12\x01", b"\x13\x02"]) for _ in range(rng.randrange(0, 5))]
        cycle = [rng.choice(alphabet) for _ in range(rng.choice([0, 1, 1, 2, 2, 3]))]
        if fwi < 11 and any(c is not None and is_wtx(c) and (c[1] & 0x3F) in (1, 2) for c in cycle):
            cycle = [c for c in cycle if not (c is not None and is_wtx(c))]
        ncmd = rng.choice([1, 1, 2, 3])
        cmds = [None if rng.random() < 0.15 else make_cmd(rng, rng.choice([1, 5, 13, 14, 30]), 0xA0 + j) for j in range(ncmd)]
        script = "".join(rng.choice(KINDS) if rng.random() < 0.1 else "d" for _ in range(rng.randrange(0, 12))).rstrip("d")
        flood(rng.choice("AB"), rng.choice([0, 0, 2, 8]), fwi, script, prefix, cycle, cmds, "random card with a cycle")

    # ------------------------------------------------------------------ activation parameters (exhaustive)
    act_reqs = []
    nolimit_seen = []

    def act_real(cfg, rp):
        """activate; canonical 'ok miu n_nak n_ack pni max_wtxm_sum' (the last one 'none' on a tree without the limit)"""
        try:
            tag, air, card = activate(cfg, "", sims, tt4, nfc.clf)
            dep = tag._dep
            raw = air.ats if cfg.kind == "A" else bytes(tag.target.sensb_res)
            w = getattr(dep, "max_wtxm_sum", None)
            return "ok %d %d %d %d %s" % (dep.miu, dep.n_retry_nak, dep.n_retry_ack, dep.pni, "none" if w is None else "%d" % w), dep, raw
        except Exception as e:  # noqa
            if rp is not None:
                ck.fail("isodep-activation-raises", "activation raised %s: %s (%s)" % (exc_name(e), e, where(e)), rp)
            return "exc " + exc_name(e), None, (cfg.ats if cfg.ats is not None else b"")

    def act_oracle(dep, fsci, fwi, ms, what, rp):
        want_fsc = min(FSC_TABLE[min(fsci, 8)], ms)
        if dep.miu != want_fsc - 3:
            ck.fail("isodep-fsc-derivation", "%s: miu %r, expected %d" % (what, dep.miu, want_fsc - 3), rp)
        f = fwt_of(fwi if fwi <= 14 else 4)
        if abs(dep.fwt - f) > 1e-12 or dep.n_retry_nak != min(int(1 / f), 5) or dep.n_retry_ack != dep.n_retry_nak:
            ck.fail("isodep-fwt-derivation", "%s: fwt %r retry %r/%r" % (what, dep.fwt, dep.n_retry_nak, dep.n_retry_ack), rp)
        w = getattr(dep, "max_wtxm_sum", None)
        if w != wlim_spec(fwi) and not (w is None and nolimit_seen):
            if w is None:
                nolimit_seen.append(1)     # a tree without the limit: said once
            ck.fail("isodep-wtx-limit-derivation", "%s: waiting time limit per block %r, expected %d (WTXM 59 at FWI 14 "
                    "in units of this card's FWT)" % (what, w, wlim_spec(fwi)), rp)

    limits = [5, 16, 17, 31, 64, 255, 256, 300] if ck.thorough else [16, 64, 256, 300]
    for kind in "AB":
        for fsci in range(16):
            for fwi in range(16):
                for ms in limits:
                    cfg = Cfg(kind, fsci, fwi, ms)
                    rp = {"kind": kind, "fsci": fsci, "fwi": fwi, "max_send": ms}
                    real, dep, raw = act_real(cfg, rp)
                    act_reqs.append(("act %s %s %d" % (kind, hx(raw), ms), real, rp))
                    ck.case(("act", kind, fsci, fwi, ms), True, "activation:" + kind)
                    if dep is not None:
                        act_oracle(dep, fsci, fwi, ms, "%s fsci %d fwi %d limit %d" % (kind, fsci, fwi, ms), rp)

    # every legal ATS shape: TL only; T0 with any subset of TA/TB/TC; historical bytes; x FSCI 0..15 x FWI x device limit,
    # and an exchange that follows the activation must respect the frame size the card announced
    hists = list(range(16)) if ck.thorough else [0, 1, 2, 15]
    shapes_ats = [(None, 0, 0, 0, 0, 0)]
    for fsci in range(16):
        for pa in (0, 1):
            for pb in (0, 1):
                for pc in (0, 1):
                    for fwi in (range(16) if pb else [4]):
                        for hl in hists:
                            shapes_ats.append((fsci, pa, pb, pc, fwi, hl))
    for si, (fsci, pa, pb, pc, fwi, hl) in enumerate(shapes_ats):
        hist = bytes(rng.randrange(256) for _ in range(hl))
        if fsci is None:
            ats, afsci, afwi = make_ats(0, t0=False)
        else:
            ats, afsci, afwi = make_ats(fsci, rng.randrange(256) if pa else None,
                                        ((fwi << 4) | rng.randrange(16)) if pb else None,
                                        rng.randrange(256) if pc else None, hist)
        for ms in ([256, 20] if not ck.thorough else [256, 300, 20, 16]):
            cfg = Cfg("A", afsci, afwi, ms, ats=ats)
            rp = {"kind": "A", "ats": ats.hex(), "fsci_announced": afsci, "fwi_announced": afwi, "max_send": ms}
            real, dep, _raw = act_real(cfg, rp)
            act_reqs.append(("act A %s %d" % (hx(ats), ms), real, rp))
            ck.case(("ats", ats, ms), True, "activation:ATS shape")
            if dep is not None:
                act_oracle(dep, afsci, afwi, ms, "ATS %s (FSCI %d, FWI %d) limit %d" % (ats.hex(), afsci, afwi, ms), rp)
        # a following exchange: chained command and response, one lost block; blocks <= FSC of the card (oracle in one())
        if hl == hists[0] and (fwi in (4, 10) or fsci is None):
            fsc = FSC_TABLE[min(afsci, 8)]
            one(Cfg("A", afsci, afwi, 256, 256, 13, (0, 0, 0), 1, 20, ats=ats), rng.choice(["", "ddl", "dddc"]),
                [make_cmd(rng, 2 * fsc + 1, 0xB0)], "exchange after ATS shape")
    # truncated / inconsistent ATS (T0 announces bytes that are missing, empty answer): compared with the model only
    for raw in [b"", b"\x02\x20", b"\x02\x35", b"\x03\x30\x80", b"\x03\x71\x80", b"\x02\x7f", b"\x01\x05\x00\x00"]:
        cfg = Cfg("A", 2, 4, 256, ats=raw)
        real, dep, _raw = act_real(cfg, None)
        act_reqs.append(("act A %s 256" % hx(raw), real, {"kind": "A", "ats": raw.hex(), "max_send": 256}))
        ck.case(("ats-malformed", raw), True, "activation:ATS truncated")

    # ------------------------------------------------------------------ exhaustive fault scripts over short exchanges
    # exchanges of <= 5 blocks: (command length, response body length) around multiples of FSC-3 = 13 (FSCI 0)
    shapes = [(5, 3), (13, 0), (14, 9), (14, 12), (26, 11), (27, 11), (27, 12), (13, 25), (5, 38), (39, 0)]
    if not ck.thorough:
        shapes = [(5, 3), (14, 12), (27, 11), (13, 25)]
    nex = 0
    for si, (clen, rlen) in enumerate(shapes):
        for kind in ("A", "B") if ck.thorough or si % 2 == 0 else ("B",):
            cfg = Cfg(kind, 0, 4, 256, 256, 13, (0, 0, 0), 1, rlen)
            cmd = make_cmd(rng, clen, 0xC0 + si)
            legs0 = legs_of(cfg, [cmd])
            k = 3 if ck.thorough else 2
            kinds = KINDS if k == 2 or si < 6 else "lc"
            for script in scripts_exhaustive(legs0 + 3 * k, k, kinds):
                one(cfg, script, [cmd], "exhaustive<=%d:%s" % (k, kind))
                nex += 1
            if ck.thorough or si == 0:
                # the same shape with 3 faults of the two main kinds when k was 2, sampled with all kinds
                for _ in range(400 if ck.thorough else 150):
                    pos = sorted(rng.sample(range(legs0 + 9), 3))
                    s = ["d"] * (pos[-1] + 1)
                    for p in pos:
                        s[p] = rng.choice(KINDS)
                    one(cfg, "".join(s), [cmd], "3-faults-sampled")
    # waiting time extension, exhaustive up to 2 faults (3 in the thorough tier for the first shapes)
    wshapes = [((1, 0, 0), 5, 3), ((2, 1, 0), 14, 3), ((0, 0, 1), 5, 14), ((1, 1, 2), 14, 25)]
    for wi, (wtx, clen, rlen) in enumerate(wshapes):
        cfg = Cfg("AB"[wi % 2], 0, 4, 256, 256, 13, wtx, 1 + 7 * wi, rlen)
        cmd = make_cmd(rng, clen, 0xD0 + wi)
        legs0 = legs_of(cfg, [cmd])
        k = 3 if ck.thorough else 2
        kinds = KINDS if wi < 2 else "lc"
        for script in scripts_exhaustive(legs0 + 3 * k, k, kinds):
            one(cfg, script, [cmd], "exhaustive-wtx<=%d" % k)
            nex += 1

    # ------------------------------------------------------------------ sessions: commands and presence checks in between
    # (latch cleared by the presence check, stale block number after a chained response, ...): every placement of <= 2
    # faults (3 in the thorough tier for the first shape) over the legs of the whole session
    sess = [((5, 3), [0, None, 1]), ((14, 12), [0, None, None, 1, 2]), ((5, 25), [None, 0, 1, None, 2])]
    for si, ((clen, rlen), plan) in enumerate(sess):
        cfg = Cfg("AB"[si % 2], 0, 10 + si % 2, 256, 256, 13, (0, 0, 0), 1, rlen)
        cs = [make_cmd(rng, clen + j, 0xB0 + 8 * si + j) for j in range(3)]
        cmds = [None if x is None else cs[x] for x in plan]
        legs0 = legs_of(cfg, cmds)
        k = 3 if ck.thorough and si == 0 else 2
        for script in scripts_exhaustive(legs0 + 2 * k, k, "lc" if si else "lce"):
            one(cfg, script, cmds, "session-exhaustive<=%d" % k)
            nex += 1

    # ------------------------------------------------------------------ sampled beyond
    nrand = 12000 if ck.thorough else 2500
    for _ in range(nrand):
        fsci = rng.randrange(9) if rng.random() < 0.9 else rng.randrange(9, 16)
        fwi = rng.choice([0, 4, 8, 9, 10, 10, 11, 11, 12, 14, 15])
        max_send = rng.choice([256, 256, 256, 64, 24, 16, 300])
        kind = rng.choice("AB")
        ats = None
        if kind == "A" and rng.random() < 0.5:
            pb = rng.random() < 0.6
            ats, fsci, fwi = make_ats(fsci, rng.randrange(256) if rng.random() < 0.5 else None, ((fwi << 4) | rng.randrange(16)) if pb else None,
                                      rng.randrange(256) if rng.random() < 0.5 else None, bytes(rng.randrange(256) for _ in range(rng.randrange(0, 16))),
                                      t0=rng.random() < 0.95)
        fsc = min(FSC_TABLE[min(fsci, 8)], max_send)
        miu = fsc - 3
        chunk = rng.choice([1, 2, 13, 13, 29, 61, 125, 253])
        wtx = (0, 0, 0) if rng.random() < 0.6 else (rng.randrange(3), rng.randrange(3), rng.randrange(3))
        # lengths around multiples of the block payload sizes
        base = rng.choice([0, 1, 1, 2, 2, 3, 4])
        clen = max(0, base * miu + rng.choice([-1, 0, 0, 1, 2]))
        if rng.random() < 0.15:
            clen = rng.randrange(1, 4 * miu + 2)
        rb = rng.choice([0, 0, 1, 1, 2, 3, 5])
        rlen = max(0, rb * chunk + rng.choice([-3, -2, -1, 0, 1]))
        if chunk <= 2:
            rlen = rng.randrange(0, 9)
        if rng.random() < 0.1 and chunk > 2:
            rlen = rng.randrange(0, 300)
        cfg = Cfg(kind, fsci, fwi, max_send, rng.choice([256, 255]), chunk, wtx, rng.choice([1, 1, 2, 59, 60, 63, 0, 0x41, 0x7B, 0x80]), rlen,
                  rng.choice([b"\x90\x00", b"\x90\x00", b"\x6a\x82", b"\x00\x00"]), ats=ats)
        ncmd = 1 if rng.random() < 0.7 else rng.choice([2, 3, 4, 5])
        cmds = []
        for j in range(ncmd):
            if rng.random() < 0.12:
                cmds.append(None)
            else:
                n = clen if j == 0 else max(0, clen + rng.choice([-1, 0, 1]))
                if n == 0 and rng.random() < 0.7:
                    n = 1
                cmds.append(make_cmd(rng, n, 0xE0 + j))
        p = rng.choice([0.0, 0.03, 0.08, 0.15, 0.3])
        slen = rng.randrange(0, 70)
        script = "".join(rng.choice(KINDS) if rng.random() < p else "d" for _ in range(slen)).rstrip("d")
        one(cfg, script, cmds, "sampled:%d-cmd" % ncmd)

    # ------------------------------------------------------------------ send_apdu (APDU encoding and status word)
    apdu_reqs = []
    def apdu_case():
        ext = rng.random() < 0.4
        dl = rng.choice([0, 0, 1, 2, 7, 10, 254, 255, 256, 300]) if rng.random() < 0.8 else rng.randrange(0, 600)
        mrl = rng.choice([0, 0, 1, 2, 255, 256, 257, 65535, 65536, 65537]) if rng.random() < 0.8 else rng.randrange(0, 70000)
        data = bytes(rng.randrange(256) for _ in range(dl))
        cla, ins, p1, p2 = (rng.randrange(256) for _ in range(4))
        check = rng.random() < 0.7
        cfg = Cfg(rng.choice("AB"), rng.randrange(9), 4, 256, 256, rng.choice([13, 61, 253]), (0, 0, 0), 1,
                  rng.choice([0, 0, 1, 5, 20]), rng.choice([b"\x90\x00", b"\x90\x00", b"\x6a\x82", b"\x90", b"", b"\x67\x00"]))
        if len(cfg.sw) < 2:
            cfg.rlen = rng.choice([0, 1])
        script = "".join(rng.choice("lc") if rng.random() < 0.05 else "d" for _ in range(rng.randrange(0, 12))).rstrip("d")
        tag, air, card = activate(cfg, script, sims, tt4, nfc.clf)
        tag._extended_length_support = ext
        try:
            res = res_str(tag.send_apdu(cla, ins, p1, p2, bytearray(data) if dl or rng.random() < 0.5 else None, mrl, check))
        except Exception as e:  # noqa
            res = "exc " + exc_name(e)
        real = canon([res], tag._dep, [b for b, _ in air.trace], card.log, card.bn)
        line = "apdu %d %d %d %d %s %s %d %d %d %d %d %s %d %d" % (
            tag._dep.miu, tag._dep.n_retry_nak, tag._dep.n_retry_ack, wlim_of(tag._dep, cfg.fwi), cfg.card_words(), script or "-",
            int(ext), cla, ins, p1, p2, hx(data), mrl, int(check))
        replay = {"config": cfg.as_dict(), "script": script, "send_apdu": [cla, ins, p1, p2, data.hex(), mrl, check], "ext": ext, "impl": real}
        apdu_reqs.append((line, real, replay))
        ck.case(("apdu", cfg.key(), script, ext, cla, ins, p1, p2, data, mrl, check), True, "send_apdu")
        # oracle: the card saw exactly the APDU of ISO 7816-4 at most once; result is body / status error
        if res.startswith("exc") and not res.startswith("exc TagCommandError") and not (
                res == "exc ValueError" and (dl > (65535 if ext else 255) or mrl > (65536 if ext else 256))):
            ck.fail("isodep-raw-exception", "send_apdu raised %s" % res, replay)
        if len(card.log) > 1:
            ck.fail("isodep-duplicate-execution", "send_apdu executed %d commands" % len(card.log), replay)
        if card.log:
            a = card.log[0]
            body = (bytes([dl]) if not ext else b"\0" + dl.to_bytes(2, "big")) + data if dl else b""
            if not ext:
                le = bytes([mrl % 256]) if mrl else b""
            else:
                le = ((b"" if dl else b"\0") + (mrl % 65536).to_bytes(2, "big")) if mrl else b""
            if a != bytes([cla, ins, p1, p2]) + body + le:
                ck.fail("isodep-apdu-encoding", "send_apdu sent %s" % a.hex(), replay)
            if res.startswith("ok"):
                full = sims.tie_app(cfg.rlen, cfg.sw)(0, a)
                want = full[:-2] if check else full
                if bytes.fromhex(res[3:].replace("-", "")) != want or (check and full[-2:] != b"\x90\x00"):
                    ck.fail("isodep-wrong-response", "send_apdu returned %s for card response %s" % (res, full.hex()), replay)

    for _ in range(1500 if ck.thorough else 300):
        if len(ck.fails) >= 50:
            break
        try:
            apdu_case()
        except Exception as e:  # noqa - never crash on what the code under test does
            ck.fail("isodep-unexpected-behaviour", "%s: %s (%s)" % (type(e).__name__, e, where(e)), {"section": "apdu_case"})

    # ------------------------------------------------------------------ any card: scripted answers that follow no rule
    raw_reqs = []
    def raw_case():
        fsci = rng.randrange(9)
        fwi = rng.choice([4, 9, 10, 11, 12])
        cfg = Cfg(rng.choice("AB"), fsci, fwi)
        miu = FSC_TABLE[fsci] - 3
        replies = []
        pn = 0
        for _ in range(rng.randrange(0, 9)):
            k = rng.random()
            bn = pn if rng.random() < 0.7 else pn ^ 1
            if k < 0.30:
                more = rng.random() < 0.3
                replies.append(bytes([(0x12 if more else 0x02) | bn]) + bytes(rng.randrange(256) for _ in range(rng.randrange(0, 4))))
                pn ^= 1
            elif k < 0.45:
                replies.append(bytes([0xA2 | bn]))
                if bn == pn:
                    pn ^= 1
            elif k < 0.52:
                replies.append(bytes([0xB2 | bn]))
            elif k < 0.66:
                replies.append(rng.choice([b"\xf2\x01", b"\xf2", b"\xf3\x3b", b"\xf2\x01\x02", b"\xf2\xff"]))
            elif k < 0.74:
                replies.append(b"")
            elif k < 0.82:
                replies.append(None)
            else:
                replies.append(bytes(rng.randrange(256) for _ in range(rng.randrange(1, 4))))
        ncmd = rng.choice([1, 1, 2])
        cmds = [make_cmd(rng, rng.choice([1, 2, miu, miu + 1, 2 * miu + 1]), 0xA0 + j) for j in range(ncmd)]
        card = sims.ScriptCard(replies)
        air = sims.Air(card, "", 256, 256)
        if cfg.kind == "A":
            air.ats = bytes([5, 0x70 | fsci, 0x80, (fwi << 4), 0x02])
            tag = tt4.Type4ATag(air, nfc.clf.RemoteTarget("106A", sens_res=bytearray(b"\x44\x03"), sel_res=bytearray(b"\x20"),
                                                         sdd_res=bytearray(b"\x04\x01\x02\x03\x04\x05\x06")))
        else:
            tag = tt4.Type4BTag(air, nfc.clf.RemoteTarget("106B", sensb_res=bytearray(
                [0x50, 1, 2, 3, 4, 0, 0, 0, 0, 0, (fsci << 4) | 1, fwi << 4])))
        results = []
        air.marks = []
        for c in cmds:
            air.marks.append(len(air.trace))
            try:
                results.append(res_str(tag.transceive(bytearray(c))))
            except sims.SimLimit:
                results.append("exc SimLimit")
            except Exception as e:  # noqa
                results.append("exc " + exc_name(e))
        dep = tag._dep
        errno = getattr(dep, "errno", None)
        real = "%s | %d/%s | %s" % (";".join(results), dep.pni, "none" if errno is None else "%d" % errno,
                                    ",".join(hx(b) for b, _ in air.trace) or ".")
        line = "raw %d %d %d %d %s %s" % (dep.miu, dep.n_retry_nak, dep.n_retry_ack, wlim_of(dep, fwi),
                                       ",".join("x" if r is None else hx(r) for r in replies) or ".", ",".join(hx(c) for c in cmds))
        replay = {"card_answers": [None if r is None else r.hex() for r in replies], "commands": [c.hex() for c in cmds],
                  "fsci": fsci, "fwi": fwi, "kind": cfg.kind, "impl": real}
        raw_reqs.append((line, real, replay))
        ck.case(("raw", fsci, fwi, tuple(replies), tuple(cmds)), len(replies) > 0, "rule-less card")
        for c, r in zip(cmds, results):
            if r.startswith("ret "):
                ck.fail("isodep-bad-return", "transceive returned %s" % r[4:], replay)
            if r.startswith("exc") and r[4:] not in ("TagCommandError(0)", "TagCommandError(-1)", "TagCommandError(-2)"):
                ck.fail("isodep-raw-exception-any-card", "transceive(%s) raised %s against a card answering %s"
                        % (c.hex(), r[4:], replay["card_answers"]), replay)
        for b, _t in air.trace:
            if not is_wtx(b) and len(b) + 2 > FSC_TABLE[fsci]:
                ck.fail("isodep-block-exceeds-fsc", "block %s (%d+2 octets) exceeds FSC %d" % (b.hex(), len(b), FSC_TABLE[fsci]), replay)
        judge_wire(ck, air, min(int(1 / fwt_of(fwi)), 5), wlim_spec(fwi), replay)

    for _ in range(6000 if ck.thorough else 1500):
        if len(ck.fails) >= 50:
            break
        try:
            raw_case()
        except Exception as e:  # noqa - never crash on what the code under test does
            ck.fail("isodep-unexpected-behaviour", "%s: %s (%s)" % (type(e).__name__, e, where(e)), {"section": "raw_case"})

    # ------------------------------------------------------------------ compare with the model
    for name, batch, exh in (("activation parameters (FSCI x FWI x device limit x A/B)", act_reqs, True),
                             ("exchange under fault scripts", reqs, False), ("send_apdu", apdu_reqs, False),
                             ("rule-less card (scripted answers)", raw_reqs, False),
                             ("cards that never stop (endless S(WTX) / R(ACK) / chaining, cycles)", cyc_reqs, False)):
        replies = model.ask_many([r[0] for r in batch])
        dis = 0
        for (line, real, replay), rep in zip(batch, replies):
            if rep != real:
                dis += 1
                ck.fail("tie:c12-" + name.split(" ")[0], "model %r, implementation %r" % (rep, real),
                        dict(replay, request=line, model=rep))
        ck.tie(name, cases=len(batch), disagreements=dis, exhaustive=exh)
    ck.notes.append("%d scripts from the exhaustive enumerations (all placements of <= 2 or <= 3 faults over the legs of "
                    "exchanges of <= 5 blocks and of sessions of 3-5 operations with presence checks, see distribution)" % nex)
    ck.notes.append("wire-level bounds (judge_wire) are checked on every run of every family: S(WTX) multiplier 1..59 and sum per "
                    "block <= 59 * 2^(14-FWI), at most n_retry + 2 rounds per retry loop, R(ACK) only after a chained block with INF "
                    "and while <= 65538 response octets are collected; interaction budget (SimLimit) for the cards that never stop")
    ck.notes.append("transceive(b'') raises UnboundLocalError (no block is sent); an empty string is not a command APDU, "
                    "the case is compared with the model but not judged by the oracle")
