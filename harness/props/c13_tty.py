"""C13 part tty - the serial host link itself (`nfc.clf.transport.TTY`) under the PN53x drivers.

The main check (c13.py) replaces `transport.read` / `transport.write` by a scripted FRAME transport
(sims/chip_transport.py); its fault catalogue hands short frames to `Chipset.command`.  On a serial reader
(PN532 on a UART, Arygon) the frame is assembled by the REAL `TTY.read` from single `tty.read(n)` calls of
pyserial with a timeout, so a line that falls silent in the middle of a frame is seen by `TTY.read` first.
This part drives the real `TTY.read` / `TTY.write` over a fake `serial.Serial` (a byte-stream line: `read(n)`
delivers up to n of the octets the chip has sent so far, fewer when the line has run dry) under

* the real `Chipset.command` of pn532 and Arygon (`ChipsetB`: `2` prefix), for an ACK + response of each frame
  shape (normal, normal with LEN = 0xFF, extended) cut after EVERY number k of octets, and with a write timeout
  of pyserial,
* the real `ContactlessFrontend.exchange` on a PN532-over-TTY rig (`Rig` of c13.py with the simulated chip
  behind the line), the answer of every host command of an exchange cut after every k.

L3 oracle (independent of any model): the outcome is data, an `nfc.clf.CommunicationError` subclass or `IOError`;
anything else is a failing input (`tty-short-read-internal-error`); a complete answer must be accepted, an
incomplete one must not produce data.
L2: `TTY.read` on every such line content against a transcription of the Lean reference
`FnTransportRef.ttyRead` (Model/FnTransportRef.lean: frame returned / exception, octets left on the line) - the
function translator ties the source of `TTY.read` to that reference for every *pure* reader
(`FnBridge.Transport.tty_read_bridge`); this run covers the remaining step, consecutive reads of one line.
"""
import logging

from common import hx, exc_name
from sims.chip_transport import ACK, pn_frame, pn_parse

logging.disable(logging.CRITICAL)

LEAN_TARGETS = []
KEY = "tty-short-read-internal-error"


class Line(object):
    """stand-in for `serial.Serial`: what the chip sends is appended to the line; `read(n)` takes up to n octets
    (pyserial with a timeout returns what arrived); the answer to host command number `cut[0]` stops after
    `cut[1]` octets (then silence); `wfault`: host command number whose `write` raises SerialTimeoutException"""

    def __init__(self, chip, prefix=b""):
        self.chip, self.prefix = chip, prefix
        self.buf = bytearray()
        self.timeout = None
        self.port, self.baudrate = "/dev/ttyVERIF", 115200
        self.arm()

    def arm(self, cut=None, wfault=None):
        self.buf = bytearray()
        self.step = 0
        self.cut, self.wfault = cut, wfault
        self.answers = []          # octets the chip sends per host command (before the cut)
        self.delivered = b""       # what the line carried for the command that was cut

    def read(self, n):
        n = max(int(n), 0)
        r = bytes(self.buf[:n])
        del self.buf[:n]
        return r

    def write(self, data):
        data = bytes(data)
        frame = data[len(self.prefix):] if data.startswith(self.prefix) else data
        if frame == ACK:                      # cancel command: no answer
            self.chip(data)
            return len(data)
        step = self.step
        self.step += 1
        if self.wfault == step:
            import serial
            raise serial.SerialTimeoutException("Write timeout")
        answer = b"".join(self.chip(data))
        self.answers.append(len(answer))
        if self.cut is not None and self.cut[0] == step:
            answer = answer[:self.cut[1]]
            self.delivered = answer
        self.buf += answer
        return len(data)

    def flushInput(self):
        del self.buf[:]

    def flushOutput(self):
        pass

    def close(self):
        pass


def real_tty(line):
    import nfc.clf.transport
    t = object.__new__(nfc.clf.transport.TTY)
    t.tty = line
    return t


def outcome(f):
    try:
        r = f()
        return "ok none" if r is None else "ok " + hx(r)
    except Exception as e:  # noqa
        return "exc " + exc_name(e)


def documented(out):
    if out.startswith("ok "):
        return True
    name = out[4:]
    return name.startswith("IOError") or name in ("TimeoutError", "TransmissionError", "BrokenLinkError", "ProtocolError",
                                                   "CommunicationError")


# ----------------------------------------------------------------------------- reference (Lean: FnTransportRef.ttyRead)
def ref_read(s):
    """transcription of `ttyReadFlat` (Lemmas/FnBridgeTransport.lean) = `FnTransportRef.ttyRead`: (outcome, octets left)"""
    c6, s1 = s[:6], s[6:]
    if len(c6) == 0:
        return "exc IOError(110)", None
    if c6.startswith(ACK):
        return "ok " + hx(c6), len(s1)
    if len(c6) < 6:
        return "exc IOError(5)", None
    ln = c6[3]
    if ln == 255:
        c3, s2 = s1[:3], s1[3:]
        f = c6 + c3
        if len(f) < 9:
            return "exc IOError(5)", None
        n = (f[5] << 8 | f[6]) + 1
        return "ok " + hx(f + s2[:n]), len(s2[n:])
    return "ok " + hx(c6 + s1[:ln + 1]), len(s1[ln + 1:])


def run_part(ck):
    import nfc.clf.pn53x
    import nfc.clf.pn532
    import nfc.clf.arygon
    from sims import chip_transport as T
    from props.c13 import Rig
    rng = ck.rng
    log = logging.getLogger("verif.c13.tty")
    ck.rule += (" | tty: cases = (driver layer, host command, frame shape of the answer, number k of octets of ACK + "
                "response that reach the host before the serial line falls silent) for every k, plus a pyserial write "
                "timeout at every host command; non-trivial = the line falls silent inside the answer (0 < k < length)")
    ck.assumptions.append("tty: pyserial `read(n)` with a timeout returns the octets that arrived (at most n), `flushInput()` "
                          "discards what has arrived; the chip sends ACK and response back to back")
    ck.trusted.append("harness/props/c13_tty.py `Line` (fake serial.Serial) and `ref_read` (transcription of the Lean "
                      "reference FnTransportRef.ttyRead)")
    clock = T.Clock()
    nfc.clf.pn53x.time = clock
    shown = {}

    def fail(key, what, replay):
        """at most 4 reports per (key, layer): every layer stays visible among the recorded failures"""
        k = (key, replay.get("layer"))
        shown[k] = shown.get(k, 0) + 1
        if shown[k] <= 4:
            ck.fail(key, what, replay)

    payloads = {"normal": 4, "normal LEN=0xFF": 253, "extended": 254, "extended long": 262}

    # ---- 1. Chipset.command of pn532 and Arygon over the real TTY
    def chip_for(payload):
        def chip(data):
            frame = data[1:] if data[:1] == b"2" else data
            if frame == ACK:
                return []
            code, _ = pn_parse(frame)
            return [ACK, pn_frame(bytes([0xD5, code + 1]) + payload)]
        return chip

    for cname, ccls, prefix in (("pn532", nfc.clf.pn532.Chipset, b""), ("arygonB", nfc.clf.arygon.ChipsetB, b"2")):
        for shape, n in payloads.items():
            if cname != "pn532" and shape == "extended long":
                continue
            body = bytes(rng.randrange(256) for _ in range(n))
            line = Line(chip_for(body), prefix)
            chipset = object.__new__(ccls)
            chipset.transport, chipset.log = real_tty(line), log
            line.arm()
            out0 = outcome(lambda: chipset.command(0x02, b"", 0.1))
            total = line.answers[0]
            if out0 != "ok " + hx(body):
                fail("tty-complete-answer-refused", "%s Chipset.command over TTY, %s response: %s" % (cname, shape, out0),
                        {"part": "tty", "layer": "Chipset.command", "driver": cname, "payload": hx(body)})
            ks = range(total)
            if not ck.thorough and total > 40:
                ks = sorted(set(list(range(0, 18)) + [total - 2, total - 1] + rng.sample(range(18, total), 5)))
            for k in ks:
                line.arm(cut=(0, k))
                out = outcome(lambda: chipset.command(0x02, b"", 0.1))
                ck.case(("command", cname, shape, k), k > 0, "Chipset.command over TTY: " + shape)
                replay = {"part": "tty", "layer": "Chipset.command", "driver": cname, "cmd_code": 2, "timeout": 0.1,
                          "line": hx(line.delivered), "k": k, "of": total}
                if not documented(out):
                    fail(KEY, "%s Chipset.command(GetFirmwareVersion): the serial line delivers %s (%d of %d octets of ACK + "
                            "%s response) and falls silent: %s" % (cname, hx(line.delivered), k, total, shape, out[4:]), replay)
                elif out.startswith("ok "):
                    fail("tty-truncated-answer-accepted", "%s Chipset.command returned %s for an answer cut after %d of %d octets"
                            % (cname, out[3:], k, total), replay)
            line.arm(wfault=0)
            out = outcome(lambda: chipset.command(0x02, b"", 0.1))
            ck.case(("command", cname, shape, "wfault"), True, "Chipset.command over TTY: write timeout")
            if not out.startswith("exc IOError"):
                fail("tty-write-timeout-not-ioerror", "%s Chipset.command with a pyserial write timeout: %s" % (cname, out),
                        {"part": "tty", "layer": "Chipset.command", "driver": cname, "write_fault": 0})

    # ---- 2. ContactlessFrontend.exchange on a PN532-over-TTY rig
    kinds = [("i", "t2"), ("i", "t3"), ("i", "t4a"), ("i", "depA"), ("t", "tt2"), ("t", "tt3"), ("t", "dep")]
    if not ck.thorough:
        kinds = [("i", "t2"), ("i", "t3"), ("t", "tt3"), ("t", "dep")]
    rig = Rig("pn532", clock)
    sim = rig.tr

    def chip(data):
        sim.write(data)
        q, sim.queue = sim.queue, []
        return [bytes(x) for x in q if not isinstance(x, Exception)]
    line = Line(chip)
    rig.dev.chipset.transport = real_tty(line)
    for d, kind in kinds:
        line.arm()
        out0, _, _ = rig.run(d, kind, True)
        answers = list(line.answers)
        if not out0.startswith("ok "):
            fail("tty-complete-answer-refused", "pn532 over TTY, nominal %s %s exchange: %s" % (d, kind, out0),
                    {"part": "tty", "layer": "exchange", "driver": "pn532", "dir": d, "kind": kind})
            continue
        for step, total in enumerate(answers):
            for k in list(range(total)) + ["wfault"]:
                if k == "wfault":
                    line.arm(wfault=step)
                else:
                    line.arm(cut=(step, k))
                out, _, _ = rig.run(d, kind, True)
                ck.case(("exchange", d, kind, step, k), k != 0, "exchange over TTY (pn532): %s %s" % (d, kind))
                if not documented(out):
                    what = ("a pyserial write timeout" if k == "wfault" else
                            "the serial line delivers %s (%d of %d octets of the answer) and falls silent" % (hx(line.delivered), k, total))
                    fail(KEY, "pn532 over TTY, %s %s exchange, host command %d: %s: exchange() raised %s"
                            % (d, kind, step, what, out[4:]),
                            {"part": "tty", "layer": "ContactlessFrontend.exchange", "driver": "pn532", "dir": d, "kind": kind,
                             "host_command": step, "line": hx(line.delivered), "k": k, "of": total})
                elif out.startswith("ok ") and out != out0:
                    fail("tty-truncated-answer-accepted", "pn532 over TTY, %s %s, host command %d cut after %s of %d: %s"
                            % (d, kind, step, k, total, out), {"part": "tty", "dir": d, "kind": kind, "host_command": step, "k": k})
    # ---- 3. TTY.read on line contents: real code vs reference, and the oracle on TTY.read alone
    streams = []
    for shape, n in payloads.items():
        body = bytes(rng.randrange(256) for _ in range(n))
        streams.append((shape, pn_frame(bytes([0xD5, 0x03]) + body), body))
    n_tie = n_dis = 0
    for shape, frame, _ in streams:
        for follow in (b"", ACK):
            full = frame + follow
            ks = range(len(full) + 1)
            if not ck.thorough and len(full) > 40:
                ks = sorted(set(list(range(0, 14)) + [len(frame) - 2, len(frame) - 1, len(frame), len(full)] +
                                rng.sample(range(14, len(full)), 6)))
            for k in ks:
                s = full[:k]
                line = Line(lambda d: [])
                line.buf += s
                tty = real_tty(line)
                out = outcome(lambda: tty.read(100))
                left = len(line.buf)
                ck.case(("tty.read", shape, len(follow), k), 0 < k < len(frame), "tty.read on a line: " + shape)
                want, wleft = ref_read(s)
                n_tie += 1
                if out != want or (wleft is not None and left != wleft):
                    n_dis += 1
                    ck.fail("tie:tty-read-vs-reference", "TTY.read on line %s: code %s (left %d), reference %s (left %s)"
                            % (hx(s), out, left, want, wleft), {"part": "tty", "line": hx(s)})
                if not documented(out):
                    fail(KEY, "TTY.read: the serial line delivers %s (%d of %d octets of a %s frame) and falls silent: %s"
                            % (hx(s), k, len(frame), shape, out[4:]),
                            {"part": "tty", "layer": "TTY.read", "line": hx(s), "timeout_ms": 100})
    ck.tie("tty: TTY.read vs Lean reference ttyRead (transcribed)", n_tie, n_dis, exhaustive=False)

    ck.notes.append("tty: real nfc.clf.transport.TTY over a byte-stream line under pn532 / Arygon Chipset.command and "
                    "ContactlessFrontend.exchange (every cut position of every answer, pyserial write timeouts)")
