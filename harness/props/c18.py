"""C18 - connect() and sense() honour their documented contract.

L1: theorems of NfcVerif.Props.C18 about the executable model of
    ContactlessFrontend.connect/_rdwr_connect/_llcp_connect/_card_connect/sense/listen/exchange
    (Model/Sense.lean, Model/Connect.lean), for every option record, environment script and
    terminate stream.
    The model contains nfc.tag.activate with the type specific activation code (tt1/tt2/tt2_nxp/
    tt3/tt4: which commands, which nested sense() calls, what happens to every exception) and
    nfc.tag.emulate.
L2: the REAL ContactlessFrontend, the REAL nfc.tag.activate / nfc.tag.emulate and tag classes on a
    scripted device (harness/sims/conn_world.py; stand-ins only for Tag.is_present and the
    LogicalLinkController) against the Lean model driver drv_c18 on the same option records,
    scripts and terminate streams: callback sequence, driver call log, terminate polls, return
    value / exception, frontend.target.  Every tag kind x every answer (data, each
    CommunicationError class, device errors) at the first and later activation commands.
L3: the documented contract stated directly on the real run (independent of the model), also on
    runs where nothing of nfc.tag is replaced (harness/sims/conn_realtags.py: real presence
    checks of every tag type under every CommunicationError class / damaged frames).
"""
import itertools
import logging

import common
from common import Model

logging.disable(logging.CRITICAL)

LEAN_TARGETS = ["NfcVerif.Props.C18", "drv_c18"]
THEOREMS = [
    "NfcVerif.C18.connect_callback_order",
    "NfcVerif.C18.release_iff_connect_true",
    "NfcVerif.C18.connect_return_table_partial",
    "NfcVerif.C18.connect_return_table",
    "NfcVerif.C18.connect_systemexit_counterexample",
    "NfcVerif.C18.connect_ends_after_terminate",
    "NfcVerif.C18.connect_total",
    "NfcVerif.C18.sense_first_in_order",
    "NfcVerif.C18.sense_field_off_when_none",
    "NfcVerif.C18.sense_no_raise_unsupported",
    "NfcVerif.C18.exchange_no_stale_target",
    "NfcVerif.C18.activate_absorbs_communication_errors",
    "NfcVerif.C18.activate_gets_current_target",
    "NfcVerif.C18.activate_never_typeerror",
    "NfcVerif.C18.history_no_stale_target",
    "NfcVerif.C18.llc_run_loop_ends_at_first_true",
    "NfcVerif.C18.llc_run_loop_polls",
]

PROMPT_BOUND = 21      # events after the first true terminate() answer (theorem connect_ends_after_terminate)
LINK_BOUND = 2         # link exchanges after terminate() turned true inside the REAL run loop: the turn in flight + DISC
                       # (theorem llc_run_loop_ends_at_first_true: the loop itself makes none)

FOUND = [  # (token, valid as a Type A answer)
    ("F.4400.-.0.0", True), ("F.4400.-.1.0", True), ("F.0400.-.1.40", True), ("F.000c.1148b2565400.0.0", True),
    ("F.e00c.1148b2565400.0.16", True), ("F.4400.-.0.16", True), ("F.4400.-.0.64", True), ("F.4400.-.1.65", True),
    ("F.4400.-.0.15", True),
    ("F.44.-.0.0", False), ("F.440000.-.0.0", False), ("F.-.-.0.0", False), ("F.0000.1148b2565400.0.0", False),
    ("F.000c.-.0.0", False), ("F.000c.1148b25654.0.0", False), ("F.000c.0048b2565400.0.0", False),
]
FOUND += [  # platform variants of a Type A answer (var: bit 0 ISO-DEP, bit 1 NFCID1 not NXP), see conn_world.py
    ("F.4400.-.0.0.1", True), ("F.4400.-.0.0.2", True), ("F.4400.-.1.0.1", True), ("F.4403.-.0.0.3", True),
    ("F.440c.-.0.0", True),          # SENS_RES byte 1 says Type 1, byte 0 does not: no RID response (fixes/C18/0004)
]
# answers that matter as the response DATA of an activation command (AUTHENTICATE ack, GET_VERSION of a known
# product / of an unknown one / the 00h of NTAG203, an ATS)
DATA = ["F.af00112233445566.-.0.0", "F.0004040201000f03.-.0.0", "F.0004030101000b03.-.0.0", "F.00.-.0.0",
        "F.0004040201000f.-.0.0", "F.0578807002.-.0.0", "F.-.-.0.0"]
COMM = ["c", "k", "T", "P"]          # TimeoutError, BrokenLinkError, TransmissionError, ProtocolError
PLAIN = ["0", "c", "k", "T", "P", "u", "i", "K", "X", "L", "p0", "p1", "p2", "p5"]
TARGETS = ["a", "a4", "a7", "a10", "a3", "a11", "b", "f", "d16", "d40", "d64", "d15", "d0", "d65", "x"]
INVALID = {"a3", "a11", "d15", "d0", "d65"}


VALID_FOUND = [t for t, ok in FOUND if ok]


def valid_tta(sens, rid):
    """the NFC Forum digital protocol checks the docstring of sense() refers to (independent reading)"""
    if len(sens) != 2:
        return False
    if sens[0] & 0x1F == 0:      # Type 1 Tag platform
        return sens[1] & 0x0F == 0x0C and len(rid) == 6 and rid[0] >> 4 == 1
    return True


def unexpected(ck, where, e, replay):
    """an exception the harness did not foresee while driving / judging the code under test: a failing input"""
    import traceback
    tb = traceback.extract_tb(e.__traceback__)
    frames = ["%s:%d %s" % (f.filename.rsplit("/", 2)[-1], f.lineno, f.name) for f in tb[-6:]]
    inside = any("/nfc/" in f.filename for f in tb)
    replay = dict(replay)
    replay.update({"exception": repr(e), "frames": frames})
    ck.fail("unexpected-exception:%s:%s" % (where, common.exc_name(e).split("(")[0]),
            "%s while %s (%s nfcpy): %s" % (type(e).__name__, where, "inside" if inside else "outside", e), replay)


def gen_env(rng, n, p_found=0.45, p_exc=0.08, run_bias=False):
    out = []
    for _ in range(n):
        x = rng.random()
        if x < p_found:
            y = rng.random()
            tok = rng.choice(FOUND)[0] if y < 0.4 else rng.choice(DATA) if y < 0.5 else rng.choice(VALID_FOUND)
        elif x < p_found + p_exc:
            tok = rng.choice(["i", "K", "u", "X", "L"])
        elif x < p_found + p_exc + 0.15:
            tok = rng.choice(["c", "k", "T", "P", "c", "p0", "p1", "p2", "p5"])
        else:
            tok = "0"
        out.append(tok)
    return out


def gen_targets(rng, allow_n=False, plain=False):
    n = rng.choice([0, 1, 1, 2, 2, 3, 4])
    pool = ["a", "b", "f", "x"] if plain else TARGETS
    tl = [rng.choice(pool) for _ in range(n)]
    if allow_n and rng.random() < 0.05:
        tl.insert(rng.randrange(len(tl) + 1), "n")
    return tl


# ------------------------------------------------------------------------------------------ histories of sense/listen/exchange
def run_ops(nfc, cw, world, new_clf, env_toks, ops):
    """returns (canonical line as the model prints it, per-op records for the oracle)"""
    import nfc.clf
    w = cw.World([cw.parse_answer(t) for t in env_toks], [])
    world[0] = w
    clf = new_clf()
    res, recs = [], []
    for op in ops:
        start = len(w.log)
        inj0 = len(w.injected)
        tr0 = len(w.trace)
        before = clf.target
        try:
            if op[0] == "S":
                tg = [cw.remote_target(nfc, t, i) for i, t in enumerate(op[1])]
                r = clf.sense(*tg, iterations=op[2], interval=0.05)
                txt = "ok " + cw.target_token(r)
            elif op[0] == "L":
                r = clf.listen(cw.local_target(nfc, op[1]), 0.05)
                txt = "ok " + cw.target_token(r)
            else:
                r = clf.exchange(b"\x00", 0.05)
                txt = "ok none" if r is None else "ok data"
        except BaseException as e:  # noqa
            r = e
            txt = "exc " + common.exc_name(e)
        res.append(txt + " T:" + cw.target_token(clf.target))
        recs.append({"op": op, "tokens": w.log[start:], "result": r, "text": txt, "target_before": before,
                     "target_after": clf.target, "injected": w.injected[inj0:], "trace": w.trace[tr0:]})
    line = (" ".join(w.log) or "-") + " | " + " / ".join(res)
    return line, recs, w


def ops_token(ops):
    out = []
    for op in ops:
        if op[0] == "S":
            out.append("S:%s:%d" % (",".join(op[1]) or "-", op[2]))
        elif op[0] == "L":
            out.append("L:" + op[1])
        else:
            out.append("X")
    return "/".join(out)


SENSE_TOK = {"a": "sA", "b": "sB", "f": "sF", "d": "sD"}


def expect_sense(tl, iters, trace):
    """the documented behaviour of sense() given what each driver call produced: returns
    (tokens expected, outcome) with outcome None | ("target", obj) | ("exc", class name)"""
    several = len(tl) >= 2
    toks = []
    pos = [0]

    def call(tok):
        toks.append(tok)
        e = trace[pos[0]] if pos[0] < len(trace) else [tok, None, None]
        pos[0] += 1
        return e
    e = call("mute")
    if e[2] in ("IOError", "KeyboardInterrupt"):
        return toks, ("exc", e[2])
    for _ in range(max(1, iters)):
        for t in tl:
            if t in INVALID:
                if not several:
                    return toks, ("exc", "ValueError")
                continue
            if t == "x":
                if not several:
                    return toks, ("exc", "UnsupportedTargetError")
                continue
            e = call(SENSE_TOK[t[0]])
            if e[2] in ("IOError", "KeyboardInterrupt"):
                return toks, ("exc", e[2])
            if e[2] == "UnsupportedTargetError" and not several:
                return toks, ("exc", e[2])
            if e[2] is None and e[1] is not None:
                o = e[1]
                if t[0] != "a" or valid_tta(bytes(o.sens_res or b""), bytes(o.rid_res or b"")):
                    return toks, ("target", o)
        if tl:
            e = call("mute")
            if e[2] in ("IOError", "KeyboardInterrupt"):
                return toks, ("exc", e[2])
    return toks, None


def oracle_ops(ck, cw, recs, w, replay):
    """documented contract of sense()/listen()/exchange() on one history"""
    import nfc.clf
    expected = None      # the target the next exchange() has to use
    for rec in recs:
        op, toks, r = rec["op"], rec["tokens"], rec["result"]
        fatal = [e[2] for e in rec["trace"] if e[2] in ("IOError", "KeyboardInterrupt")]
        if op[0] == "S":
            tl, iters = op[1], op[2]
            if "n" in tl:
                continue     # argument of the wrong type: ValueError before anything happens, nothing changes
            want_toks, want = expect_sense(tl, iters, rec["trace"])
            calls = [x for x in toks if x != "sleep"]
            got = ("exc", common.exc_name(r).split("(")[0]) if isinstance(r, BaseException) else (None if r is None else ("target", r))
            expected = r if got and got[0] == "target" else None
            if got != want or calls != want_toks:
                what = "sense(%s, iterations=%d): driver calls %s result %s; documented: calls %s result %s" % (
                    ",".join(tl), iters, calls, rec["text"], want_toks,
                    "None" if want is None else want[1] if want[0] == "exc" else cw.target_token(want[1]))
                if got and got[0] == "exc" and len(tl) >= 2 and not fatal:
                    if got[1] == "ValueError" and any(x in INVALID for x in tl):
                        ck.fail("sense-valueerror-invalid-target-among-several", what, replay)
                    else:
                        ck.fail("sense-raises-with-several-targets:" + got[1], what, replay)
                elif got and got[0] == "exc":
                    ck.fail("sense-raises-undocumented:" + got[1], what, replay)
                elif want and want[0] == "target":
                    ck.fail("sense-not-first-in-order", what, replay)
                else:
                    ck.fail("sense-order", what, replay)
            if r is None and calls[-1:] != ["mute"]:
                ck.fail("sense-field-left-on", "sense() returned None but the last driver call is %s" % calls[-1:], replay)
        elif op[0] == "L":
            expected = None if isinstance(r, BaseException) else r
            if toks[:1] != ["mute"]:
                ck.fail("listen-no-mute", "listen() did not switch the field off first", replay)
            if not isinstance(r, BaseException) and r is not None and rec["trace"][-1][1] is not r:
                ck.fail("listen-returns-foreign-target", "listen() returned an object the driver did not create in this call", replay)
        else:
            drv = [x for x in toks if x.startswith("x")]
            if expected is None:
                if drv or r is not None:
                    ck.fail("exchange-uses-stale-target", "exchange() after a sense/listen that found nothing used %s -> %s"
                            % (drv, rec["text"]), replay)
            else:
                want = ("xr:%d" if isinstance(expected, nfc.clf.RemoteTarget) else "xl:%d") % expected._id
                if drv != [want]:
                    ck.fail("exchange-uses-stale-target", "exchange() used %s, the current target is %s" % (drv, want), replay)
        if op[0] in "SL":
            want_t = None if isinstance(r, BaseException) else r
            if rec["target_after"] is not want_t:
                ck.fail("target-not-result", "frontend.target is %s after %s gave %s"
                        % (cw.target_token(rec["target_after"]), op[0], rec["text"]), replay)


# ------------------------------------------------------------------------------------------ connect()
def run_connect(nfc, cw, world, new_clf, spec, env_toks, ts, term_at=None, term_at_n=None):
    w = cw.World([cw.parse_answer(t) for t in env_toks], ts)
    w.term_at, w.term_at_n = term_at, term_at_n
    world[0] = w
    clf = new_clf()
    opts = cw.build_options(nfc, world, spec)
    txt, r = cw.outcome_token(nfc, world, lambda: clf.connect(terminate=w.terminate, **opts))
    return (" ".join(w.log) or "-") + " | " + txt, txt, r, w


def strip_defaults(model_line):
    """default callbacks are invisible on the real run"""
    log, _, out = model_line.rpartition(" | ")
    toks = [t for t in log.split(" ") if not t.startswith("cb*:")]
    return (" ".join(toks) or "-") + " | " + out


def all_supplied(spec):
    for d, keys in ((spec.rdwr, ("su", "di", "co", "re")), (spec.llcp, ("su", "co", "re")), (spec.card, ("su", "di", "co", "re"))):
        if d is not None and any(d[k] == "-" for k in keys):
            return False
    return True


COMM_NAMES = ("TimeoutError", "TransmissionError", "ProtocolError", "BrokenLinkError", "CommunicationError")


def in_activation(log):
    """nfc.tag.activate was called and neither returned into on-connect nor into the next round"""
    for t in reversed(log):
        if t == "act":
            return True
        if t.startswith("cb:") or t in ("t0", "t1"):
            return False
    return False


def second_llcp_link(log):
    """the last callback is a true on-connect of the llcp option and an on-release of an earlier link came before it"""
    import sims.conn_world as cw
    cbs = [t.split(":") for t in log if t.startswith("cb:llcp:") and ":startup:" not in t]
    return len(cbs) >= 3 and cbs[-1][2] == "connect" and cw.val_truthy(int(cbs[-1][3])) and \
        any(c[2] == "release" for c in cbs[:-1])


def in_presence(log):
    """the last callback is a true on-connect of the rdwr option: the presence loop is running"""
    import sims.conn_world as cw
    for t in reversed(log):
        if t.startswith("cb:"):
            p = t.split(":")
            return p[1] == "rdwr" and p[2] == "connect" and cw.val_truthy(int(p[3]))
    return False


def oracle_connect(ck, cw, spec, env_toks, ts, txt, r, w, replay):
    """the documented contract of connect() on one run (all callbacks supplied, so all are visible)"""
    cbs = [t.split(":")[1:] for t in w.log if t.startswith("cb:")]          # [role, kind, code]
    inj = [c for (_, _, c) in w.injected]
    fatal = [c for c in inj if c in ("IOError", "KeyboardInterrupt")]
    # UnsupportedTargetError raised by a listen_* driver call always ends connect() with False (sense() may ignore it)
    fatal += [c for (_, site, c) in w.injected if c == "UnsupportedTargetError" and site.startswith("l")]
    # preconditions of the documentation
    if spec.rdwr is not None and spec.rdwr["su"] == 3:
        return "precondition"        # on-startup "must return a list"
    if spec.card is not None and spec.card["su"] in (0, 3) and spec.card["kind"] == "x":
        return "precondition"        # LocalTarget with an unknown technology
    single_bad = (spec.rdwr is not None and len(spec.rdwr["tg"]) == 1 and spec.rdwr["tg"][0] in INVALID)
    # ---- exceptions that leave connect()
    if txt.startswith("exc "):
        name = txt[4:]
        if name == "SystemExit":
            ck.fail("connect-systemexit-from-llc-run", "SystemExit raised by the link loop left connect() (%s)" % spec.token(), replay)
        elif "BrokenLinkError@listen" in inj:
            ck.fail("connect-raises-communication-error-from-listen",
                    "a CommunicationError raised inside listen() left connect() as %s" % name, replay)
        elif name == "TypeError" and w.log[-1:] == ["act"] and w.act_targets:
            # nfc.tag.activate was handed a target it cannot handle and raised before sending anything
            t = w.act_targets[-1]
            if t.atr_res is not None or t.atr_req is not None:
                ck.fail("connect-typeerror-activate-dep-target",
                        "rdwr option with an NFC-DEP target accepted by on-discover: nfc.tag.activate raised TypeError "
                        "(no sens_res) and it left connect() (%s)" % spec.token(), replay)
            elif t.sens_res is not None and len(t.sens_res) == 2 and t.sens_res[1] & 0x0F == 0x0C and not t.rid_res:
                ck.fail("connect-typeerror-activate-tt1-without-rid",
                        "SENS_RES %s (byte 1 says Type 1 Tag, byte 0 does not, so no RID response was requested): "
                        "nfc.tag.activate raised TypeError and it left connect()" % bytes(t.sens_res).hex(), replay)
            else:
                ck.fail("connect-raises:TypeError", "nfc.tag.activate raised TypeError for %s (%s)" % (t, spec.token()), replay)
        elif name in COMM_NAMES and in_activation(w.log):
            ck.fail("connect-raises-communication-error-from-activation:" + name,
                    "a %s raised by a command of the tag activation (log ...%s) left connect(): a failed activation is "
                    "documented as 'try again', connect() returns None/False/True/object only"
                    % (name, " ".join(w.log[-4:])), replay)
        elif second_llcp_link(w.log):
            ck.fail("connect-raises-from-second-llcp-link:" + name,
                    "%s raised inside the link loop of a SECOND link of the same connect() call (on-release of the first "
                    "link returned a false value, the LogicalLinkController that llc.terminate() shut down is activated "
                    "again) left connect() (%s)" % (name, spec.token()), replay)
        elif in_presence(w.log):
            ck.fail("connect-raises-from-presence-check:" + name,
                    "%s raised inside the presence check of a connected tag left connect() (%s)" % (name, spec.token()), replay)
        elif name == "ValueError" and single_bad:
            return "precondition"
        elif name == "ValueError" and spec.rdwr is not None and any(t in INVALID for t in spec.rdwr["tg"]):
            ck.fail("sense-valueerror-invalid-target-among-several",
                    "connect(rdwr targets %s) raised ValueError: an invalid target among several is documented as ignored"
                    % ",".join(spec.rdwr["tg"]), replay)
        else:
            ck.fail("connect-raises:" + name, "connect() raised %s (%s)" % (name, spec.token()), replay)
        return "raised"
    # ---- callback order: startup*, then per activation discover -> connect -> release
    state, startup_rank, n_conn_true, n_rel = "idle", -1, {}, {}
    rank = {"llcp": 0, "rdwr": 1, "card": 2}
    started = False
    finished = False
    for role, kind, code in cbs:
        truthy = cw.val_truthy(int(code))
        bad = None
        if finished:
            bad = "callback after the activation that ended connect()"
        elif kind == "startup":
            if started or rank[role] <= startup_rank:
                bad = "on-startup late or repeated"
            startup_rank = rank[role]
        else:
            started = True
            if kind == "discover":
                if state not in ("idle",) and not state.startswith("disc"):
                    bad = "on-discover inside an activation"
                state = ("disc:" + role) if truthy else "idle"
            elif kind == "connect":
                if role != "llcp" and state != "disc:" + role:
                    bad = "on-connect without on-discover"
                if role == "llcp" and state.startswith("conn"):
                    bad = "on-connect inside an activation"
                if truthy:
                    state = "conn:" + role
                    n_conn_true[role] = n_conn_true.get(role, 0) + 1
                else:
                    state, finished = "idle", True
            elif kind == "release":
                if state != "conn:" + role:
                    bad = "on-release without a true on-connect"
                n_rel[role] = n_rel.get(role, 0) + 1
                state = "idle"
                finished = truthy
        if bad:
            ck.fail("callback-order", "%s: callbacks %s" % (bad, ["%s.%s=%s" % tuple(c) for c in cbs]), replay)
            break
    # ---- on-release exactly once per true on-connect (unless an exception ended connect() in between)
    ended_by_exc = bool(fatal) or "UnsupportedTargetError" in inj and r is False
    for role in ("rdwr", "llcp", "card"):
        c, l = n_conn_true.get(role, 0), n_rel.get(role, 0)
        if l > c or (c != l and not (r is False and c == l + 1)):
            ck.fail("release-count", "%s: %d true on-connect but %d on-release (result %s)" % (role, c, l, txt), replay)
    # ---- return value table
    last_cb = cbs[-1] if cbs else None
    live = any(k != "startup" for _, k, _ in cbs) or any(t in ("t0", "t1") for t in w.log)
    if r is None:
        if live and w.log[-1:] != ["t1"]:
            ck.fail("return-none-unexpected", "connect() returned None but the last event is %s" % w.log[-1:], replay)
        if fatal:
            ck.fail("return-not-false-on-error", "connect() returned None although %s was raised" % fatal, replay)
    elif r is False:
        single_unknown = spec.rdwr is not None and spec.rdwr["tg"] == ["x"]   # sense() itself raises UnsupportedTargetError
        if not fatal and "UnsupportedTargetError" not in inj and not single_unknown:
            ck.fail("return-false-unexpected", "connect() returned False without IOError/UnsupportedTargetError/"
                                               "KeyboardInterrupt (%s)" % inj, replay)
    elif txt.startswith("ok obj:"):
        role = txt[7:]
        if not (last_cb and last_cb[0] == role and last_cb[1] == "connect" and not cw.val_truthy(int(last_cb[2]))):
            ck.fail("return-object-unexpected", "connect() returned the %s object, last callback %s" % (role, last_cb), replay)
        args = [a for (ro, k, a) in w.cb_args if ro == role and k == "connect"]
        if not args or args[-1] is not r:
            ck.fail("return-object-unexpected", "the object returned is not the one given to on-connect", replay)
        if fatal:
            ck.fail("return-not-false-on-error", "connect() returned an object although %s was raised" % fatal, replay)
    else:
        if not (last_cb and last_cb[1] == "release" and cw.val_truthy(int(last_cb[2])) and txt == "ok val:" + last_cb[2]):
            ck.fail("return-value-unexpected", "connect() returned %s, last callback %s" % (txt, last_cb), replay)
        elif last_cb[2] == "2" and r is not True:
            ck.fail("return-value-unexpected", "on-release returned True, connect() returned %r" % (r,), replay)
        # on-release receives the object on-connect received
        role = last_cb[0]
        ca = [a for (ro, k, a) in w.cb_args if ro == role and k == "connect"]
        ra = [a for (ro, k, a) in w.cb_args if ro == role and k == "release"]
        if not ca or not ra or ca[-1] is not ra[-1]:
            ck.fail("release-argument", "on-release did not get the object of on-connect", replay)
    if fatal and r is not False:
        pass  # reported above
    if fatal and r is False:
        # nothing may happen after the exception
        pos = min(p for (p, site, c) in w.injected if c in ("IOError", "KeyboardInterrupt")
                  or (c == "UnsupportedTargetError" and site.startswith("l")))
        if len(w.log) != pos:
            ck.fail("activity-after-error", "events %s after the device error" % w.log[pos:], replay)
    # ---- discovery uses the targets on-startup returned (before any activation re-selects a tag on its own)
    if w.startup_targets:
        first_act = w.log.index("act") if "act" in w.log else len(w.log)
        for pos, t in w.sense_args:
            if pos < first_act and not any(t is x for x in w.startup_targets):
                ck.fail("rdwr-senses-target-not-returned-by-on-startup",
                        "connect() handed the device a target (%s) that is not one of the objects the rdwr on-startup "
                        "callback returned (%s)" % (t, ", ".join(str(x) for x in w.startup_targets)), replay)
                break
    # ---- a discovered target is activated only (and at once) after a true on-discover
    for i, t in enumerate(w.log):
        if t in ("act", "emu"):
            role = "rdwr" if t == "act" else "card"
            prev = w.log[i - 1] if i else ""
            if not (prev.startswith("cb:%s:discover:" % role) and cw.val_truthy(int(prev.rsplit(":", 1)[1]))):
                ck.fail("activation-without-true-on-discover",
                        "nfc.tag.%s was called but the preceding event is %r, not a true on-discover of the %s option"
                        % ("activate" if t == "act" else "emulate", prev, role), replay)
                break
    for i, t in enumerate(w.log):
        if t.startswith("cb:rdwr:discover:") or t.startswith("cb:card:discover:"):
            role = t.split(":")[1]
            truthy = cw.val_truthy(int(t.rsplit(":", 1)[1]))
            nxt = w.log[i + 1] if i + 1 < len(w.log) else None
            if truthy and nxt is not None and nxt != ("act" if role == "rdwr" else "emu"):
                ck.fail("no-activation-after-true-on-discover",
                        "on-discover of %s returned a true value but the next event is %r" % (role, nxt), replay)
                break
            if not truthy and nxt in ("act", "emu"):
                ck.fail("activation-without-true-on-discover", "on-discover returned a false value, next event %r" % nxt, replay)
                break
    # ---- the counterpart goes away: on-release is the next thing that happens
    for (pos, site, c) in w.injected:
        if site[:2] not in ("xl", "xr") or c not in COMM_NAMES or pos >= len(w.log):
            continue
        before = [t for t in w.log[:pos] if t.startswith("cb:")]
        if not before:
            continue
        role, kind, code = before[-1].split(":")[1:]
        if kind != "connect" or not cw.val_truthy(int(code)):
            continue
        if role == "card" and site.startswith("xl") and c == "BrokenLinkError" and not w.log[pos].startswith("cb:card:release"):
            ck.fail("card-no-release-after-broken-link",
                    "the reader left (BrokenLinkError from the device) but on-release is not the next event: ...%s"
                    % " ".join(w.log[max(0, pos - 2):pos + 4]), replay)
        # (stand-in presence check only: one exchange per check; the real checks of the real-tag runs retry)
        if role == "rdwr" and site.startswith("xr") and not w.commands and \
                not (w.log[pos] == "off" and (pos + 1 == len(w.log) or w.log[pos + 1].startswith("cb:rdwr:release"))):
            ck.fail("rdwr-no-release-after-tag-gone",
                    "the presence check failed (%s) but LED off / on-release are not the next events: ...%s"
                    % (c, " ".join(w.log[max(0, pos - 2):pos + 4])), replay)
    # ---- ends promptly once terminate() is true (the predicate stays true)
    if "t1" in w.log and all(ts[i] or not any(ts[:i]) for i in range(len(ts))):
        after = len(w.log) - 1 - w.log.index("t1")
        if after > PROMPT_BOUND:
            ck.fail("not-prompt-after-terminate", "%d events after terminate() turned true" % after, replay)
    # ---- exchange() inside connect() never uses a target of an earlier sense/listen
    cur = None
    for i, t in enumerate(w.log):
        if t == "mute":
            cur = None
        elif t[:2] in ("xr", "xl"):
            # the current target is the object created by the most recent s*/l* driver call
            j = max((k for k in range(i) if w.log[k][0] in "sl" and w.log[k] not in ("sleep",) and len(w.log[k]) == 2), default=None)
            if j is None:
                ck.fail("exchange-uses-stale-target", "exchange before any discovery: %s" % t, replay)
    return "checked"


def gen_cb(rng, p_absent=0.12):
    if rng.random() < p_absent:
        return "-"
    return rng.choice([2, 2, 2, 1, 0, 3, 4, 5, 6])


def gen_spec(rng, cw, full=False):
    pa = 0.0 if full else 0.12
    rdwr = llcp = card = None
    which = rng.choice([1, 2, 4, 3, 5, 6, 7, 1, 2, 4, 0]) if not full else rng.choice([1, 2, 4, 3, 5, 6, 7])
    if which & 1:
        su = "-" if rng.random() < pa else rng.choice([0, 0, 0, 0, 5, 5, 1, 2, 3, 4])
        rdwr = {"su": su, "tg": gen_targets(rng, plain=(su == "-")), "di": gen_cb(rng, pa), "co": gen_cb(rng, pa),
                "re": gen_cb(rng, pa), "it": rng.choice([1, 1, 2, 3, 0, -1, 5]), "bp": rng.choice([0, 1])}
    if which & 2:
        llcp = {"su": "-" if rng.random() < pa else rng.choice([0, 0, 0, 0, 1, 2]), "co": gen_cb(rng, pa), "re": gen_cb(rng, pa),
                "role": rng.choice(["-", "-", "t", "i", "x"])}
    if which & 4:
        card = {"su": "-" if rng.random() < pa * 0.5 else rng.choice([0, 0, 0, 3, 3, 1, 2]), "kind": rng.choice(["a", "b", "f", "f", "d", "d", "x"] if not full else ["a", "b", "f", "f", "d"]),
                "di": gen_cb(rng, pa), "co": gen_cb(rng, pa), "re": gen_cb(rng, pa)}
    return cw.ConnSpec(rdwr, llcp, card)


def product_specs(cw):
    """small exhaustive product: which options x on-connect result x on-release result x on-discover result"""
    out = []
    for which in range(1, 8):
        for co, re, di in itertools.product([2, 1, 6, 0], [2, 1, 0, 6], [2, 1]):
            rdwr = {"su": 0, "tg": ["a", "f"], "di": di, "co": co, "re": re, "it": 1, "bp": 1} if which & 1 else None
            llcp = {"su": 0, "co": co, "re": re, "role": "-"} if which & 2 else None
            card = {"su": 0, "kind": "f", "di": di, "co": co, "re": re} if which & 4 else None
            out.append(cw.ConnSpec(rdwr, llcp, card))
    return out


# ------------------------------------------------------------------------------------------ the activation step
GOOD_A = "F.4400.-.0.0"
SLOT = DATA[:4] + [GOOD_A, "0"] + COMM + ["i", "K", "u"]        # what one step of an activation may be answered
KINDS = [   # (name, rdwr targets, answers of the first round up to and including the discovery)
    ("tt1", ["a", "b"], ["0", "F.000c.1148b2565400.0.0"]),
    ("tt1-512", ["a", "b"], ["0", "F.000c.124cb2565400.0.0"]),
    ("tt2-nxp", ["a", "b"], ["0", GOOD_A]),
    ("tt2-other", ["a", "b"], ["0", "F.4400.-.0.0.2"]),
    ("tt4a", ["a", "b"], ["0", "F.4400.-.0.0.1"]),
    ("tt4a-08", ["a", "b"], ["0", "F.4403.-.0.0.3"]),
    ("tt4a-p2p", ["a", "b"], ["0", "F.4400.-.1.0.1"]),
    ("p2p-only", ["a", "b"], ["0", "F.4400.-.1.0"]),
    ("p2p-only-08", ["a", "b"], ["0", "F.4400.-.1.0.2"]),
    ("tt4b", ["a", "b"], ["0", "0", "F.-.-.0.0"]),
    ("tt3", ["a", "f"], ["0", "0", "F.-.-.0.0"]),
    ("tt3-p2p", ["a", "f"], ["0", "0", "F.-.-.1.0"]),
    ("tt1-norid", ["a", "b"], ["0", "F.440c.-.0.0"]),           # repaired by fixes/C18/0004 (was TypeError)
    ("dep", ["d16", "b"], ["0", "F.-.-.0.0"]),                   # repaired by fixes/C18/0003 (was TypeError)
    ("single-a", ["a7"], ["0", GOOD_A]),
]
NXP_PATHS = [   # answers that walk nfc.tag.tt2_nxp.activate to each of its results (after the discovery)
    ["c", "0", GOOD_A, "c", "0", GOOD_A],                        # no AUTHENTICATE, no GET_VERSION: MifareUltralight
    [DATA[0], "0", GOOD_A],                                      # AUTHENTICATE acknowledged: MifareUltralightC
    ["c", "0", GOOD_A, DATA[1]],                                 # GET_VERSION of a known product
    ["c", "0", GOOD_A, DATA[3], "0", GOOD_A],                    # GET_VERSION answered 00: NTAG203
    [DATA[3], "0", GOOD_A, DATA[4], "0", GOOD_A],                # unknown version: generic Type2Tag after a re-select
    [DATA[3], "0", "0", "0"],                                    # the tag is gone when re-selected
    ["c", "0", GOOD_A, "c", "0", "P", "0"],                      # re-select answered with a damaged SENS_RES
]


def activation_cases(ck, cw, rng):
    """(spec, env, ts): every tag kind x what the activation commands are answered, first and later commands"""
    out = []
    cbs = [(2, 2, 2), (2, 1, 2)] if not ck.thorough else [(2, 2, 2), (2, 1, 2), (2, 2, 1), (4, 6, 0)]
    for name, tg, first in KINDS:
        tails = [[a] for a in SLOT]
        tails += [[a, b] for a in SLOT for b in SLOT]
        if ck.thorough and name in ("tt2-nxp", "tt4a", "tt4b", "single-a"):
            tails += [[a, b, c] for a in SLOT for b in SLOT for c in SLOT]
        tails += [[rng.choice(SLOT) for _ in range(rng.randrange(3, 12))] for _ in range(80 if ck.thorough else 16)]
        if name in ("tt2-nxp", "single-a"):
            for path in NXP_PATHS:
                tails.append(list(path))
                for i in range(len(path)):
                    for a in (SLOT if ck.thorough else COMM + ["i", "u", "0", DATA[3]]):
                        if a != path[i]:
                            tails.append(path[:i] + [a] + path[i + 1:])
        for ti, tail in enumerate(tails):
            di, co, re_ = cbs[ti % len(cbs)]
            spec = cw.ConnSpec(rdwr={"su": 0, "tg": tg, "di": di, "co": co, "re": re_, "it": 1, "bp": ti % 2})
            # second round: the same tag again, answering every step with data (the retry must work)
            env = first + tail
            out.append((spec, env, [False] * rng.choice([1, 2, 3])))
    return out


def real_tag_cases(ck, rt, rng):
    """(tag simulator, fault plan, gone_after, callbacks, terminate stream) for the runs on REAL tags"""
    out = []
    for tag_i in range(len(rt.all_tags())):
        for fault in rt.FAULTS:
            for n in range(0, 7 if ck.thorough else 5):
                for burst in ((1, 3) if not ck.thorough else (1, 2, 3, 4)):
                    out.append((tag_i, {n + j: fault for j in range(burst)}, None))
        for gone in range(0, 6):
            out.append((tag_i, {}, gone))
        for _ in range(150 if ck.thorough else 25):
            plan = {rng.randrange(0, 12): rng.choice(rt.FAULTS) for _ in range(rng.randrange(1, 5))}
            out.append((tag_i, plan, rng.choice([None, None, rng.randrange(2, 10)])))
    return out


def hygiene_histories():
    """enumerated multi-step histories: a call that captures a target, a call that fails in every way, exchange"""
    finds = [(("S", ["a", "b"], 1), ["0", "F.4400.-.0.0"]), (("S", ["f"], 2), ["0", "F.-.-.0.0"]),
             (("L", "a"), ["0", "F.-.-.0.0"]), (("L", "d"), ["0", "F.-.-.0.20"])]
    fails = []
    for a in ["0", "c", "k", "T", "P", "u", "i", "K", "L", "F.44.-.0.0", "F.-.-.0.15"]:
        fails.append((("S", ["a", "b"], 1), ["0", a, "0", "0"]))
        fails.append((("S", ["a"], 1), ["0", a, "0"]))
        fails.append((("L", "a"), ["0", a]))
        fails.append((("L", "d"), ["0", a]))
    for a in ["i", "K"]:
        fails.append((("S", ["a", "b"], 1), [a]))
        fails.append((("L", "b"), [a]))
    fails += [(("S", ["n"], 1), []), (("S", ["a3"], 1), ["0"]), (("S", ["x"], 1), ["0"]), (("L", "x"), ["0"]),
              (("S", [], 1), ["0"])]
    out = []
    for f_op, f_env in finds:
        for g_op, g_env in fails:
            out.append((f_env + ["F.00.-.0.0"] + g_env + ["F.00.-.0.0", "F.00.-.0.0"], [f_op, ("X",), g_op, ("X",), ("X",)]))
            out.append((g_env + f_env + ["F.00.-.0.0"], [g_op, ("X",), f_op, ("X",)]))
    return out


def real_llc_run_ioerror(nfc, cw, world, new_clf):
    """F21 on the real link loop: the REAL run_as_initiator on a MAC whose exchange raises IOError"""
    import nfc.llcp.llc
    LLC = nfc.llcp.llc.LogicalLinkController
    scripted = LLC.activate

    class Mac(object):
        rwt = None

        def exchange(self, data, timeout):
            raise IOError(5, "scripted device failure inside the link loop")

        def deactivate(self, *a, **k):
            pass

    def activate(self, mac, **options):
        self.mac = Mac()
        self.cfg.update({"recv-lto": 100, "send-miu": 128, "llcp-dpc": 0, "rcvd-ver": (1, 3), "send-wks": 1, "send-lsc": 3})
        self.link.CONNECTED = True
        self.run = self.run_as_initiator
        return True
    LLC.activate = activate
    try:
        w = cw.World([], [False] * 4)
        world[0] = w
        clf = new_clf()
        txt, r = cw.outcome_token(nfc, world, lambda: clf.connect(llcp={"role": "initiator"}, terminate=w.terminate))
    finally:
        LLC.activate = scripted
    return txt


def run(ck):
    import nfc
    import nfc.clf
    import sims.conn_world as cw
    rng = ck.rng
    ck.rule = ("connect cases: (option record, environment script, terminate stream); non-trivial = at least one callback "
               "other than on-startup ran or an exception was injected; activation cases: (tag kind, answers of the "
               "activation steps: exhaustive for the first two steps over 13 answers, single faults along every path of the "
               "NXP product detection, random tails); real-tag cases: (tag type, fault plan, tag leaves at command n); "
               "history cases: (script, sequence of sense/listen/"
               "exchange calls); non-trivial = a driver call other than mute happened. distinct by hash of the request line")
    ck.assumptions += [
        "callbacks return a value (they do not raise) and terminate() eventually stays true (an exhausted stream answers true)",
        "model-compared runs: nfc.tag.activate, the activation code of every tag type and nfc.tag.emulate are the real "
        "ones; Tag.is_present is a stand-in (one frontend.exchange() per check) and LogicalLinkController.activate / run "
        "are scripted (real in the real-LLC runs); the real presence checks of every tag type run in the oracle-only "
        "real-tag runs",
        "drivers return None or a target from sense_*/listen_* or raise a CommunicationError subclass, "
        "UnsupportedTargetError, IOError, KeyboardInterrupt; send_cmd_recv_rsp returns data or raises one of these",
        "a run of more than 4000 events is reported as not terminating (Runaway)",
        "the model equals the Python functions outside the compared inputs (D-tie is a sample)",
    ]
    ck.trusted += ["hand-written Lean models NfcVerif.Model.Sense / NfcVerif.Model.Connect, tied by differential runs",
                   "harness/sims/conn_world.py (scripted device and collaborators), harness/sims/conn_realtags.py "
                   "(tag simulators for the real-tag runs), harness/props/c18.py (oracle)"]
    ck.lean("NfcVerif.Props.C18", THEOREMS)
    if ck.thorough:
        ck.leanchecker(["NfcVerif.Props.C18"])
    model = Model("drv_c18")
    world = [cw.World()]
    reqs = []      # (request line, real line, kind)

    with cw.installed(nfc, world) as new_clf:
        # ------------------------------------------------------------ histories of sense / listen / exchange
        n_hist = 12000 if ck.thorough else 2500
        corpus = [
            (["0", "0", "0"], [("S", ["a", "a3"], 1)]),                       # F24: invalid sel_req among two targets
            (["0", "0", "0"], [("S", ["d15", "b"], 2)]),                      # F24: short atr_req among two targets
            (["0", "0"], [("S", ["x", "a"], 1)]),
            (["0", "F.4400.-.0.0", "0", "0", "F.4400.-.0.0"], [("S", ["a"], 1), ("X",), ("S", ["b"], 1), ("X",)]),
            (["0", "F.4400.-.0.0", "0", "0", "0"], [("L", "a"), ("X",), ("L", "b"), ("X",)]),
            (["0", "F.4400.-.0.0", "0", "i"], [("S", ["f"], 1), ("S", ["a"], 1), ("X",)]),
            ([], [("S", [], 3), ("X",)]),
        ]
        corpus += hygiene_histories()
        ck.count("history: enumerated capture/fail/exchange", len(corpus) - 7)
        for h in range(n_hist + len(corpus)):
            if h < len(corpus):
                env, ops = corpus[h]
            else:
                nops = rng.choice([1, 1, 2, 3, 4, 5])
                ops = []
                for _ in range(nops):
                    x = rng.random()
                    if x < 0.55:
                        ops.append(("S", gen_targets(rng, allow_n=True), rng.choice([1, 1, 2, 3, 0, -2])))
                    elif x < 0.75:
                        ops.append(("L", rng.choice(["a", "b", "f", "d", "d", "x"])))
                    else:
                        ops.append(("X",))
                env = gen_env(rng, rng.randrange(0, 14), p_found=rng.choice([0.15, 0.3, 0.5]), p_exc=rng.choice([0.0, 0.05, 0.15]))
            req = "ops %s %s" % (",".join(env) or "-", ops_token(ops))
            try:
                line, recs, w = run_ops(nfc, cw, world, new_clf, env, ops)
            except Exception as e:  # noqa  (the harness must survive whatever the code under test does)
                unexpected(ck, "history", e, {"request": req})
                continue
            reqs.append((req, line, "history"))
            nontrivial = any(t not in ("mute", "sleep") for t in w.log)
            ck.case(req, nontrivial, "history:" + ("found" if " ok r" in line or " ok l" in line or line.split(" | ")[1].startswith(("ok r", "ok l")) else "exc" if "exc " in line else "none"),
                    sample={"request": req, "impl": line} if len(ck.samples) < 2 else None)
            try:
                oracle_ops(ck, cw, recs, w, {"request": req, "impl": line})
            except Exception as e:  # noqa
                unexpected(ck, "history-oracle", e, {"request": req, "impl": line})

        counters = {"connect": 0, "activation": 0}

        def connect_case(spec, env, ts, kind="connect", term_at_n=None):
            req = "connect %s %s %s" % (spec.token(), "".join("1" if b else "0" for b in ts) or "-", ",".join(env) or "-")
            try:
                line, txt, r, w = run_connect(nfc, cw, world, new_clf, spec, env, ts, term_at_n=term_at_n)
            except Exception as e:  # noqa
                unexpected(ck, kind, e, {"request": req, "terminate() true from scripted answer": term_at_n})
                return
            if term_at_n is not None:
                # terminate() as a function of time: the model gets the answers terminate() really gave
                ts = [t == "t1" for t in w.log if t in ("t0", "t1")]
                req = "connect %s %s %s" % (spec.token(), "".join("1" if b else "0" for b in ts) or "-", ",".join(env) or "-")
                if txt == "exc Runaway" or (w.k_pos is not None and len(w.log) - w.k_pos > PROMPT_BOUND + 1):
                    ck.fail("not-prompt-after-terminate-time",
                            "terminate() is true once %d scripted answers are consumed (log position %s), but %s"
                            % (term_at_n, w.k_pos, "the run did not end" if txt == "exc Runaway" else
                               "%d further events followed: ...%s" % (len(w.log) - w.k_pos, " ".join(w.log[w.k_pos:w.k_pos + 12]))),
                            {"request": req, "impl": line[:600], "terminate() true from scripted answer": term_at_n})
            reqs.append((req, line, kind))
            counters[kind] += 1
            nontrivial = any(t.startswith("cb:") and ":startup:" not in t for t in w.log) or bool(w.injected)
            bucket = kind + ":" + (txt if not txt.startswith("ok val") else "ok release-value")
            ck.case(req, nontrivial, bucket, sample={"request": req, "impl": line} if len(ck.samples) < 5 and nontrivial else None)
            try:
                judge_connect(spec, env, ts, req, line, txt, r, w)
            except Exception as e:  # noqa
                unexpected(ck, kind + "-oracle", e, {"request": req, "impl": line})

        def judge_connect(spec, env, ts, req, line, txt, r, w):
            if True:
                if all_supplied(spec):
                    verdict = oracle_connect(ck, cw, spec, env, ts, txt, r, w, {"request": req, "impl": line})
                    ck.count("oracle:" + verdict)
                else:
                    # default callbacks are invisible; device errors and the exceptions that leave connect() are still judged
                    fpos = [p for (p, site, c) in w.injected if c in ("IOError", "KeyboardInterrupt")
                            or (c == "UnsupportedTargetError" and site.startswith("l"))]
                    if fpos and not txt.startswith("exc "):
                        if r is not False:
                            ck.fail("return-not-false-on-error", "connect() returned %s although the device raised %s"
                                    % (txt, [c for (_, _, c) in w.injected]), {"request": req, "impl": line})
                        elif len(w.log) != min(fpos):
                            ck.fail("activity-after-error", "events %s after the device error" % w.log[min(fpos):],
                                    {"request": req, "impl": line})
                    if txt.startswith("exc ") and not (spec.rdwr is not None and spec.rdwr["su"] == 3) \
                            and not (spec.card is not None and spec.card["kind"] == "x"):
                        oracle_connect(ck, cw, spec, env, ts, txt, r, w, {"request": req, "impl": line})
                # documented default on-discover: without the llcp option every target is activated
                if spec.rdwr is not None and spec.rdwr["di"] == "-" and spec.llcp is None:
                    for i, t in enumerate(w.log[:-1]):
                        if t in ("sA", "sF", "sD") and w.log[i + 1] in ("t0", "t1", "mute", "lA", "lB", "lF", "lD") \
                                and any(getattr(o, "_id", None) is not None and cw.target_token(o).startswith("r")
                                        and (o.sel_res and o.sel_res[0] & 0x40 or o.sensf_res and o.sensf_res[1:3] == b"\x01\xfe")
                                        for o in w.objects.values()):
                            ck.fail("default-discover-refuses-p2p-without-llcp",
                                    "rdwr without llcp: the default on-discover refused a peer-to-peer capable target "
                                    "(documented: returns True for all targets when the llcp option is absent)",
                                    {"request": req, "impl": line})
                            break

        # ------------------------------------------------------------ connect(): product of option records x terminate times
        specs = product_specs(cw)
        n_rand = 4000 if ck.thorough else 1000
        specs += [gen_spec(rng, cw, full=(i % 2 == 0)) for i in range(n_rand)]
        corpus_c = [
            (cw.ConnSpec(llcp={"su": 0, "co": 2, "re": 2, "role": "i"}), ["F.4400.-.0.0", "X"], [False, False]),     # F21
            (cw.ConnSpec(card={"su": 0, "kind": "d", "di": 2, "co": 2, "re": 2}), ["0", "L"], [False, False]),        # F30
            (cw.ConnSpec(rdwr={"su": 0, "tg": ["a3", "b"], "di": 2, "co": 2, "re": 2, "it": 1, "bp": 1}), [], [False, True]),  # F24
            (cw.ConnSpec(rdwr={"su": 0, "tg": ["a"], "di": "-", "co": 2, "re": 2, "it": 1, "bp": 1}),
             ["0", "F.4400.-.1.0", "F.4400.-.0.0"], [False, True]),                                                   # default on-discover
        ]
        for si, spec in enumerate([c[0] for c in corpus_c] + specs):
            if si < len(corpus_c):
                env, streams = corpus_c[si][1], [corpus_c[si][2]]
            else:
                env = gen_env(rng, rng.randrange(0, 30), p_found=rng.choice([0.3, 0.5, 0.7, 0.9]),
                              p_exc=rng.choice([0.0, 0.0, 0.03, 0.1]))
                # base run: terminate never true within the stream -> how many polls happen
                base = [False] * (40 if ck.thorough else 14)
                try:
                    _, _, _, w0 = run_connect(nfc, cw, world, new_clf, spec, env, base)
                except Exception as e:  # noqa
                    unexpected(ck, "connect", e, {"spec": spec.token(), "env": env})
                    continue
                polls = sum(1 for t in w0.log if t in ("t0", "t1"))
                ks = list(range(0, min(polls, len(base)) + 1))
                if not ck.thorough and len(ks) > 6:
                    ks = sorted(set(ks[:3] + rng.sample(ks, 3)))
                streams = [[False] * k for k in ks]          # terminate turns true at every step (stream exhausted = true)
                if rng.random() < 0.3:
                    streams.append([rng.random() < 0.3 for _ in range(rng.randrange(1, 12))])   # non-monotone predicate
            for ts in streams:
                connect_case(spec, env, ts)
        # the three inner loops (presence loop, link loop, card loop) with terminate() turning true at EVERY iteration
        d8 = ["F.00.-.0.0"] * 8
        loops = [
            (cw.ConnSpec(rdwr={"su": 0, "tg": ["a", "b"], "di": 2, "co": 2, "re": 2, "it": 1, "bp": 1}),
             ["0", "F.4400.-.0.0.1", "F.0578807002.-.0.0", "0"] + d8 + ["c"]),
            (cw.ConnSpec(rdwr={"su": 0, "tg": ["a", "b"], "di": 2, "co": 4, "re": 1, "it": 1, "bp": 0}),
             ["0", "F.000c.1148b2565400.0.0"] + d8 + ["k", "0", "0", "0", "0"]),
            (cw.ConnSpec(card={"su": 3, "kind": "f", "di": 2, "co": 2, "re": 2}), ["0", "F.-.-.0.0"] + d8 + ["c", "T"] + d8 + ["k"]),
            (cw.ConnSpec(card={"su": 0, "kind": "f", "di": 2, "co": 6, "re": 0}), ["0", "F.-.-.0.0"] + d8 + ["k", "0", "0"]),
            (cw.ConnSpec(llcp={"su": 0, "co": 2, "re": 2, "role": "i"}), ["F.4400.-.0.0", "p9"]),
            (cw.ConnSpec(llcp={"su": 0, "co": 2, "re": 1, "role": "-"}), ["0", "F.4400.-.0.0", "p6", "F.4400.-.0.0", "p6"]),
            (cw.ConnSpec(rdwr={"su": 0, "tg": ["a", "b"], "di": 2, "co": 2, "re": 0, "it": 1, "bp": 1},
                         llcp={"su": 0, "co": 2, "re": 0, "role": "t"}, card={"su": 0, "kind": "f", "di": 2, "co": 2, "re": 0}),
             ["0", "F.4400.-.0.0.1", "F.05.-.0.0", "0"] + d8[:3] + ["c", "0", "F.4400.-.0.0", "p4", "0", "F.-.-.0.0"] + d8[:3] + ["k"]),
        ]
        for spec, env in loops:
            for k in range(0, 24):
                connect_case(spec, env, [False] * k)
        # ... and as a function of TIME while the loops are busy (a tag that stays, a reader that keeps polling the
        # emulated tag so that there is always a response to send)
        poll = "F.0600ffff0000.-.0.0"
        busy = [
            (cw.ConnSpec(rdwr={"su": 0, "tg": ["a", "b"], "di": 2, "co": 2, "re": 2, "it": 1, "bp": 1}),
             ["0", "F.4400.-.0.0.1", "F.0578807002.-.0.0", "0"] + ["F.00.-.0.0"] * 60),
            (cw.ConnSpec(card={"su": 3, "kind": "f", "di": 2, "co": 2, "re": 2}), ["0", "F.-.-.0.0"] + [poll] * 60),
            (cw.ConnSpec(card={"su": 0, "kind": "f", "di": 2, "co": 2, "re": 1}), ["0", "F.-.-.0.0"] + [poll, "c", poll, "T"] * 15),
        ]
        for spec, env in busy:
            for k in range(0, 30):
                connect_case(spec, env, [], term_at_n=k)
        ck.count("connect runs", counters["connect"])

        # ------------------------------------------------------------ the activation step inside connect(rdwr=...): the REAL
        # nfc.tag.activate for every tag kind x every answer (data, each CommunicationError class, device errors) at the
        # first and at later activation commands
        for spec, env, ts in activation_cases(ck, cw, rng):
            connect_case(spec, env, ts, kind="activation")
        ck.count("activation runs", counters["activation"])

        # ------------------------------------------------------------ the real link loop on a failing device (F21)
        txt = real_llc_run_ioerror(nfc, cw, world, new_clf)
        ck.case(("real-llc-run-ioerror", txt), True, "real-run:" + txt)
        if txt != "ok False":
            ck.fail("connect-systemexit-from-llc-run",
                    "IOError inside the real LogicalLinkController.run_as_initiator: connect() gave %r (documented: returns False)" % txt,
                    {"scenario": "real run_as_initiator, MAC.exchange raises IOError(5)", "impl": txt})
        # closed frontend: documented IOError(ENODEV)
        clf = new_clf()
        clf.close()
        for name, fn in (("connect", lambda: clf.connect(rdwr={})), ("sense", lambda: clf.sense(nfc.clf.RemoteTarget("106A"))),
                         ("listen", lambda: clf.listen(nfc.clf.LocalTarget("106A"), 0.1)), ("exchange", lambda: clf.exchange(b"", 0.1))):
            try:
                fn()
                res = "returned"
            except BaseException as e:  # noqa
                res = common.exc_name(e)
            ck.case(("closed", name, res), True, "closed:" + res)
            if res != "IOError(19)":
                ck.fail("closed-frontend:" + name, "%s on a closed frontend: %s (documented IOError ENODEV)" % (name, res), {"entry": name})

    # ---------------------------------------------------------------- REAL tags: nothing of nfc.tag is replaced
    # (oracle only) every tag type x every CommunicationError class / damaged frame / device error at the n-th command
    # of the run (activation commands and the type specific presence checks) x the tag leaving the field
    import sims.conn_realtags as rt
    n_rt = 0
    state = {"tag": None, "plan": {}, "gone_after": None, "n": 0}
    with rt.installed(nfc, world, state) as new_clf:
        for ci, (tag_i, plan, gone) in enumerate(real_tag_cases(ck, rt, rng)):
            tag = rt.all_tags()[tag_i]
            co, re_ = [(2, 2), (2, 1), (1, 2), (4, 6)][ci % 4]
            tg = {"A": ["a", "b"], "B": ["a", "b"], "F": ["f", "a"]}[tag.tech]
            spec = cw.ConnSpec(rdwr={"su": 0, "tg": tg, "di": 2, "co": co, "re": re_, "it": 1, "bp": ci % 2})
            ts = [False] * (3 + ci % 4)
            state.update({"tag": tag, "plan": plan, "gone_after": gone, "n": 0})
            replay = {"scenario": "real nfc.tag.activate, real Tag classes and presence checks on a scripted device",
                      "tag": tag.kind, "fault plan (command index -> fault)": {str(k): v for k, v in sorted(plan.items())},
                      "tag leaves before command": gone, "on-connect": co, "on-release": re_, "terminate false answers": len(ts)}
            try:
                line, txt, r, w = run_connect(nfc, cw, world, new_clf, spec, [], ts)
                replay["impl"] = line
                replay["commands"] = [c.hex() for c in w.commands[:12]]
                n_rt += 1
                ck.case(("real-tag", tag.kind, tuple(sorted(plan.items())), gone, co, re_, len(ts)),
                        any(t.startswith("cb:rdwr:connect") for t in w.log) or bool(w.injected),
                        "real-tag:" + tag.kind + ":" + (txt if not txt.startswith("ok val") else "ok release-value"),
                        sample=replay if n_rt == 5 else None)
                oracle_connect(ck, cw, spec, [], ts, txt, r, w, replay)
                # a tag that answers everything is connected in the first round
                if not plan and gone is None and not any(t.startswith("cb:rdwr:connect") for t in w.log[:12]):
                    ck.fail("real-tag-not-activated", "%s answers every command but was not connected (log %s)"
                            % (tag.kind, " ".join(w.log[:12])), replay)
            except Exception as e:  # noqa
                unexpected(ck, "real-tag", e, replay)
    ck.count("real-tag runs", n_rt)

    # ---------------------------------------------------------------- the REAL LogicalLinkController over several rounds
    # LogicalLinkController.activate and run_as_initiator/run_as_target are the real ones, only the NFC-DEP MAC is
    # scripted: ONE controller lives through many rounds of the connect() loop (success, peer leaves, failing activations)
    n_real = 0
    with cw.installed_real_llc(nfc, world) as new_clf:
        def found(k):
            return "F.4400.-.0.%d" % k
        scripts = [
            ("i", 2, 1, [found(1), "0", "0", "0", "0"]),            # success, peer leaves, on-release false, then nobody there
            ("-", 2, 0, [found(0), "0", "0", "0", found(2), "0", "0"]),
            ("t", 2, 5, [found(2), "0", "0", found(0), "0"]),
            ("i", 1, 2, ["0", found(1), "0"]),
        ]
        for _ in range(400 if ck.thorough else 120):
            scripts.append((rng.choice(["-", "-", "t", "i"]), rng.choice([2, 2, 2, 4, 6, 1, 0]), rng.choice([1, 0, 3, 5, 2, 6]),
                            [found(rng.choice([0, 0, 1, 2, 3])) if rng.random() < 0.4 else ("i" if rng.random() < 0.04 else "0")
                             for _ in range(rng.randrange(1, 9))]))
        for role, co, re_, script in scripts:
            spec = cw.ConnSpec(llcp={"su": 0, "co": co, "re": re_, "role": role})
            env_model = []
            for tok in script:
                env_model.append(tok)
                if tok.startswith("F."):
                    env_model.append("p%d" % (int(tok.rsplit(".", 1)[1]) + 1))
            base = [False] * (24 if ck.thorough else 12)
            try:
                _, _, _, w0 = run_connect(nfc, cw, world, new_clf, spec, script, base)
            except Exception as e:  # noqa
                unexpected(ck, "real-llc", e, {"role": role, "script": script})
                continue
            polls = sum(1 for x in w0.log if x in ("t0", "t1"))
            ks = list(range(0, min(polls, len(base)) + 1))
            if not ck.thorough and len(ks) > 5:
                ks = sorted(set(ks[:2] + ks[-1:] + rng.sample(ks, 2)))
            for k in ks:
                ts = [False] * k
                try:
                    line, txt, r, w = run_connect(nfc, cw, world, new_clf, spec, script, ts)
                except Exception as e:  # noqa
                    unexpected(ck, "real-llc", e, {"role": role, "script": script, "terminate": k})
                    continue
                n_real += 1
                real_line = line
                req = "connect %s %s %s" % (spec.token(), "".join("0" for _ in ts) or "-", ",".join(env_model) or "-")
                reqs.append((req, real_line, "real-llc"))
                replay = {"scenario": "real LogicalLinkController.activate/run on a scripted NFC-DEP MAC", "role": role,
                          "on-connect": co, "on-release": re_, "activation script": script, "terminate": len(ts),
                          "impl": line, "link exchanges": len(w.link)}
                ck.case(("real-llc", role, co, re_, tuple(script), k), any(ok for _, ok in w.activations),
                        "real-llc:" + (txt if not txt.startswith("ok val") else "ok release-value"),
                        sample=replay if n_real == 3 else None)
                # on-connect only (and directly) after an activation that really succeeded
                succ = {pos for pos, ok in w.activations if ok}
                for i, tok in enumerate(w.log):
                    if tok.startswith("cb:llcp:connect"):
                        if i - 1 not in succ:
                            ck.fail("on-connect-without-activation",
                                    "on-connect ran although the preceding link activation failed (log ...%s)"
                                    % " ".join(w.log[max(0, i - 4):i + 1]), replay)
                if not txt.startswith("exc") and r is not False:
                    # every successful activation is reported to on-connect
                    if any(not (pos + 1 < len(w.log) and w.log[pos + 1].startswith("cb:llcp:connect")) for pos in succ):
                        ck.fail("activation-without-on-connect", "a successful link activation was not reported to on-connect", replay)
                oracle_connect(ck, cw, spec, script, ts, txt, r, w, replay)
        # ---- busy traffic: terminate() is a function of TIME (true from the K-th link exchange on), the peer keeps the
        # local link layer busy: always something to send (c), always something received (u), both, idle, mixed; the
        # real run_as_initiator / run_as_target must notice terminate() at the head of the next turn
        patterns = ["ssssssssss", "cccccccccccc", "uuuuuuuuuuuu", "cucucucucucu", "sscccccccccc", "ccccssssuuuu",
                    "ccccd", "uuud", "c", "u", ""]
        for _ in range(40 if ck.thorough else 6):
            patterns.append("".join(rng.choice("scucu") for _ in range(rng.randrange(1, 16))) + rng.choice(["", "", "d"]))
        n_busy = 0
        for pi, pat in enumerate(patterns):
            for role in ("i", "t", "-"):
                co, re_ = [(2, 2), (2, 1), (4, 6), (2, 0)][(pi + len(role) + ord(role[0])) % 4]
                spec = cw.ConnSpec(llcp={"su": 0, "co": co, "re": re_, "role": role})
                pre = ["0"] if (pi % 3 == 1) else []
                script = pre + ["A." + pat, "0", "A." + pat[::-1]]
                env_model = []
                for tok in script:
                    if tok.startswith("A."):
                        body = tok[2:].split("d")[0]
                        env_model += ["F.4400.-.0.0", "r" + "".join("1" if ch == "c" else "0" for ch in body)]
                    else:
                        env_model.append(tok)
                ks = list(range(0, len(pat) + 4))
                if not ck.thorough and len(ks) > 8:
                    ks = sorted(set(ks[:4] + ks[-2:] + rng.sample(ks, 3)))
                for k in ks:
                    replay = {"scenario": "real LogicalLinkController run loop on a scripted NFC-DEP MAC, busy peer", "role": role,
                              "on-connect": co, "on-release": re_, "activation script": script,
                              "peer pattern letters": "s SYMM, c CONNECT by name (unknown service), u UI (unbound), d DISC",
                              "terminate() true from link exchange": k}
                    try:
                        line, txt, r, w = run_connect(nfc, cw, world, new_clf, spec, script, [], term_at=k)
                    except Exception as e:  # noqa
                        unexpected(ck, "real-llc-busy", e, replay)
                        continue
                    n_busy += 1
                    replay.update({"impl": line, "link exchanges": len(w.link), "sent": w.link[:20]})
                    ts_real = [t == "t1" for t in w.log if t in ("t0", "t1")]
                    req = "connect %s %s %s" % (spec.token(), "".join("1" if b else "0" for b in ts_real) or "-", ",".join(env_model))
                    if txt.startswith("exc ") and second_llcp_link(w.log):
                        # open finding connect-raises-from-second-llcp-link (reported by the oracle below): the model has no
                        # shut-down controller state, the run is not compared
                        ck.count("real-llc busy-traffic runs ended by the second-link defect (not compared)")
                    else:
                        reqs.append((req, line, "real-llc"))
                    ck.case(("real-llc-busy", role, co, re_, pat, k), any(ok for _, ok in w.activations),
                            "real-llc-busy:" + (txt if not txt.startswith("ok val") else "ok release-value"),
                            sample=replay if n_busy == 7 else None)
                    try:
                        if isinstance(r, cw.Runaway) or len(w.link) > k + LINK_BOUND:
                            ck.fail("llc-run-not-prompt-after-terminate",
                                    "terminate() is true from link exchange %d on, but the link loop went on for %d exchanges "
                                    "(role %s, peer pattern %r; terminate() was asked %d times, %s): connect() did not end "
                                    "promptly once terminate() is true"
                                    % (k, len(w.link), role, pat, len(ts_real),
                                       "never answered true" if True not in ts_real else "first true at poll %d" % (ts_real.index(True) + 1)),
                                    replay)
                        oracle_connect(ck, cw, spec, script, ts_real, txt, r, w, replay)
                    except Exception as e:  # noqa
                        unexpected(ck, "real-llc-busy-oracle", e, replay)
        ck.count("real-llc busy-traffic runs", n_busy)
    ck.count("real-llc runs", n_real)

    # ---------------------------------------------------------------- constants of the model: the GET_VERSION table
    try:
        import nfc.tag.tt2_nxp
        want = sorted(bytes(k).hex() for k in nfc.tag.tt2_nxp.VERSION_MAP)
        got = sorted(model.ask_many(["versionmap"])[0].split(","))
        ck.tie("nfc.tag.tt2_nxp.VERSION_MAP keys = versionMap of the model", cases=len(want), disagreements=int(want != got),
               exhaustive=True)
        if want != got:
            ck.fail("tie:c18-version-map", "VERSION_MAP keys %s, model %s" % (want, got), {"impl": want, "model": got})
    except Exception as e:  # noqa
        unexpected(ck, "version-map", e, {})

    # ---------------------------------------------------------------- compare with the model
    replies = model.ask_many([r[0] for r in reqs])
    dis = {"history": 0, "connect": 0, "activation": 0, "real-llc": 0}
    n = {"history": 0, "connect": 0, "activation": 0, "real-llc": 0}
    for (req, real, kind), rep in zip(reqs, replies):
        n[kind] += 1
        want = strip_defaults(rep) if kind != "history" else rep
        if kind == "real-llc":
            a_, _, b_ = want.rpartition(" | ")
            want = (" ".join(x for x in a_.split(" ") if x != "run") or "-") + " | " + b_
        if want != real:
            dis[kind] += 1
            ck.fail("tie:c18-%s-model-vs-frontend" % kind, "model %r, implementation %r" % (want, real),
                    {"request": req, "model": rep, "impl": real})
    ck.tie("sense/listen/exchange histories: model vs ContactlessFrontend", cases=n["history"], disagreements=dis["history"])
    ck.tie("connect(): model vs ContactlessFrontend", cases=n["connect"], disagreements=dis["connect"])
    ck.tie("connect(rdwr) with the REAL nfc.tag.activate, every tag kind x every answer of the activation commands: "
           "model vs implementation", cases=n["activation"], disagreements=dis["activation"])
    ck.tie("connect(llcp) on the real LogicalLinkController (scripted NFC-DEP MAC): model vs implementation",
           cases=n["real-llc"], disagreements=dis["real-llc"])
