"""C03, part t34 - NDEF writes on Type 3 / Type 4 touch nothing outside the NDEF area.

L1: theorems of NfcVerif.Props.C03T34.
L2: ordered write commands and the resulting memory, real code vs. Lean model.
    Type 3 format(version, wipe): commands and resulting memory vs. Model/T3Format.lean.
L3: byte-wise diff of the simulated memory before/after the write and the address range of
    every state-changing command: Type 3 only blocks 0 .. ceil(len/16) <= Nmaxb (block 0: only
    WriteF, Ln, checksum change), Type 4 only the NDEF file at offsets < NLEN size + len <= file
    size limit (CC file never updated); Type 4 format(wipe) stays below the file size limit.
"""
from common import Model, hx, exc_name
from sims import t34_lib as T

LEAN_TARGETS = ["NfcVerif.Props.C03T34", "drv_t34"]

THEOREMS = [
    "NfcVerif.C03T34.t3_write_confined",
    "NfcVerif.C03T34.t4_write_confined",
    "NfcVerif.C03T34.t3_format_confined",
    "NfcVerif.C03T34.t3_format_version_none_counterexample",
]


def run_part(ck):
    rng = ck.rng
    ck.rule += (" | t34: cases = (layout, message length, contents); memory of the simulated tag extends beyond the "
                "declared area (extra blocks / file octets beyond the size limit) and is filled with random non-zero "
                "octets; non-trivial = message non-empty")
    ck.assumptions += [
        "t34: Type 3 NDEF area = attribute block (WriteF, Ln, checksum octets) + data blocks 1..ceil(len/16); "
        "Type 4 NDEF area = NLEN field + message octets of the NDEF file",
    ]
    ck.trusted += ["Lean models NfcVerif.Model.T3 / T4 tied by drv_t34; harness/sims/t34_sims.py"]
    ck.lean("NfcVerif.Props.C03T34", THEOREMS)
    if ck.thorough:
        ck.leanchecker(["NfcVerif.Props.C03T34"])
    model = Model("drv_t34")
    try:
        var = T.probe_variant()
    except Exception as e:  # noqa - the tree under test broke the Type 4 activation / write path itself
        ck.fail("t4-unexpected-exception", "probing the Type 4 write path raised %s: %s" % (exc_name(e), e),
                {"layout": "L4(0x20, 4, 59, 1, 20)", "data": "010203"})
        var = "abc"
    jobs = []
    nl3, nl4 = (150, 220) if ck.thorough else (24, 40)
    lays = []
    for lay in T.gen_t3(rng, nl3, ck.thorough, big=ck.thorough):
        # physical memory larger than the declared Nmaxb: blocks beyond must never be addressed
        lays.append(T.L3(lay.nbr, lay.nbw, lay.nmaxb, lay.old, T.rbytes(rng, 16 * (lay.nmaxb + 3), 1), extra_blocks=2))
    # Type 4: the simulated file physically extends 8 octets beyond the announced maximum file size, so an
    # UPDATE BINARY beyond the limit is executed and observable; mapping version 3 / extended control TLV
    # (4-octet NLEN) layouts are always present
    t4 = [T.L4(0x30, 6, 59, 52, 100, T.rbytes(rng, 40, 1), b""), T.L4(0x30, 6, 255, 255, 300, b"", b""),
          T.L4(0x30, 6, 16, 4, 9, b"", b""), T.L4(0x20, 4, 59, 52, 100, T.rbytes(rng, 98, 1), b"")]
    t4 += T.gen_t4(rng, nl4, ck.thorough, big=False)
    for lay in t4:
        lays.append(T.L4(lay.ver, lay.tag, lay.mle, lay.mlc, lay.mfs, lay.old, T.rbytes(rng, lay.mfs + 8, 1), extra=8))
    for lay in lays:
        # lengths up to the capacity the tag REPORTS (cap-1 and cap always): a capacity beyond the layout makes
        # the write leave the NDEF area
        _, nd0 = T.see(lay.sim())
        rep_cap = nd0.capacity if nd0 is not None else lay.cap
        ck.count("%s:reported-capacity-%s" % (lay.kind, "ok" if rep_cap == lay.cap else "differs"))
        for n in sorted(set(T.lengths(rng, lay.cap, 2)) | {rep_cap - 1, rep_cap}):
            if n < 0 or n > max(rep_cap, lay.cap) or n > lay.cap + 64:
                continue
            data = T.rbytes(rng, n, 1)
            sim = lay.sim()
            run = T.SetRun(sim, data)
            replay = {"layout": lay.descr(), "data": data.hex()}
            if run.res is None:
                continue
            if lay.kind == "t3":
                jobs.append((T.t3_req("set", lay.mem, data), run.line, replay))
                before, after = lay.mem, bytes(sim.mem)
                nb = (n + 15) // 16
                for bl, d in sim.writes:
                    if any(b > lay.nmaxb for b in bl):
                        ck.fail("t3-write-beyond-nmaxb", "write command addresses blocks %s, Nmaxb is %d (message of %d "
                                "octets, reported capacity %d)" % (bl, lay.nmaxb, n, rep_cap), replay)
                    elif any(b > nb for b in bl):
                        ck.fail("t3-write-outside-ndef-blocks", "write command addresses blocks %s, message needs 1..%d, "
                                "Nmaxb %d" % (bl, nb, lay.nmaxb), replay)
                allowed = set(range(9, 10)) | set(range(11, 16)) | set(range(16, 16 + 16 * nb))
                bad = [a for a in range(len(before)) if before[a] != after[a] and a not in allowed]
                if bad:
                    ck.fail("t3-octets-outside-ndef-area-changed", "octets %s changed (message of %d octets)" % (bad[:8], n), replay)
            else:
                jobs.append((T.t4_req("set", var, lay, lay.file, data), run.line, replay))
                before, after = lay.file, bytes(sim.file)
                for fid, off, d in sim.writes:
                    if fid == lay.fid and off + len(d) > lay.mfs:
                        ck.fail("t4-update-beyond-max-file-size", "UPDATE BINARY offset %d length %d reaches beyond the "
                                "maximum file size %d of the capability container (control TLV T=%d, NLEN %d octets, "
                                "reported capacity %d, message %d octets)" % (off, len(d), lay.mfs, lay.tag, lay.nl, rep_cap, n),
                                replay)
                    elif fid != lay.fid or off + len(d) > lay.nl + n:
                        ck.fail("t4-update-outside-ndef-area", "UPDATE BINARY file %s offset %d length %d, message %d octets, "
                                "size limit %d" % (fid.hex(), off, len(d), n, lay.mfs), replay)
                beyond = [a for a in range(lay.mfs, len(before)) if before[a] != after[a]]
                if beyond:
                    ck.fail("t4-octets-beyond-max-file-size-changed", "file octets %s beyond the maximum file size %d "
                            "changed (message of %d octets, reported capacity %d)" % (beyond, lay.mfs, n, rep_cap), replay)
                bad = [a for a in range(len(before)) if before[a] != after[a] and a >= lay.nl + n]
                if bad:
                    ck.fail("t4-octets-outside-ndef-area-changed", "file octets %s changed" % bad[:8], replay)
            ck.case((lay.key(), lay.old, data), n > 0, lay.kind + ":write")
        if lay.kind == "t4":
            # erase: format(wipe=..)
            sim = lay.sim()
            try:
                tag = sim.activate()
                ok = tag.format(wipe=rng.randrange(256)) if tag.ndef is not None else None
            except Exception as e:  # noqa
                ok = "exc " + exc_name(e)
            if ok is True:
                for fid, off, d in sim.writes:
                    if fid != lay.fid or off + len(d) > lay.mfs:
                        ck.fail("t4-wipe-outside-ndef-file", "format(wipe) UPDATE BINARY offset %d length %d beyond the size "
                                "limit %d" % (off, len(d), lay.mfs), {"layout": lay.descr(), "format": "wipe"})
                if bytes(sim.file[lay.mfs:]) != lay.file[lay.mfs:]:
                    ck.fail("t4-wipe-outside-ndef-file", "octets beyond the size limit changed", {"layout": lay.descr()})
            ck.case((lay.key(), "wipe", str(ok)), ok is True, "t4:wipe:%s" % (ok if not isinstance(ok, str) else ok[:30]))
    T.compare(ck, model, jobs, "t34-write-commands-model-vs-nfcpy")
    t3_format_part(ck, model)
    sequences_t34(ck)


def t3_format_part(ck, model):
    """Type 3 format(version, wipe): probing, new attribute block, optional wipe of the data blocks"""
    import contextlib
    import io
    from sims.t34_sims import T3Sim, t3_attr
    rng = ck.rng
    jobs = []

    def run_format(mem, lim_r, lim_w, version, wipe):
        sim = T3Sim(mem, lim_r, lim_w)
        out = io.StringIO()
        try:
            tag = sim.activate()
            with contextlib.redirect_stdout(out):
                r = tag.format(version=version, wipe=wipe)
            res = "ok true" if r is True else "ok false" if r is False else "ok %r" % (r,)
        except Exception as e:  # noqa
            res = "exc " + T.xname(e)
        cmds = ",".join("%s:%s" % (".".join(map(str, bl)), hx(d)) for bl, d in sim.writes) or "-"
        return sim, res, "%s cmds=%s mem=%s" % (res, cmds, hx(sim.mem)), out.getvalue()

    # which repairs does the tree contain?
    _, res0, _, printed0 = run_format(t3_attr(0x10, 1, 1, 1, 0, 1, 0) + bytes(16), 1, 1, None, None)
    rep = "1" if res0 == "ok true" else "0"
    ck.notes.append("t34: Type 3 format(version=None) on this tree: %s, printed %d characters" % (res0, len(printed0)))
    n_lay = 120 if ck.thorough else 24
    sizes = [1, 2, 3, 8, 17, 40, 256, 257, 300] + ([1000] if ck.thorough else [])
    for k in range(n_lay):
        nblocks = rng.choice(sizes)
        lim_r = rng.choice([1, 2, 4, 12, 15, 20])
        lim_w = rng.choice([1, 2, 8, 12, 13, 14])
        if k % 6 == 0:
            lim_w = 13    # Nbw 13 must become 12 when block numbers need three octets
        mem = bytearray(T.rbytes(rng, 16 * nblocks, 1))
        if rng.random() < 0.7:
            mem[0:16] = t3_attr(0x10, min(lim_r, 15), min(lim_w, 13), nblocks - 1, 0, 1, rng.randrange(0, 16 * (nblocks - 1) + 1))
        version = rng.choice([None, None, 0x10, 0x11, 0x1F, 0x20, 0])
        wipe = rng.choice([None, None, 0, 0x5A, 0xFF, rng.randrange(256)])
        sim, res, line, printed = run_format(bytes(mem), lim_r, lim_w, version, wipe)
        replay = {"format": True, "blocks": nblocks, "lim_r": lim_r, "lim_w": lim_w, "version": version, "wipe": wipe,
                  "block0": bytes(mem[:16]).hex()}
        jobs.append(("t3.format %s %s %d %d %s %s" % (rep, hx(mem), lim_r, lim_w,
                                                      "none" if version is None else version,
                                                      "none" if wipe is None else wipe), line, replay))
        ck.case(("t3format", bytes(mem), lim_r, lim_w, version, wipe), res == "ok true", "t3:format:" + res[:24])
        if printed:
            ck.fail("t3-format-prints-to-stdout", "format() wrote %d characters to stdout: %r" % (len(printed), printed[:40]), replay)
        for bl, d in sim.writes:
            if any(b >= nblocks for b in bl) or len(d) != 16 * len(bl):
                ck.fail("t3-format-write-outside-memory", "format wrote blocks %s" % bl[:5], replay)
        good_version = version is None or version >> 4 == 1
        if not good_version:
            if version != 0 and (res != "ok false" or sim.writes):
                ck.fail("t3-format-bad-version-not-refused", "version %r: %s, %d writes" % (version, res, len(sim.writes)), replay)
            continue
        if res != "ok true":
            key = "t3-format-version-none-struct-error" if version is None and res == "exc struct.error" else "t3-format-fails"
            ck.fail(key, "format(version=%r, wipe=%r) on a tag with %d blocks ended %s" % (version, wipe, nblocks, res), replay)
            continue
        after = bytes(sim.mem)
        nbw = min(lim_w, 13)
        if nbw == 13 and nblocks - 1 > 255:
            nbw = 12
        want0 = t3_attr(0x10 if version is None else version, min(lim_r, 15), nbw, nblocks - 1, 0, 1, 0)
        if after[:16] != want0:
            ck.fail("t3-format-attribute-block-wrong", "attribute block %s, expected %s" % (after[:16].hex(), want0.hex()), replay)
        want_data = bytes(mem[16:]) if wipe is None else bytes([wipe]) * (16 * (nblocks - 1))
        if after[16:] != want_data or len(after) != len(mem):
            bad = [a for a in range(16, min(len(after), len(mem))) if after[a] != (mem[a] if wipe is None else wipe)]
            ck.fail("t3-format-data-blocks-wrong", "wipe=%r: data octets %s differ from the expected contents" % (wipe, bad[:6]), replay)
        # the formatted tag is an empty NDEF tag that round-trips
        line2, nd = T.see(T3Sim(after, lim_r, lim_w))
        if line2 != "ok cap=%d r=1 w=1 data=-" % (16 * (nblocks - 1)):
            ck.fail("t3-format-result-not-empty-ndef", "fresh activation after format: %s" % line2[:80], replay)
    T.compare(ck, model, jobs, "t3-format-model-vs-nfcpy")


# ====================================================================== sequences on ONE tag object
class _T3(object):
    """Type 3 Tag behind T3Sim: memory = blocks of 16 octets; NDEF area = attribute block + data blocks"""
    name = "Type3Tag"

    def __init__(self, rng):
        lay = next(iter(T.gen_t3(rng, 1, False, big=False)))
        self.extra = rng.choice([0, 2])
        self.lay = T.L3(lay.nbr, lay.nbw, lay.nmaxb, lay.old, T.rbytes(rng, 16 * (lay.nmaxb + 1 + self.extra), 1), extra_blocks=self.extra)
        self.nmaxb = lay.nmaxb
        self.phys = lay.nmaxb + 1 + self.extra
        self.ops = ["r", "w", "w", "f", "fw", "fv"]

    def fresh(self, mem):
        sim = T.T3Sim(mem, self.lay.nbr, self.lay.nbw)
        return sim, sim.activate()

    def initial(self):
        return self.lay.mem

    def snap(self, sim):
        return bytes(sim.mem)

    def take(self, sim):
        w = [(tuple(bl), bytes(d)) for bl, d in sim.writes]
        del sim.writes[:]
        return w

    def cap(self):
        return self.nmaxb * 16

    def allowed(self, op, before):
        """octet addresses that may change, block numbers that may be addressed"""
        if op[0] == "w":
            nb = (len(op[1]) + 15) // 16
            return set([9, 10]) | set(range(11, 16)) | set(range(16, 16 + 16 * nb)), set(range(0, nb + 1))
        if op[0] == "f":
            if op[1] is not None and op[1] >> 4 != 1:
                return set(), set()
            blocks = set(range(0, self.phys)) if op[2] is not None else {0}
            return set(a for b in blocks for a in range(16 * b, 16 * b + 16)), blocks
        return set(), set()

    def blocks_of(self, w):
        return set(w[0])

    def after(self, op, out):
        if op[0] == "f" and out == "true":
            self.nmaxb = self.phys - 1       # format() measures the tag: every block that answers belongs to the area


class _T4(object):
    name = "Type4Tag"

    def __init__(self, rng):
        lay = next(iter(T.gen_t4(rng, 1, False, big=False)))
        self.lay = T.L4(lay.ver, lay.tag, lay.mle, lay.mlc, lay.mfs, lay.old, T.rbytes(rng, lay.mfs + 8, 1), extra=8)
        self.ops = ["r", "w", "w", "f", "fw"]

    def fresh(self, mem):
        sim = self.lay.sim(file=mem)
        return sim, sim.activate()

    def initial(self):
        return self.lay.file

    def snap(self, sim):
        return bytes(sim.file)

    def take(self, sim):
        w = [(bytes(fid), off, bytes(d)) for fid, off, d in sim.writes]
        del sim.writes[:]
        return w

    def cap(self):
        return self.lay.cap

    def allowed(self, op, before):
        if op[0] == "w":
            return set(range(0, self.lay.nl + len(op[1]))), None
        if op[0] == "f":
            return (set(range(0, self.lay.mfs)) if op[2] is not None else set()), None
        return set(), None

    def cmd_ok(self, w, allowed):
        fid, off, d = w
        return fid == self.lay.fid and all(a in allowed for a in range(off, off + len(d)))

    def after(self, op, out):
        pass


class _Lite(object):
    """FeliCa Lite / Lite-S (sims/auth_felica.LiteTag): user blocks 0..13, REG 14, system blocks 80h.."""

    def __init__(self, rng, lite_s):
        from sims import auth_felica as F
        self.F, self.lite_s = F, lite_s
        self.name = "FelicaLiteS" if lite_s else "FelicaLite"
        t = F.LiteTag(lite_s=lite_s)
        for n in range(15):
            t.b[n] = bytearray(T.rbytes(rng, 16, 1))
        # attribute values that differ from what format() writes (Nbr 4, Nbw 1, Nmaxb 13): a stale cached NDEF object shows
        nmaxb = rng.choice([3, 8, 13, 13])
        F.store_ndef(t.b, T.rbytes(rng, rng.choice([0, 5, 40]), 1), nbr=rng.choice([1, 2, 4]), nbw=1, nmaxb=nmaxb)
        self.nmaxb = nmaxb
        self.b0 = {k: bytes(v) for k, v in t.b.items()}
        self.ops = ["r", "w", "w", "f", "fw", "p14", "a"]
        self.authenticated = False

    def fresh(self, mem):
        t = self.F.LiteTag(lite_s=self.lite_s)
        t.b = {k: bytearray(v) for k, v in dict(mem).items()}
        air, tag = self.F.activate(t)
        return t, tag

    def initial(self):
        return tuple(sorted(self.b0.items()))

    def snap(self, sim):
        return tuple(sorted((k, bytes(v)) for k, v in sim.b.items()))

    def take(self, sim):
        w = [(n, bytes(d)) for n, d in sim.log]
        del sim.log[:]
        return w

    def cap(self):
        return self.nmaxb * 16

    def allowed(self, op, before):
        if op[0] == "w":
            return set(range(0, (len(op[1]) + 15) // 16 + 1)), None
        if op[0] == "f":
            return {0x88, 0} | (set(range(1, 14)) if op[2] is not None else set()), None
        if op[0] == "p":
            return {0x88, 0}, None
        if op[0] == "a":
            return {0x80, 0x92}, None
        return set(), None

    def after(self, op, out):
        if op[0] == "a" and out == "true":
            self.authenticated = True
        if op[0] == "f" and out == "true":
            self.nmaxb = 13


def _do_op(tag, op):
    try:
        if op[0] == "r":
            nd = tag.ndef
            if nd is None:
                return "false"
            return "true read=%s cap=%d" % (bytes(nd.octets).hex(), nd.capacity)
        if op[0] == "w":
            nd = tag.ndef
            if nd is None:
                return "false"
            nd.octets = op[1]
            return "true"
        if op[0] == "f":
            r = tag.format(wipe=op[2]) if op[1] is None else tag.format(version=op[1], wipe=op[2])
        elif op[0] == "p":
            r = tag.protect(protect_from=op[1])
        else:
            r = tag.authenticate(b"")
        return "true" if r is True else "false" if r is False else "none"
    except Exception as e:  # noqa
        return "exc " + exc_name(e)


def sequences_t34(ck):
    """2..4 application calls on ONE Type 3 / FeliCa Lite / Lite-S / Type 4 tag object, judged after every call: what
    changed and what was addressed against the NDEF area of the layout that is on the tag at that moment, and the call
    against the same call on a fresh object activated on the same memory (cached object state must not show)."""
    import contextlib
    import io
    import itertools
    from common import INTERNAL
    rng = ck.rng
    makers = [("t3", lambda: _T3(rng)), ("t4", lambda: _T4(rng)), ("lite", lambda: _Lite(rng, False)), ("lites", lambda: _Lite(rng, True))]
    n_rand = 150 if ck.thorough else 22
    for kname, make in makers:
        alphabet = make().ops
        every = []
        for n in (2, 3, 4):
            every += list(itertools.product(sorted(set(alphabet)), repeat=n))
        pool = [q for q in every if len(q) == 2] + [rng.choice(every) for _ in range(n_rand)]
        pool += [("r", "f", "w"), ("r", "fw", "w"), ("w", "f", "w"), ("r", "f", "r", "w"), ("f", "w", "w")]
        if ck.thorough:
            pool += [q for q in every if len(q) == 3]
        for shape in pool:
            A = make()
            replay = {"op": "sequence", "class": A.name, "steps": [], "layout": getattr(getattr(A, "lay", None), "descr", lambda: {})()}
            try:
                sim, tag = A.fresh(A.initial())
                A.take(sim)
            except Exception as e:  # noqa
                ck.fail("t34-unexpected-exception", "%s: activation raised %s: %s" % (A.name, exc_name(e), e), replay)
                continue
            outs = []
            for x in shape:
                cap = A.cap()
                if x == "w":
                    n = max(1, min(max(cap, 1), rng.choice([cap, cap, cap - 1, 1, 16, 17, rng.randrange(0, cap + 1)])))
                    op = ("w", T.rbytes(rng, n, 1))
                    descr = "write %d octets" % n
                elif x in ("f", "fw", "fv"):
                    op = ("f", rng.choice([0x10, 0x11, 0x20]) if x == "fv" else None, rng.randrange(256) if x == "fw" else None)
                    descr = "format(version=%r, wipe=%r)" % (op[1], op[2])
                elif x == "p14":
                    op = ("p", 14)
                    descr = "protect(protect_from=14)"
                elif x == "a":
                    op = ("a",)
                    descr = "authenticate(b'')"
                else:
                    op = ("r",)
                    descr = "read ndef"
                replay["steps"].append(descr + ("" if op[0] != "w" else " " + op[1].hex()))
                before = A.snap(sim)
                try:
                    with contextlib.redirect_stdout(io.StringIO()):
                        out = _do_op(tag, op)
                        cmds = A.take(sim)
                        after = A.snap(sim)
                        fsim, ftag = A.fresh(before)
                        A.take(fsim)
                        fout = _do_op(ftag, op)
                        fcmds, fafter = A.take(fsim), A.snap(fsim)
                except Exception as e:  # noqa
                    ck.fail("t34-unexpected-exception", "%s: %s raised %s: %s" % (A.name, descr, exc_name(e), e), replay)
                    break
                outs.append(out)
                what = "%s, step %d of [%s]: %s" % (A.name, len(outs), "; ".join(replay["steps"]), descr)
                if out.startswith("exc") and out[4:] in INTERNAL and not (out == "exc ValueError" and op[0] == "w" and len(op[1]) > cap):
                    ck.fail("t34-sequence-unexpected-exception", "%s ended with %s" % (what, out), replay)
                authenticated = getattr(A, "authenticated", False)
                if not authenticated and op[0] != "a":
                    same = (out, cmds) == (fout, fcmds)
                    if isinstance(after, tuple):
                        same = same and dict(after) == dict(fafter)
                    else:
                        same = same and after == fafter
                    if not same:
                        ck.fail("t34-sequence-stale-object-state", "%s behaves differently on the used tag object than on a fresh one "
                                "activated on the same memory: used %s %s, fresh %s %s" % (what, out, str(cmds)[:120], fout, str(fcmds)[:120]), replay)
                allowed, blocks = A.allowed(op, before)
                if isinstance(before, tuple):      # FeliCa Lite: block granular; WCNT (90h) counts every write by itself
                    b0, b1 = dict(before), dict(after)
                    bad = sorted(k for k in b0 if b0[k] != b1[k] and k not in allowed and k != 0x90)
                    badcmd = [w for w in cmds if w[0] not in allowed]
                else:
                    bad = [a for a in range(len(before)) if before[a] != after[a] and a not in allowed]
                    if blocks is not None:
                        badcmd = [w for w in cmds if not (A.blocks_of(w) <= blocks)]
                    else:
                        badcmd = [w for w in cmds if not A.cmd_ok(w, allowed)]
                if bad:
                    ck.fail("t34-sequence-outside-area", "%s changed %s %s, outside the NDEF area of the layout that is on the tag now"
                            % (what, "blocks" if isinstance(before, tuple) else "octets", bad[:8]), replay)
                if badcmd:
                    ck.fail("t34-sequence-command-outside-area", "%s sent %s, outside what this step may address" % (what, str(badcmd[0])[:100]), replay)
                if op[0] == "w" and out != "true" and len(op[1]) <= cap:
                    ck.fail("t34-sequence-write-fails", "%s ended with %s (capacity %d)" % (what, out, cap), replay)
                A.after(op, out)
                if out.startswith("exc TagCommandError"):
                    break
            ck.case(("sequence", A.name, str(A.initial())[:200], tuple(replay["steps"])), True, "sequence:%s:len%d" % (A.name, len(shape)))
