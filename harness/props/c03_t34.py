"""C03, part t34 - NDEF writes on Type 3 / Type 4 touch nothing outside the NDEF area.

L1: theorems of NfcVerif.Props.C03T34.
L2: ordered write commands and the resulting memory, real code vs. Lean model.
L3: byte-wise diff of the simulated memory before/after the write and the address range of
    every state-changing command: Type 3 only blocks 0 .. ceil(len/16) <= Nmaxb (block 0: only
    WriteF, Ln, checksum change), Type 4 only the NDEF file at offsets < NLEN size + len <= file
    size limit (CC file never updated); Type 4 format(wipe) stays below the file size limit.
"""
from common import Model, hx, exc_name
from sims import t34_lib as T

LEAN_TARGETS = ["NfcVerif.Props.C03T34", "drv_t34"]

THEOREMS = [
    "NfcVerif.C03T34.t3_write_confined",
    "NfcVerif.C03T34.t4_write_confined",
]


def run_part(ck):
    rng = ck.rng
    ck.rule += (" | t34: cases = (layout, message length, contents); memory of the simulated tag extends beyond the "
                "declared area (extra blocks / file octets beyond the size limit) and is filled with random non-zero "
                "octets; non-trivial = message non-empty")
    ck.assumptions += [
        "t34: Type 3 NDEF area = attribute block (WriteF, Ln, checksum octets) + data blocks 1..ceil(len/16); "
        "Type 4 NDEF area = NLEN field + message octets of the NDEF file",
    ]
    ck.trusted += ["Lean models NfcVerif.Model.T3 / T4 tied by drv_t34; harness/sims/t34_sims.py"]
    ck.lean("NfcVerif.Props.C03T34", THEOREMS)
    if ck.thorough:
        ck.leanchecker(["NfcVerif.Props.C03T34"])
    model = Model("drv_t34")
    var = T.probe_variant()
    jobs = []
    nl3, nl4 = (150, 220) if ck.thorough else (24, 40)
    lays = []
    for lay in T.gen_t3(rng, nl3, ck.thorough, big=ck.thorough):
        # physical memory larger than the declared Nmaxb: blocks beyond must never be addressed
        lays.append(T.L3(lay.nbr, lay.nbw, lay.nmaxb, lay.old, T.rbytes(rng, 16 * (lay.nmaxb + 3), 1), extra_blocks=2))
    lays += T.gen_t4(rng, nl4, ck.thorough, big=False)
    for lay in lays:
        for n in T.lengths(rng, lay.cap, 2):
            if n > lay.cap:
                continue
            data = T.rbytes(rng, n, 1)
            sim = lay.sim()
            run = T.SetRun(sim, data)
            replay = {"layout": lay.descr(), "data": data.hex()}
            if run.res is None:
                continue
            if lay.kind == "t3":
                jobs.append((T.t3_req("set", lay.mem, data), run.line, replay))
                before, after = lay.mem, bytes(sim.mem)
                nb = (n + 15) // 16
                for bl, d in sim.writes:
                    if any(b > nb or b > lay.nmaxb for b in bl):
                        ck.fail("t3-write-outside-ndef-blocks", "write command addresses blocks %s, message needs 1..%d, "
                                "Nmaxb %d" % (bl, nb, lay.nmaxb), replay)
                allowed = set(range(9, 10)) | set(range(11, 16)) | set(range(16, 16 + 16 * nb))
                bad = [a for a in range(len(before)) if before[a] != after[a] and a not in allowed]
                if bad:
                    ck.fail("t3-octets-outside-ndef-area-changed", "octets %s changed (message of %d octets)" % (bad[:8], n), replay)
            else:
                jobs.append((T.t4_req("set", var, lay, lay.file, data), run.line, replay))
                before, after = lay.file, bytes(sim.file)
                for fid, off, d in sim.writes:
                    if fid != lay.fid or off + len(d) > lay.nl + n or off + len(d) > lay.mfs:
                        ck.fail("t4-update-outside-ndef-area", "UPDATE BINARY file %s offset %d length %d, message %d octets, "
                                "size limit %d" % (fid.hex(), off, len(d), n, lay.mfs), replay)
                bad = [a for a in range(len(before)) if before[a] != after[a] and a >= lay.nl + n]
                if bad:
                    ck.fail("t4-octets-outside-ndef-area-changed", "file octets %s changed" % bad[:8], replay)
            ck.case((lay.key(), lay.old, data), n > 0, lay.kind + ":write")
        if lay.kind == "t4":
            # erase: format(wipe=..)
            sim = lay.sim()
            try:
                tag = sim.activate()
                ok = tag.format(wipe=rng.randrange(256)) if tag.ndef is not None else None
            except Exception as e:  # noqa
                ok = "exc " + exc_name(e)
            if ok is True:
                for fid, off, d in sim.writes:
                    if fid != lay.fid or off + len(d) > lay.mfs:
                        ck.fail("t4-wipe-outside-ndef-file", "format(wipe) UPDATE BINARY offset %d length %d beyond the size "
                                "limit %d" % (off, len(d), lay.mfs), {"layout": lay.descr(), "format": "wipe"})
                if bytes(sim.file[lay.mfs:]) != lay.file[lay.mfs:]:
                    ck.fail("t4-wipe-outside-ndef-file", "octets beyond the size limit changed", {"layout": lay.descr()})
            ck.case((lay.key(), "wipe", str(ok)), ok is True, "t4:wipe:%s" % (ok if not isinstance(ok, str) else ok[:30]))
    T.compare(ck, model, jobs, "t34-write-commands-model-vs-nfcpy")
