"""C06 - SNEP and handover carry NDEF messages intact through fragmentation.

L1: theorems of NfcVerif.Props.C06 about the executable models of
    snep/client.py, snep/server.py, handover/client.py, handover/server.py
    (state machines cut at the blocking socket calls): delivery over a reliable
    ordered channel; the same for ANY interleaving and ANY receive windows over
    a windowed link (confluence, refinement, no discard, no deadlock) with
    counter-examples for acknowledgements that run ahead of consumption; the
    handover statement for ndeflib-shaped record lists without prefix
    hypothesis; the server's limit check against any peer; histories of one
    client object (every message to the service connected at that time).
L2: the REAL SnepClient/SnepServer/HandoverClient/HandoverServer code is run and
    compared with the Lean model driver on the same scenario (messages each
    side put on its socket, callback arguments, client results, server state):
    * both parties over harness/sims/snep_chan.py (real nfc.llcp.Socket on a
      fake link controller, two threads in strict lockstep): random scenarios,
      fragment boundaries forced onto record boundaries, an exhaustive grid;
    * each party alone against a hostile peer (any message sequence);
    * the COMPLETE stack (harness/sims/snep_full.py, props/c06_full.py): two
      real ContactlessFrontend.connect(llcp=...) calls, real llc / tco / dep, a
      driver double moving radio frames, deterministic schedules with slow and
      preempted consumers - compared with the ideal-channel model and, event
      by event, with the windowed-link model of Model/SnepSched.lean;
    * client OBJECT histories on the complete stack (temporary connections,
      connect to one of two SNEP services, requests, close, in any order;
      HandoverClient connect / request / close) against Model/SnepObj.lean.
L3: oracle on the same real runs, independent of the model: octets delivered
    == octets sent, exactly once, in order; Reject / ExcessData / BadRequest
    exactly when specified; nothing above the MIU; nobody hangs; no I PDU
    discarded by a full receive queue; what the application got is a prefix of
    the I PDUs reassembled from the radio frames alone.
"""
import logging
import struct

from common import Model, hx, exc_name

logging.disable(logging.CRITICAL)

LEAN_TARGETS = ["NfcVerif.Props.C06", "drv_c06"]

THEOREMS = [
    "NfcVerif.C06.frag_concat",
    "NfcVerif.C06.snep_put_delivers",
    "NfcVerif.C06.snep_put_sequence_delivers",
    "NfcVerif.C06.snep_oversize_rejected",
    "NfcVerif.C06.snep_get_returns",
    "NfcVerif.C06.snep_get_excess_data",
    "NfcVerif.C06.handover_roundtrip",
    "NfcVerif.C06.handover_sequence_roundtrip",
    "NfcVerif.C06.handover_asfound_counterexample",
    "NfcVerif.C06.handover_roundtrip_records",
    "NfcVerif.C06.interleavings_confluent",
    "NfcVerif.C06.interleavings_extend",
    "NfcVerif.C06.window_never_discards",
    "NfcVerif.C06.window_no_deadlock",
    "NfcVerif.C06.any_window_any_schedule",
    "NfcVerif.C06.snep_put_delivers_windowed",
    "NfcVerif.C06.snep_oversize_rejected_windowed",
    "NfcVerif.C06.snep_get_returns_windowed",
    "NfcVerif.C06.handover_roundtrip_windowed",
    "NfcVerif.C06.ack_on_receipt_loses_fragment",
    "NfcVerif.C06.ack_all_received_loses_fragment",
    "NfcVerif.C06.snep_server_limit_any_peer",
    "NfcVerif.C06.client_history_delivers_to_connected_service",
    "NfcVerif.C06.client_history_sticky_release_counterexample",
    "NfcVerif.C06.handover_client_history_delivers",
]


class FakeTime:
    @staticmethod
    def time():
        return 1000.0


def hexlist(msgs):
    return ",".join(hx(m) for m in msgs) if msgs else "."


def canon_result(fn):
    import nfc.snep
    try:
        r = fn()
    except nfc.snep.SnepError as e:
        return "SnepError(%d)" % e.errno
    except Exception as e:  # noqa
        return "exc:" + exc_name(e)
    if r is True:
        return "True"
    if r is False:
        return "False"
    if r is None:
        return "None"
    return "data:" + hx(r)


def party_state(o):
    if o is None:
        return "missing"
    if o[0] == "ok":
        return "closed"
    if o[0] == "exc":
        return "crashed:" + exc_name(o[1])
    return o[0]


# ------------------------------------------------------------------ real SNEP run
def run_snep(sc):
    """sc: dict(recv_miu, force_c2s, force_s2c, recv_buf, cacc, maxacc, auto, close,
    ops=[dict(op, octets, ret)]) -> observation dict"""
    import nfc.snep
    import nfc.llcp
    import ndef
    from sims import snep_chan
    link = snep_chan.Link(force_c2s=sc["force_c2s"], force_s2c=sc["force_s2c"])
    got = []
    cur = [None]

    class Srv(nfc.snep.SnepServer):
        def process_put_request(self, records):
            got.append(("p", b"".join(ndef.message_encoder(records))))
            return cur[0]["ret"]

        def process_get_request(self, records):
            got.append(("g", b"".join(ndef.message_encoder(records))))
            r = cur[0]["ret"]
            return r if isinstance(r, int) else list(ndef.message_decoder(r, known_types={}))

    srv = Srv(link.server_llc, max_acceptable_length=sc["maxacc"], recv_miu=sc["recv_miu"], recv_buf=sc["recv_buf"])
    lsock = srv._args[0]

    def server_fn():
        sock = lsock.accept()
        srv._serve(sock)
        return "served"

    def client_fn():
        cl = nfc.snep.SnepClient(link.client_llc, max_ndef_msg_recv_size=sc["cacc"])
        if not sc["auto"]:
            cl.connect("urn:nfc:sn:snep")
        res = []
        for op in sc["ops"]:
            cur[0] = op
            f = cl.put_octets if op["op"] == "p" else cl.get_octets
            res.append(canon_result(lambda: f(op["octets"], 1.0)))
        link.sched.block("c", lambda: False, True)   # let the server work off what is queued
        if sc["close"]:
            cl.close()
        return res

    out = link.run(client_fn, server_fn)
    conn = link.connections[0] if link.connections else None
    return {"link": link, "out": out, "got": got,
            "cmiu": conn[0].send_miu if conn else None, "smiu": conn[1].send_miu if conn else None,
            "res": out["c"][1] if out.get("c", ("",))[0] == "ok" else None}


def snep_model_line(sc, ob):
    ops = []
    for op in sc["ops"]:
        if op["op"] == "p":
            ops.append("p/%s/%d/%d" % (hx(op["octets"]), op["valid"], op["ret"]))
        elif isinstance(op["ret"], int):
            ops.append("g/%s/%d/c%d" % (hx(op["octets"]), op["valid"], op["ret"]))
        else:
            ops.append("g/%s/%d/d%s" % (hx(op["octets"]), op["valid"], hx(op["ret"])))
    return "snep %d %d %d %d %d %s" % (ob["cmiu"], sc["cacc"], ob["smiu"], sc["maxacc"],
                                      1 if (sc["close"] or sc["auto"]) else 0, " ".join(ops))


def snep_real_line(sc, ob):
    link, out = ob["link"], ob["out"]
    res = ",".join(ob["res"]) if ob["res"] is not None else "client:" + party_state(out.get("c"))
    s = party_state(out.get("s"))
    if s == "deadlock":
        s = "open"           # still waiting for a request on a connection nobody closed
    return "c2s=%s s2c=%s dl=%s res=%s sst=%s" % (
        hexlist(link.log["c"]), hexlist(link.log["s"]),
        ",".join("%s:%s" % (k, hx(o)) for k, o in ob["got"]) if ob["got"] else ".", res, s)


def norm_model_snep(rep):
    # the model names the waiting point of a server that is still running
    head, _, sst = rep.rpartition(" sst=")
    if sst in ("idle", "reasm", "awaitCont"):
        sst = "open"
    return head + " sst=" + sst


def snep_oracle(sc, ob):
    """the property, stated on the observation of the real run; returns [(key, what)]"""
    bad = []
    link, out = ob["link"], ob["out"]
    if link.oversize:
        bad.append(("snep-fragment-exceeds-miu", "message of %d bytes sent on a connection with MIU %d (%s side)"
                    % (link.oversize[0][1], link.oversize[0][2], link.oversize[0][0])))
    for side in "cs":
        st = party_state(out.get(side))
        if st == "hard-timeout":
            bad.append(("snep-run-does-not-end", "%s thread did not finish" % side))
        elif st == "runaway":
            bad.append(("snep-program-sends-for-ever", "%s side sent more than %d messages without ever waiting" % (side, link.MAX_MESSAGES)))
        elif st.startswith("crashed") or (st == "deadlock" and side == "c"):
            bad.append(("snep-unexpected-exception-or-hang", "%s side: %s" % (side, st)))
    if (sc["close"] or sc["auto"]) and party_state(out.get("s")) != "closed":
        bad.append(("snep-server-does-not-end", "server after close: %s" % party_state(out.get("s"))))
    if ob["res"] is None:
        return bad
    expect_dl = []
    gi = 0
    nresp = 0
    for op, res in zip(sc["ops"], ob["res"]):
        o = op["octets"]
        if op["op"] == "p":
            fragmented = 6 + len(o) > ob["cmiu"]
            if len(o) > min(sc["maxacc"], 0xFFFFFFFF):
                want = "False" if fragmented else "SnepError(255)"
                if res != want:
                    bad.append(("snep-oversize-not-rejected", "put of %d octets, limit %d: client result %s, expected %s"
                                % (len(o), sc["maxacc"], res, want)))
            elif not op["valid"]:
                if res != "SnepError(194)":
                    bad.append(("snep-bad-request-result", "put of undecodable octets: %s" % res))
            else:
                expect_dl.append(("p", o))
                want = "True" if op["ret"] == 0x81 else "SnepError(%d)" % op["ret"]
                if res != want:
                    bad.append(("snep-put-result", "put of %d octets: client result %s, expected %s" % (len(o), res, want)))
        else:
            fragmented = 10 + len(o) > ob["cmiu"]
            if 4 + len(o) > min(sc["maxacc"], 0xFFFFFFFF):
                want = "None" if fragmented else "SnepError(255)"
                if res != want:
                    bad.append(("snep-oversize-not-rejected", "get request of 4+%d octets, limit %d: client result %s, expected %s"
                                % (len(o), sc["maxacc"], res, want)))
            elif not op["valid"]:
                if res != "SnepError(194)":
                    bad.append(("snep-bad-request-result", "get with undecodable octets: %s" % res))
            else:
                expect_dl.append(("g", o))
                r = op["ret"]
                if isinstance(r, int):
                    want = "SnepError(%d)" % r
                elif len(r) > sc["cacc"]:
                    want = "SnepError(193)"
                    # no part of the body may have been sent
                    body = b"".join(link.log["s"])
                    if len(r) >= 8 and bytes(r[:8]) in body:
                        bad.append(("snep-excess-data-body-sent", "response of %d octets exceeds acceptable %d but body octets were sent"
                                    % (len(r), sc["cacc"])))
                else:
                    want = "data:" + hx(r)
                if res != want:
                    bad.append(("snep-get-response-not-intact" if want.startswith("data") else "snep-get-result",
                                "get: response of %s octets, acceptable %d: client result %s, expected %s"
                                % (len(r) if not isinstance(r, int) else "code", sc["cacc"], res[:60], want[:60])))
    if ob["got"] != expect_dl:
        # which kind?
        exp_set = [o for _, o in expect_dl]
        partial = [o for _, o in ob["got"] if o not in exp_set]
        if len(ob["got"]) > len(expect_dl) and not partial:
            key = "snep-message-delivered-more-than-once-or-when-refused"
        elif partial:
            key = "snep-message-not-delivered-intact"
        else:
            key = "snep-message-not-delivered"
        bad.append((key, "application callbacks saw %s, expected %s"
                    % ([(k, len(o)) for k, o in ob["got"]], [(k, len(o)) for k, o in expect_dl])))
    return bad


# ------------------------------------------------------------------ real handover run
def run_handover(sc):
    """sc: dict(recv_miu, force_c2s, force_s2c, c_recv_miu, reqs=[(req octets, resp octets)])"""
    import nfc.handover
    import nfc.handover.client
    import ndef
    from sims import snep_chan
    link = snep_chan.Link(force_c2s=sc["force_c2s"], force_s2c=sc["force_s2c"])
    raw, got = [], []
    cur = [None]

    class Srv(nfc.handover.HandoverServer):
        def _process_request_data(self, octets):
            raw.append(bytes(octets))
            return super(Srv, self)._process_request_data(octets)

        def process_handover_request_message(self, records):
            got.append(b"".join(ndef.message_encoder(records)))
            return list(ndef.message_decoder(cur[0][1], "relax"))

    srv = Srv(link.server_llc, recv_miu=sc["recv_miu"], recv_buf=sc["recv_buf"])
    lsock = srv._args[1]

    def server_fn():
        sock = lsock.accept()
        srv.serve(sock)
        return "served"

    def client_fn():
        cl = nfc.handover.HandoverClient(link.client_llc)
        cl.connect(recv_miu=sc["c_recv_miu"], recv_buf=2)
        res = []
        for rq in sc["reqs"]:
            cur[0] = rq

            def one():
                if not cl.send_octets(rq[0]):
                    return False
                return cl.recv_octets(1.0)
            res.append(canon_result(one))
        link.sched.block("c", lambda: False, True)   # let the server work off what is queued, then close
        cl.close()
        return res

    saved = nfc.handover.client.time
    nfc.handover.client.time = FakeTime
    try:
        out = link.run(client_fn, server_fn)
    finally:
        nfc.handover.client.time = saved
    conn = link.connections[0] if link.connections else None
    return {"link": link, "out": out, "raw": raw, "got": got,
            "cmiu": conn[0].send_miu if conn else None, "smiu": conn[1].send_miu if conn else None,
            "res": out["c"][1] if out.get("c", ("",))[0] == "ok" else None}


def ho_real_line(ob):
    link, out = ob["link"], ob["out"]
    res = ",".join(ob["res"]) if ob["res"] is not None else "client:" + party_state(out.get("c"))
    return "c2s=%s s2c=%s dl=%s res=%s" % (hexlist(link.log["c"]), hexlist(link.log["s"]), hexlist(ob["raw"]), res)


def ho_oracle(sc, ob):
    bad = []
    link, out = ob["link"], ob["out"]
    if link.oversize:
        bad.append(("handover-fragment-exceeds-miu", "message of %d bytes on a connection with MIU %d"
                    % (link.oversize[0][1], link.oversize[0][2])))
    for side in "cs":
        st = party_state(out.get(side))
        if st != "closed":
            bad.append(("handover-run-does-not-end-cleanly", "%s side: %s" % (side, st)))
    reqs = [r for r, _ in sc["reqs"]]
    if ob["got"] != reqs:
        if ob["got"][:1] != reqs[:1]:
            key = "handover-request-not-delivered-intact"
        else:
            key = "handover-later-request-wrong-delivery"
        bad.append((key, "process_handover_request_message saw messages of %s octets (%s), the client sent %s"
                    % ([len(g) for g in ob["got"]],
                       ["=req%d" % reqs.index(g) if g in reqs else "other" for g in ob["got"]],
                       [len(r) for r in reqs])))
    if ob["res"] is not None:
        want = ["data:" + hx(rsp) for _, rsp in sc["reqs"]]
        if ob["res"] != want and ob["got"] == reqs:
            bad.append(("handover-response-not-intact", "client received %s, expected the %d select messages of %s octets"
                        % ([r[:40] for r in ob["res"]], len(want), [len(r) for _, r in sc["reqs"]])))
    return bad


# ------------------------------------------------------------------ scenario generators
def around(rng, miu, hdr, kmax):
    k = rng.randrange(1, kmax + 1)
    return max(0, k * miu - hdr + rng.randrange(-8, 9))


def gen_snep(ck, rng, ndefs):
    import ndef
    small = rng.random() < 0.6
    if small:
        force_c2s = rng.choice([6, 7, 8, 9, 10, 11, 13, 16, 17, 20, 31, 32, 33, 50, 64])
        recv_miu = 128
    else:
        force_c2s = None
        recv_miu = rng.choice([128, 129, 130, 135, 200, 248, 255, 256, 1000, 1984, 2175])
    cmiu = force_c2s or recv_miu
    force_s2c = rng.choice([None, None, 6, 7, 8, 9, 12, 16, 33, 64, 127, 129, 300, 2175])
    smiu = force_s2c or 128
    kmax = 4 if cmiu < 256 else (3 if ck.thorough else 2)
    auto = rng.random() < 0.25
    nops = 1 if auto else rng.choice([1, 1, 2, 3])
    sizes, ops = [], []
    for _ in range(nops):
        kind = rng.choice("ppg")
        size = around(rng, cmiu, 6 if kind == "p" else 10, kmax)
        if rng.random() < 0.1:
            size = rng.choice([0, 3, 4, 5, cmiu - 6 if cmiu > 9 else 3, cmiu])
        recs = ndefs.message(rng, size)
        if recs is None:
            # 1- and 2-octet strings are no NDEF messages: used as undecodable input
            octets = bytes(rng.randrange(256) for _ in range(size))
        else:
            octets = ndefs.enc(recs)
            if rng.random() < 0.04 and len(octets) > 3:
                octets = octets[:-1]          # truncated message: the decoder must refuse it
        try:
            list(ndef.message_decoder(octets, known_types={}))
            valid = 1
        except ndef.DecodeError:
            valid = 0
        if kind == "p":
            ret = 0x81 if rng.random() < 0.9 else rng.choice([0xC0, 0xE0, 0xC2])
        else:
            if rng.random() < 0.15:
                ret = rng.choice([0xC0, 0xE0, 0xC2])
            else:
                rs = around(rng, smiu, 6, 3 if smiu >= 64 else 6)
                if smiu < 6:
                    rs = rng.randrange(0, 40)
                rr = ndefs.message(rng, rs) or ndefs.message(rng, rs + 3)
                ret = ndefs.enc(rr)
        ops.append({"op": kind, "octets": octets, "valid": valid, "ret": ret})
        sizes.append(len(octets) + (4 if kind == "g" else 0))
    s0 = rng.choice(sizes)
    maxacc = rng.choice([0x100000, 0x100000, s0, s0 + 1, max(0, s0 - 1), 0, 2 ** 32 + 5])
    rsizes = [len(o["ret"]) for o in ops if o["op"] == "g" and not isinstance(o["ret"], int)]
    r0 = rng.choice(rsizes) if rsizes else 10
    cacc = rng.choice([1024, 0x10000, r0, r0 + 1, max(0, r0 - 1), 0])
    return {"recv_miu": recv_miu, "force_c2s": force_c2s, "force_s2c": force_s2c, "recv_buf": rng.choice([1, 2, 15]),
            "cacc": cacc, "maxacc": maxacc, "auto": auto, "close": auto or rng.random() < 0.8, "ops": ops}


def gen_handover(ck, rng, ndefs, nreq=None):
    small = rng.random() < 0.6
    force_c2s = rng.choice([1, 2, 3, 5, 8, 13, 16, 21, 32, 50, 64]) if small else None
    recv_miu = rng.choice([128, 129, 200, 248, 1000, 1984, 2175])
    cmiu = force_c2s or recv_miu
    force_s2c = rng.choice([None, None, 1, 3, 6, 7, 16, 40, 127]) if rng.random() < 0.6 else None
    c_recv_miu = rng.choice([128, 248, 250, 500, 2175])
    smiu = force_s2c or c_recv_miu
    n = nreq or rng.choice([1, 1, 2, 2, 3])
    reqs = []
    for _ in range(n):
        while True:
            size = max(13, around(rng, cmiu, 0, 4 if cmiu < 256 else 2))
            rq = ndefs.handover_request(rng, size)
            if rq is not None:
                break
        while True:
            rs = max(6, around(rng, smiu, 0, 4 if smiu < 256 else 2))
            if smiu >= 128 and rng.random() < 0.5:
                rs = rng.randrange(6, 60)
            rp = ndefs.handover_select(rng, rs)
            if rp is not None:
                break
        reqs.append((ndefs.enc(rq), ndefs.enc(rp)))
    return {"recv_miu": recv_miu, "force_c2s": force_c2s, "force_s2c": force_s2c, "recv_buf": rng.choice([1, 2, 15]),
            "c_recv_miu": c_recv_miu, "reqs": reqs}


def sc_json(sc):
    def j(v):
        if isinstance(v, (bytes, bytearray)):
            return bytes(v).hex()
        if isinstance(v, dict):
            return {k: j(x) for k, x in v.items()}
        if isinstance(v, (list, tuple)):
            return [j(x) for x in v]
        return v
    return j(sc)


# ------------------------------------------------------------------ NDEF records (for the encoder tie)
def ndef_fields(octets):
    """independent reading of an encoded NDEF message: [(tnf, sr, type, id|None, payload)]; None if malformed"""
    out, i, n = [], 0, len(octets)
    while i < n:
        f = octets[i]
        sr, il = bool(f & 0x10), bool(f & 0x08)
        need = 2 + (1 if sr else 4) + (1 if il else 0)
        if i + need > n:
            return None
        tl = octets[i + 1]
        pl = octets[i + 2] if sr else int.from_bytes(octets[i + 2:i + 6], "big")
        j = i + (3 if sr else 6)
        idl = octets[j] if il else 0
        j += 1 if il else 0
        if j + tl + idl + pl > n:
            return None
        out.append((f & 7, sr, bytes(octets[j:j + tl]), bytes(octets[j + tl:j + tl + idl]) if il else None,
                    bytes(octets[j + tl + idl:j + tl + idl + pl]), f))
        i = j + tl + idl + pl
    return out


def record_ends(octets):
    """offsets at which a record of the message ends"""
    ends, i = [], 0
    fs = ndef_fields(octets) or []
    for tnf, sr, t, idb, p, f in fs:
        i += 2 + (1 if sr else 4) + (1 + len(idb) if idb is not None else 0) + len(t) + len(p)
        ends.append(i)
    return ends


def encmsg_line(octets):
    fs = ndef_fields(octets)
    if not fs:
        return None
    # MB on the first, ME on the last record only, no chunks: the shape Model/Handover.lean `encMsg` covers
    for k, (tnf, sr, t, idb, p, f) in enumerate(fs):
        if bool(f & 0x80) != (k == 0) or bool(f & 0x40) != (k == len(fs) - 1) or f & 0x20:
            return None
    return "encmsg " + " ".join("%d/%d/%s/%s/%s" % (tnf, 1 if sr else 0, hx(t), "~" if idb is None else hx(idb), hx(p))
                                for tnf, sr, t, idb, p, f in fs)


# ------------------------------------------------------------------ one side against an arbitrary peer
CONT_REQ = bytes.fromhex("100000000000")
CONT_RSP = bytes.fromhex("108000000000")


def frags(miu, d):
    return [d[:miu]] + [d[o:o + miu] for o in range(miu, len(d), miu)]


def mutate_first(rng, m, maxacc, miu):
    """hostile variations of a first fragment"""
    m = bytearray(m)
    k = rng.randrange(7)
    if k == 0 and m:
        m[0] = rng.choice([0x00, 0x0F, 0x11, 0x1F, 0x20, 0x21, 0x2F, 0xF0, 0xFF])
    elif k == 1 and len(m) > 1:
        m[1] = rng.choice([0, 1, 2, 3, 0x7F, 0x80, 0x81, 0xC0, 0xFF])
    elif k == 2 and len(m) >= 6:
        cur = int.from_bytes(m[2:6], "big")
        v = rng.choice([0, 1, max(0, cur - 1), cur + 1, cur + miu, max(0, cur - miu), maxacc, maxacc + 1, 0xFFFFFFFF, len(m) - 6,
                        max(0, len(m) - 7), len(m) - 5])
        m[2:6] = (v & 0xFFFFFFFF).to_bytes(4, "big")
    elif k == 3:
        m = m[:rng.choice([0, 1, 2, 5, 6, 7, 9, 10, 11])]
    elif k == 4:
        m = m + bytes(rng.randrange(256) for _ in range(rng.choice([1, 2, 7])))
    return bytes(m)


def gen_rawsrv(ck, rng, ndefs):
    smiu = rng.choice([6, 7, 8, 12, 16, 33, 64, 128])
    cmiu = rng.choice([6, 7, 9, 16, 33, 64, 128, 300])
    msgs, sizes = [], []
    putc = rng.choice([0x81, 0x81, 0x81, 0xC0, 0xE0, 0])
    getr = rng.choice([0xC0, 0xE0]) if rng.random() < 0.2 else ndefs.enc(
        ndefs.message(rng, rng.choice([3, 5, smiu - 6 if smiu > 9 else 4, smiu - 5 if smiu > 9 else 6, 2 * smiu, 3 * smiu + 1])) or [])
    nreq = rng.choice([1, 1, 2, 3])
    maxacc = 0x100000
    for r in range(nreq):
        kind = rng.choice("ppg")
        size = max(0, rng.choice([1, 2, 3]) * cmiu - (6 if kind == "p" else 10) + rng.randrange(-7, 8))
        recs = ndefs.message(rng, size)
        octets = ndefs.enc(recs) if recs is not None else bytes(rng.randrange(256) for _ in range(size))
        cacc = rng.choice([0, len(getr) - 1 if not isinstance(getr, int) and getr else 0,
                           len(getr) if not isinstance(getr, int) else 5, 1000, 0xFFFFFFFF])
        req = (struct.pack(">BBL", 0x10, 2, len(octets)) + octets) if kind == "p" else \
            (struct.pack(">BBLL", 0x10, 1, 4 + len(octets), max(0, cacc)) + octets)
        sizes.append(len(req) - 6)
        fr = frags(cmiu, req)
        m = rng.random()
        if m < 0.45:
            fr[0] = mutate_first(rng, fr[0], maxacc, cmiu)
        elif m < 0.55 and len(fr) > 1:
            del fr[rng.randrange(1, len(fr))]
        elif m < 0.62 and len(fr) > 1:
            k = rng.randrange(1, len(fr))
            fr.insert(k, fr[k])
        elif m < 0.68:
            fr.insert(rng.randrange(len(fr) + 1), b"")
        msgs += fr
        # the peer's part of a fragmented response
        if kind == "g" and not isinstance(getr, int) and 6 + len(getr) > smiu:
            msgs.append(rng.choice([CONT_REQ, CONT_REQ, CONT_REQ, CONT_RSP, b"\x10\x00\x00\x00\x00\x01", b"\x10\x00", b""]))
        elif rng.random() < 0.08:
            msgs.append(CONT_REQ)
    s0 = rng.choice(sizes)
    maxacc = rng.choice([0x100000, 0x100000, s0, s0 + 1, max(0, s0 - 1), 0, 2 ** 32 + 5])
    return {"smiu": smiu, "maxacc": maxacc, "putc": putc, "getr": getr, "msgs": msgs, "close": rng.random() < 0.85}


def run_rawsrv(sc):
    import nfc.snep
    import nfc.llcp
    import ndef
    from sims import snep_chan
    link = snep_chan.Link(force_c2s=100000, force_s2c=sc["smiu"])
    got, seen = [], []

    class Srv(nfc.snep.SnepServer):
        def process_snep_request(self, request_data):
            seen.append(bytes(request_data))
            return super(Srv, self).process_snep_request(request_data)

        # the callbacks get decoded records; what is compared is the octet string they were decoded from
        # (ndeflib stops at the ME record, octets a hostile peer appends behind it are not re-encoded)
        def process_put_request(self, records):
            got.append(("p", seen[-1][6:]))
            reenc.append((b"".join(ndef.message_encoder(records)), seen[-1][6:]))
            return sc["putc"]

        def process_get_request(self, records):
            got.append(("g", seen[-1][10:]))
            reenc.append((b"".join(ndef.message_encoder(records)), seen[-1][10:]))
            r = sc["getr"]
            return r if isinstance(r, int) else list(ndef.message_decoder(r, known_types={}))

    reenc = []
    srv = Srv(link.server_llc, max_acceptable_length=sc["maxacc"], recv_miu=2175, recv_buf=15)
    lsock = srv._args[0]

    def server_fn():
        srv._serve(lsock.accept())
        return "served"

    def client_fn():
        sock = nfc.llcp.Socket(link.client_llc, nfc.llcp.DATA_LINK_CONNECTION)
        sock.connect("urn:nfc:sn:snep")
        for m in sc["msgs"]:
            try:
                sock.send(m)
            except nfc.llcp.Error:
                pass
        link.sched.block("c", lambda: False, True)
        if sc["close"]:
            sock.close()
        return "done"

    out = link.run(client_fn, server_fn)
    table = {}
    for d in seen:
        if len(d) >= 2:
            o = d[10:] if d[1] == 1 and len(d) >= 10 else d[6:]
            try:
                list(ndef.message_decoder(o, known_types={}))
                table[bytes(o)] = 1
            except (ndef.DecodeError, ValueError):
                table[bytes(o)] = 0
    s = party_state(out.get("s"))
    real = "s2c=%s dl=%s sst=%s" % (hexlist(link.log["s"]),
                                   ",".join("%s:%s" % (k, hx(o)) for k, o in got) if got else ".",
                                   "open" if s == "deadlock" else s)
    getr = sc["getr"]
    line = "rawsrv %d %d %d %d %s %s %s" % (
        sc["smiu"], sc["maxacc"], 1 if sc["close"] else 0, sc["putc"],
        ("c%d" % getr) if isinstance(getr, int) else "d" + hx(getr),
        ",".join("%s:%d" % (hx(k), v) for k, v in table.items()) or ".", hexlist(sc["msgs"]))
    return line, real, {"link": link, "out": out, "got": got, "seen": seen, "reenc": reenc}


def rawsrv_oracle(sc, ob):
    """independent of the model: every delivery comes from a request whose announced length is within the
    limit, nothing is delivered that the peer did not send, the server always ends after close"""
    bad = []
    stream = b"".join(sc["msgs"])
    lim = min(sc["maxacc"], 0xFFFFFFFF)
    for d in ob["seen"]:
        if len(d) >= 6 and int.from_bytes(d[2:6], "big") > lim:
            bad.append(("snep-oversize-request-processed", "a request announcing %d octets (limit %d) reached process_snep_request"
                        % (int.from_bytes(d[2:6], "big"), lim)))
        if len(d) >= 1 and (d[0] >> 4) > 1:
            bad.append(("snep-unsupported-version-processed", "a request with version %d.%d reached process_snep_request"
                        % (d[0] >> 4, d[0] & 15)))
    for k, o in ob["got"]:
        if o and o not in stream:
            bad.append(("snep-delivered-octets-never-sent", "callback got %d octets that are no contiguous part of what the peer sent" % len(o)))
    for r, o in ob["reenc"]:
        if not bytes(o).startswith(r):
            bad.append(("snep-delivered-records-differ-from-octets", "the records given to the callback encode to %d octets that are "
                        "no prefix of the %d request octets" % (len(r), len(o))))
    st = party_state(ob["out"].get("s"))
    if st.startswith("crashed") or st == "hard-timeout":
        bad.append(("snep-server-crashes-on-peer-input", "server thread: %s" % st))
    if sc["close"] and st != "closed":
        bad.append(("snep-server-does-not-end", "server after close: %s" % st))
    return bad


def gen_rawcli(ck, rng, ndefs):
    cmiu = rng.choice([6, 7, 9, 16, 33, 64, 128])
    kind = rng.choice("pg")
    size = max(0, rng.choice([1, 2, 3]) * cmiu - (6 if kind == "p" else 10) + rng.randrange(-7, 8))
    recs = ndefs.message(rng, size) or ndefs.message(rng, size + 3)
    octets = ndefs.enc(recs)
    nreq = (6 if kind == "p" else 10) + len(octets)
    smiu = rng.choice([6, 8, 16, 64, 128])
    rd = ndefs.enc(ndefs.message(rng, rng.choice([3, 4, smiu - 6 if smiu > 9 else 5, smiu, 2 * smiu + 1])) or []) if kind == "g" else b""
    cacc = rng.choice([len(rd), len(rd) + 1, max(0, len(rd) - 1), 1024, 0])
    status = rng.choice([0x81, 0x81, 0x81, 0xC0, 0xC1, 0xFF, 0x80, 0])
    rsp = struct.pack(">BBL", 0x10, status, len(rd)) + rd
    script = []
    if nreq > cmiu:
        script.append(rng.choice([CONT_RSP, CONT_RSP, CONT_RSP, CONT_REQ, b"\x10\xFF\x00\x00\x00\x00", b"\x10\x80\x00\x00\x00\x01", b"", b"\x10\x80"]))
    if rng.random() < 0.93:
        fr = frags(smiu, rsp)
        m = rng.random()
        if m < 0.4:
            fr[0] = mutate_first(rng, fr[0], cacc, smiu)
        elif m < 0.5 and len(fr) > 1:
            del fr[rng.randrange(1, len(fr))]
        elif m < 0.57:
            fr.insert(rng.randrange(len(fr) + 1), b"")
        elif m < 0.63:
            fr.append(bytes(rng.randrange(256) for _ in range(3)))
        script += fr
    return {"cmiu": cmiu, "cacc": cacc, "op": kind, "octets": octets, "script": script}


def run_rawcli(sc):
    import nfc.snep
    import nfc.llcp
    from sims import snep_chan
    link = snep_chan.Link(force_c2s=sc["cmiu"], force_s2c=100000)
    lsock = nfc.llcp.Socket(link.server_llc, nfc.llcp.DATA_LINK_CONNECTION)
    lsock.bind("urn:nfc:sn:snep")
    lsock.listen(backlog=1)

    def server_fn():
        sock = lsock.accept()
        for m in sc["script"]:
            sock.send(m)
        link.sched.block("s", lambda: False, True)
        return "done"

    def client_fn():
        cl = nfc.snep.SnepClient(link.client_llc, max_ndef_msg_recv_size=sc["cacc"])
        cl.connect("urn:nfc:sn:snep")
        f = cl.put_octets if sc["op"] == "p" else cl.get_octets
        return canon_result(lambda: f(sc["octets"], 1.0))

    out = link.run(client_fn, server_fn)
    c = out.get("c")
    res = c[1] if c and c[0] == "ok" else "hang" if c and c[0] == "deadlock" else "client:" + party_state(c)
    conn = link.connections[0] if link.connections else None
    left = list(conn[0].inbox) if conn else []
    real = "c2s=%s res=%s left=%s" % (hexlist(link.log["c"]), res, hexlist(left))
    line = "rawcli %d %d %s %s %s" % (sc["cmiu"], sc["cacc"], sc["op"], hx(sc["octets"]), hexlist(sc["script"]))
    return line, real, {"link": link, "out": out, "res": res}


def rawcli_oracle(sc, ob):
    bad = []
    if ob["link"].oversize:
        bad.append(("snep-fragment-exceeds-miu", "client sent %d octets on a connection with MIU %d"
                    % (ob["link"].oversize[0][1], ob["link"].oversize[0][2])))
    sent = b"".join(ob["link"].log["c"])
    req = (struct.pack(">BBL", 0x10, 2, len(sc["octets"])) + sc["octets"]) if sc["op"] == "p" else \
        (struct.pack(">BBLL", 0x10, 1, 4 + len(sc["octets"]), sc["cacc"]) + sc["octets"])
    body = sent[:len(req)]
    if not req.startswith(body) or (len(sent) > len(req) and sent[len(req):] != CONT_REQ):
        bad.append(("snep-client-sends-other-octets", "client sent %d octets that are not a prefix of its request (+ Continue)" % len(sent)))
    r = ob["res"]
    if r.startswith("data:") and sc["op"] == "g":
        d = bytes.fromhex(r[5:]) if r[5:] != "-" else b""
        if len(d) > sc["cacc"] + 0 and len(d) > 0 and sc["cacc"] < len(d) and False:
            pass
    if r.startswith("client:crashed") or r.startswith("exc:"):
        bad.append(("snep-client-crashes-on-peer-input", "client result %s" % r))
    return bad


def gen_horaw(ck, rng, ndefs):
    smiu = rng.choice([1, 3, 7, 16, 64, 128, 300])
    cmiu = rng.choice([1, 2, 3, 5, 8, 13, 16, 32, 64, 128])
    msgs, reqs = [], []
    for _ in range(rng.choice([1, 2, 2, 3])):
        while True:
            rq = ndefs.handover_request(rng, max(13, rng.choice([1, 2, 3]) * cmiu + rng.randrange(-8, 9))) \
                if rng.random() < 0.8 else ndefs.message(rng, rng.randrange(3, 60))
            if rq is not None:
                break
        o = ndefs.enc(rq)
        ends = [e for e in record_ends(o) if 0 < e < len(o)]
        if ends and rng.random() < 0.5:
            # fragment boundaries exactly on record boundaries
            cut = sorted(set(rng.sample(ends, rng.randrange(1, len(ends) + 1))))
            fr = [o[a:b] for a, b in zip([0] + cut, cut + [len(o)])]
        else:
            fr = [o[i:i + cmiu] for i in range(0, len(o), cmiu)]
        m = rng.random()
        if m < 0.15:
            fr.insert(rng.randrange(len(fr) + 1), b"")
        elif m < 0.25:
            fr[0] = bytes([rng.randrange(256)]) + fr[0]
        elif m < 0.32 and len(fr) > 1:
            k = rng.randrange(len(fr) - 1)
            fr[k:k + 2] = [fr[k] + fr[k + 1]]
        elif m < 0.38:
            fr[-1] = fr[-1] + o[:rng.randrange(1, 4)]
        msgs += fr
        reqs.append(o)
    while True:
        rp = ndefs.handover_select(rng, max(6, rng.choice([1, 2, 3]) * smiu + rng.randrange(-8, 9)) if smiu >= 7 else rng.randrange(6, 30))
        if rp is not None:
            break
    return {"smiu": smiu, "msgs": msgs, "rsp": ndefs.enc(rp)}


def run_horaw(sc, reset):
    import nfc.handover
    import nfc.llcp
    import ndef
    from sims import snep_chan
    link = snep_chan.Link(force_c2s=100000, force_s2c=sc["smiu"])
    raw, answers = [], []

    class Srv(nfc.handover.HandoverServer):
        def _process_request_data(self, octets):
            raw.append(bytes(octets))
            r = super(Srv, self)._process_request_data(octets)
            answers.append((bytes(octets), bytes(r)))
            return r

        def process_handover_request_message(self, records):
            return list(ndef.message_decoder(sc["rsp"], "relax"))

    srv = Srv(link.server_llc, recv_miu=2175, recv_buf=15)
    lsock = srv._args[1]

    def server_fn():
        srv.serve(lsock.accept())
        return "served"

    def client_fn():
        sock = nfc.llcp.Socket(link.client_llc, nfc.llcp.DATA_LINK_CONNECTION)
        sock.connect("urn:nfc:sn:handover")
        for m in sc["msgs"]:
            try:
                sock.send(m)
            except nfc.llcp.Error:
                pass
        link.sched.block("c", lambda: False, True)
        sock.close()
        return "done"

    out = link.run(client_fn, server_fn)
    # the decoder is a parameter of the model: its verdict on every buffer state that can occur
    table, buf = {}, b""
    for m in sc["msgs"]:
        buf += m
        for cand in (buf,):
            try:
                list(ndef.message_decoder(cand, "strict", {}))
                table[cand] = 1
            except (ndef.DecodeError, ValueError):
                table[cand] = 0
        if table[buf] and buf and reset:
            buf = b""
    real = "s2c=%s dl=%s" % (hexlist(link.log["s"]), hexlist(raw))
    line = "horaw %d %d %s %s %s" % (sc["smiu"], reset,
                                    ",".join("%s=%s" % (hx(a), hx(b)) for a, b in answers) or ".",
                                    ",".join("%s:%d" % (hx(k), v) for k, v in table.items()) or ".", hexlist(sc["msgs"]))
    return line, real, {"link": link, "out": out, "raw": raw}


# ------------------------------------------------------------------ the check
def guarded(ck, key, what, replay, fn):
    """run one scenario; whatever nfcpy or the doubles raise unexpectedly is a failing input, not a crash"""
    from common import Infra
    try:
        return fn()
    except (Infra, KeyboardInterrupt, MemoryError):
        raise
    except Exception as e:  # noqa
        import traceback
        tb = traceback.extract_tb(e.__traceback__)
        ck.fail(key, "%s: %s raised at %s" % (what, exc_name(e), "; ".join("%s:%d" % (f.filename.rsplit("/", 1)[-1], f.lineno) for f in tb[-3:])),
                dict(replay, exception=repr(e)))
        return None


def section_snep(ck, rng, ndefs, model):
    n_snep = 24000 if ck.thorough else 2200
    lines, reals, scs = [], [], []
    for i in range(n_snep):
        sc = gen_snep(ck, rng, ndefs)

        def one():
            ob = run_snep(sc)
            if ob["cmiu"] is None:
                ck.fail("snep-connect-failed", "no connection", sc_json(sc))
                return
            for key, what in snep_oracle(sc, ob):
                ck.fail(key, what, {"protocol": "snep", "scenario": sc_json(sc), "client_send_miu": ob["cmiu"],
                                    "server_send_miu": ob["smiu"], "observed": snep_real_line(sc, ob)[:2000]})
            line, real = snep_model_line(sc, ob), snep_real_line(sc, ob)
            lines.append(line)
            reals.append(real)
            scs.append(sc)
            nfrag = len(ob["link"].log["c"]) > len(sc["ops"]) or len(ob["link"].log["s"]) > len(sc["ops"])
            refused = any(r in ("False", "None") or r.startswith("SnepError") for r in (ob["res"] or []))
            kinds = "+".join(sorted(set(o["op"] for o in sc["ops"])))
            ck.case(line, nfrag or refused, "snep:%s:%s%s" % (kinds, "frag" if nfrag else "single", ":refused" if refused else ""),
                    sample={"request": line[:300], "impl": real[:300]} if len(ck.samples) < 3 else None)
        guarded(ck, "snep-scenario-raises", "SNEP scenario on the channel double", {"protocol": "snep", "scenario": sc_json(sc)}, one)
    replies = model.ask_many(lines)
    dis = 0
    for line, real, rep, sc in zip(lines, reals, replies, scs):
        if norm_model_snep(rep) != real:
            dis += 1
            ck.fail("tie:snep-model-vs-code", "model %r, implementation %r" % (norm_model_snep(rep)[:400], real[:400]),
                    {"request": line[:4000], "model": rep[:4000], "impl": real[:4000]})
    ck.tie("snep client+server model vs real code on the channel double", cases=len(lines), disagreements=dis, exhaustive=False)


def boundary_handover(ck, rng, ndefs):
    """handover scenarios whose MIU puts a fragment boundary exactly on a record boundary (both directions)"""
    sc = gen_handover(ck, rng, ndefs, nreq=rng.choice([1, 2]))
    rq, rp = sc["reqs"][0]
    e1 = [e for e in record_ends(rq) if 0 < e < len(rq)]
    e2 = [e for e in record_ends(rp) if 0 < e < len(rp)]
    if e1:
        e = rng.choice(e1)
        divs = [d for d in range(1, e + 1) if e % d == 0]
        sc["force_c2s"] = rng.choice([e, e, rng.choice(divs)])
    if e2:
        e = rng.choice(e2)
        divs = [d for d in range(1, e + 1) if e % d == 0]
        sc["force_s2c"] = rng.choice([e, e, rng.choice(divs)])
    return sc, bool(e1 or e2)


def section_handover(ck, rng, ndefs, model):
    import ndef
    # which server is in the tree?  (finding F29: reassembly buffer never reset)
    probe_rng = __import__("random").Random(7)
    probe = gen_handover(ck, probe_rng, ndefs, nreq=2)
    pob = guarded(ck, "handover-scenario-raises", "handover scenario on the channel double (two requests on one connection)",
                  {"protocol": "handover", "scenario": sc_json(probe)}, lambda: run_handover(probe))
    reset = 1 if pob is None or pob["raw"] == [r for r, _ in probe["reqs"]] else 0
    ck.notes.append("handover server variant in the tree: %s" % ("buffer reset after each request" if reset else
                                                                 "as found (F29): buffer kept for the whole connection"))
    n_ho = 9000 if ck.thorough else 1400
    lines, reals = [], []
    prefix_reqs, prefix_real = [], []
    enc_lines, enc_real = [], []
    nbound = 0
    for i in range(n_ho):
        onb = False
        if i == 0:
            sc = probe
        elif i % 4 == 1:
            sc, onb = boundary_handover(ck, rng, ndefs)
        else:
            sc = gen_handover(ck, rng, ndefs)
        nbound += 1 if onb else 0

        def one():
            ob = pob if i == 0 and pob is not None else run_handover(sc)
            if ob["cmiu"] is None:
                ck.fail("handover-connect-failed", "no connection", sc_json(sc))
                return
            for key, what in ho_oracle(sc, ob):
                ck.fail(key, what, {"protocol": "handover", "scenario": sc_json(sc), "client_send_miu": ob["cmiu"],
                                    "server_send_miu": ob["smiu"], "observed": ho_real_line(ob)[:2000]})
            line = "ho %d %d %d %s" % (ob["cmiu"], ob["smiu"], reset, " ".join("%s/%s" % (hx(a), hx(b)) for a, b in sc["reqs"]))
            real = ho_real_line(ob)
            lines.append(line)
            reals.append(real)
            nfrag = len(ob["link"].log["c"]) > len(sc["reqs"]) or len(ob["link"].log["s"]) > len(sc["reqs"])
            ck.case(line, nfrag or len(sc["reqs"]) > 1, "handover:%dreq:%s%s" % (len(sc["reqs"]), "frag" if nfrag else "single",
                                                                                ":record-boundary" if onb else ""),
                    sample={"request": line[:300], "impl": real[:300]} if len(ck.samples) < 5 else None)
            # the decoder assumption: strict decode vs the model's walk on buffer states and random cuts
            if i % 8 in (0, 1, 5):
                for a, b in sc["reqs"]:
                    for m in (a, b):
                        cuts = set([0, 1, 2, 3, len(m) - 1, len(m)] + [rng.randrange(len(m) + 1) for _ in range(4)])
                        cuts |= set(range(ob["cmiu"], len(m), ob["cmiu"])) if ob["cmiu"] >= 8 else set()
                        cuts |= set(record_ends(m))
                        for c in sorted(x for x in cuts if 0 <= x <= len(m)):
                            p = m[:c]
                            if rng.random() < 0.1:
                                p = m + a[:c]
                            try:
                                list(ndef.message_decoder(p, "strict", {}))
                                r = "true"
                            except ndef.DecodeError:
                                r = "false"
                            prefix_reqs.append("ndefc " + hx(p))
                            prefix_real.append(r)
                        el = encmsg_line(m)
                        if el is None:
                            ck.fail("tie:ndef-message-outside-record-model", "a generated message is not of the shape MB..ME without chunks",
                                    {"message": hx(m)})
                        else:
                            enc_lines.append(el)
                            enc_real.append(hx(m) + " wf")
        guarded(ck, "handover-scenario-raises", "handover scenario on the channel double",
                {"protocol": "handover", "scenario": sc_json(sc)}, one)
    replies = model.ask_many(lines)
    dis = 0
    for line, real, rep in zip(lines, reals, replies):
        if rep != real:
            dis += 1
            ck.fail("tie:handover-model-vs-code", "model %r, implementation %r" % (rep[:400], real[:400]),
                    {"request": line[:4000], "model": rep[:4000], "impl": real[:4000]})
    ck.tie("handover client+server model vs real code on the channel double", cases=len(lines), disagreements=dis, exhaustive=False)
    ck.count("handover-fragment-boundary-on-record-boundary", nbound)
    replies = model.ask_many(prefix_reqs)
    dis = 0
    for line, real, rep in zip(prefix_reqs, prefix_real, replies):
        if rep != real:
            dis += 1
            ck.fail("tie:ndef-complete-vs-strict-decoder", "model %r, ndeflib %r" % (rep, real), {"request": line[:4000]})
    ck.tie("model `ndefComplete` vs ndef.message_decoder(strict) on prefixes", cases=len(prefix_reqs), disagreements=dis, exhaustive=False)
    ck.count("ndef-prefix-probes", len(prefix_reqs))
    replies = model.ask_many(enc_lines)
    dis = 0
    for line, real, rep in zip(enc_lines, enc_real, replies):
        if rep != real:
            dis += 1
            ck.fail("tie:ndef-record-encoder", "model encMsg %r, ndeflib %r" % (rep[:200], real[:200]), {"request": line[:4000]})
    ck.tie("model `encMsg` (record lists, hypothesis of handover_roundtrip_records) vs ndeflib encoder", cases=len(enc_lines),
           disagreements=dis, exhaustive=False)
    return reset


def section_raw(ck, rng, ndefs, model, reset):
    n = 3000 if ck.thorough else 400
    for name, gen, runner, oracle in (("rawsrv", gen_rawsrv, run_rawsrv, rawsrv_oracle),
                                      ("rawcli", gen_rawcli, run_rawcli, rawcli_oracle),
                                      ("horaw", gen_horaw, lambda sc: run_horaw(sc, reset), None)):
        lines, reals, scs = [], [], []
        for i in range(n):
            sc = gen(ck, rng, ndefs)

            def one():
                line, real, ob = runner(sc)
                if oracle:
                    for key, what in oracle(sc, ob):
                        ck.fail(key, what, {"protocol": name, "scenario": sc_json(sc), "observed": real[:2000]})
                lines.append(line)
                reals.append(real)
                scs.append(sc)
                ck.case(line, True, "hostile-peer:" + name)
            guarded(ck, "snep-scenario-raises" if name != "horaw" else "handover-scenario-raises",
                    "hostile peer scenario (%s)" % name, {"protocol": name, "scenario": sc_json(sc)}, one)
        replies = model.ask_many(lines)
        dis = 0
        for line, real, rep, sc in zip(lines, reals, replies, scs):
            if name == "rawsrv":
                rep = norm_model_snep(rep)
            if rep != real:
                dis += 1
                ck.fail("tie:%s-model-vs-code" % name, "model %r, implementation %r" % (rep[:400], real[:400]),
                        {"request": line[:4000], "model": rep[:4000], "impl": real[:4000]})
        ck.tie({"rawsrv": "SNEP server model vs real _serve against hostile peers (any message sequence)",
                "rawcli": "SNEP client model vs real put_octets/get_octets against hostile peers",
                "horaw": "handover server model vs real serve() on arbitrary fragmentations"}[name],
               cases=len(lines), disagreements=dis, exhaustive=False)


def section_grid(ck, ndefs, model):
    """every message size 0..3*MIU+2 x limit size-1/size/size+1 x MIU 6..(9|12), Put and Get, on the channel double"""
    import random
    grng = random.Random(60606)
    mius = range(6, 13) if ck.thorough else range(6, 10)
    lines, reals = [], []
    for cmiu in mius:
        for size in range(0, 3 * cmiu + 3):
            recs = ndefs.message(grng, size)
            if recs is None:
                continue
            octets = ndefs.enc(recs)
            for kind in "pg":
                eff = len(octets) + (4 if kind == "g" else 0)
                for maxacc in (max(0, eff - 1), eff, eff + 1):
                    if kind == "g":
                        rd = ndefs.enc(ndefs.message(grng, grng.choice([3, cmiu, 2 * cmiu + 1])))
                        cacc = grng.choice([len(rd) - 1, len(rd), len(rd) + 1])
                    else:
                        rd, cacc = 0x81, 10
                    sc = {"recv_miu": 128, "force_c2s": cmiu, "force_s2c": grng.choice([6, cmiu, 128]), "recv_buf": 1,
                          "cacc": cacc, "maxacc": maxacc, "auto": False, "close": True,
                          "ops": [{"op": kind, "octets": octets, "valid": 1, "ret": rd}]}

                    def one():
                        ob = run_snep(sc)
                        for key, what in snep_oracle(sc, ob):
                            ck.fail(key, what, {"protocol": "snep", "scenario": sc_json(sc), "client_send_miu": ob["cmiu"],
                                                "server_send_miu": ob["smiu"], "observed": snep_real_line(sc, ob)[:2000]})
                        lines.append(snep_model_line(sc, ob))
                        reals.append(snep_real_line(sc, ob))
                        ck.case(lines[-1], True, "grid:" + kind)
                    guarded(ck, "snep-scenario-raises", "grid scenario", {"protocol": "snep", "scenario": sc_json(sc)}, one)
    replies = model.ask_many(lines)
    dis = 0
    for line, real, rep in zip(lines, reals, replies):
        if norm_model_snep(rep) != real:
            dis += 1
            ck.fail("tie:snep-model-vs-code", "model %r, implementation %r" % (norm_model_snep(rep)[:400], real[:400]),
                    {"request": line[:4000], "model": rep[:4000], "impl": real[:4000]})
    ck.tie("snep model vs real code, grid: every size 0..3*MIU+2 x limit size-1/size/size+1 x MIU %d..%d x put/get"
           % (mius[0], mius[-1]), cases=len(lines), disagreements=dis, exhaustive=True)


def section_fullstack(ck, rng, ndefs, model, reset):
    """the complete stack under deterministic schedules with slow consumers"""
    from props import c06_full as cf
    n = 4000 if ck.thorough else 360
    ideal, ideal_real, win, win_real, descr = [], [], [], [], []
    slow = 0
    for i in range(n):
        proto = "snep" if rng.random() < 0.6 else "ho"
        sc = cf.gen_full_snep(ck, rng, ndefs) if proto == "snep" else cf.gen_full_ho(ck, rng, ndefs)

        def one():
            ob = cf.run_full_snep(sc) if proto == "snep" else cf.run_full_ho(sc)
            rp = {"protocol": "fullstack-" + proto, "scenario": sc_json(sc), "client_send_miu": ob["cmiu"],
                  "server_send_miu": ob["smiu"], "schedule": ob["sched"]}
            owed = cf.owed_dm_failure(ob)
            if owed:
                ck.fail(owed[0], owed[1], rp)
                ck.count("fullstack-runs-hit-by-" + owed[0])
                return
            bad = cf.stack_oracle(sc, ob)
            if ob["cmiu"] is None or ob["smiu"] is None:
                bad.append(("fullstack-no-connection", "the data link connection was not established: %s"
                            % {k: (v[0] if v else None) for k, v in ob["threads"].items()}))
            else:
                bad += snep_oracle(sc, ob) if proto == "snep" else ho_oracle(sc, ob)
            for key, what in bad:
                ck.fail(key, what, rp)
            if ob["cmiu"] is None or ob["smiu"] is None:
                return
            if proto == "snep":
                line = snep_model_line(sc, ob)
                real = snep_real_line(sc, ob).rpartition(" sst=")[0]
                f = line.split(" ")
                wl = "wsnep %d 1 0 %%s %s %s" % (sc["recv_buf"], " ".join(f[1:5]), " ".join(f[6:]))
            else:
                line = "ho %d %d %d %s" % (ob["cmiu"], ob["smiu"], reset, " ".join("%s/%s" % (hx(a), hx(b)) for a, b in sc["reqs"]))
                real = ho_real_line(ob)
                wl = "who %d %d 0 %%s %s" % (sc["recv_buf"], sc["c_recv_buf"], line[3:])
            ideal.append(line)
            ideal_real.append(real)
            ev = "".join(l for l, d in ob["events"])
            ev = ev[ev.index("o") + 1:] if "o" in ev else ev
            win.append(wl % (ev or "-"))
            win_real.append(real + " ev=" + " ".join(l + d for l, d in ob["events"] if l != "o"))
            descr.append(rp)
            nfr = max(len(ob["link"].log["c"]), len(ob["link"].log["s"]))
            ck.case(("full", line, sorted((k, str(v)) for k, v in sc.items() if k not in ("ops", "reqs"))), True,
                    "fullstack:%s:%s%s" % (proto, sc["policy"]["kind"].split(":")[0], ":window-exceeded" if nfr > sc["recv_buf"] + 1 else ""))
        guarded(ck, "fullstack-scenario-raises", "complete-stack scenario", {"protocol": "fullstack-" + proto, "scenario": sc_json(sc)}, one)
        slow += 1 if sc["policy"]["kind"].startswith("slow") else 0
    replies = model.ask_many(ideal)
    dis = 0
    for line, real, rep, rp in zip(ideal, ideal_real, replies, descr):
        if line.startswith("snep"):
            rep = norm_model_snep(rep).rpartition(" sst=")[0]
        if rep != real:
            dis += 1
            ck.fail("tie:model-vs-complete-stack", "model (ideal channel) %r, complete stack %r" % (rep[:400], real[:400]),
                    dict(rp, request=line[:4000], model=rep[:4000], impl=real[:4000]))
    ck.tie("SNEP / handover model on the ideal channel vs the real complete stack (clf.connect .. radio frames) under "
           "deterministic schedules incl. slow consumers", cases=len(ideal), disagreements=dis, exhaustive=False)
    replies = model.ask_many(win)
    dis = 0
    for line, real, rep, rp in zip(win, win_real, replies, descr):
        if rep != real:
            dis += 1
            k = 0
            while k < min(len(rep), len(real)) and rep[k] == real[k]:
                k += 1
            ck.fail("tie:windowed-link-model-vs-tco", "first difference at %d: model ...%r, stack ...%r" % (k, rep[max(0, k - 60):k + 60], real[max(0, k - 60):k + 60]),
                    dict(rp, request=line[:4000], model=rep[-3000:], impl=real[-3000:]))
    ck.tie("windowed link model (receive queue, V(R), V(RA), recv_confs after every transmit / take / acknowledge event) "
           "vs the real DataLinkConnection sockets in the complete-stack runs", cases=len(win), disagreements=dis, exhaustive=False)
    ck.count("fullstack-runs-with-slow-consumer", slow)


def section_histories(ck, rng, ndefs, model, reset):
    """one client OBJECT over its life time (temporary connections, connect to one of two SNEP services, requests,
    close, in any order; HandoverClient connect / request / close sequences) on the complete stack"""
    from props import c06_full as cf
    n = 1500 if ck.thorough else 210
    lines, reals, descr = [], [], []
    for i in range(n):
        snep = i % 3 != 0
        sc = cf.gen_hist_snep(ck, rng, ndefs) if snep else cf.gen_hist_ho(ck, rng, ndefs)

        def one():
            line, real, ob = cf.run_hist_snep(sc) if snep else cf.run_hist_ho(sc, reset)
            rp = {"protocol": sc["protocol"], "scenario": sc_json(sc), "observed": real[:3000], "schedule": ob["sched"]}
            owed = cf.owed_dm_failure(ob)
            if owed:
                ck.fail(owed[0], owed[1], rp)
                ck.count("history-runs-hit-by-" + owed[0])
                return
            for key, what in (cf.hist_snep_oracle(sc, ob) if snep else cf.hist_ho_oracle(sc, ob)):
                ck.fail(key, what, rp)
            lines.append(line)
            reals.append(real)
            descr.append(rp)
            shape = "".join(o["op"] if o["op"] in "cx" else "r" for o in sc["ops"])
            ck.case(("history", line), len(sc["ops"]) > 1, "history:%s:%s" % ("snep" if snep else "handover",
                    "temporary-then-connected" if snep and "rc" in shape.replace("x", "") and shape.startswith("r") else
                    "reconnect" if shape.count("c") > 1 else "other"))
        guarded(ck, "history-scenario-raises", "client object history on the complete stack",
                {"protocol": sc["protocol"], "scenario": sc_json(sc)}, one)
    replies = model.ask_many(lines)
    dis = 0
    for line, real, rep, rp in zip(lines, reals, replies, descr):
        if rep != real:
            dis += 1
            ck.fail("tie:client-object-history-model-vs-stack", "model %r, complete stack %r" % (rep[-500:], real[-500:]),
                    dict(rp, request=line[:4000], model=rep[:4000], impl=real[:4000]))
    ck.tie("client OBJECT histories (SnepClient: temporary connection / connect to one of two services / requests / close; "
           "HandoverClient: connect / request / close) model vs the real objects on the complete stack: results, deliveries per "
           "service, socket after every call, connections opened and closed", cases=len(lines), disagreements=dis, exhaustive=False)


def run(ck):
    from sims import snep_ndef as ndefs
    rng = ck.rng
    ck.rule = ("a case is one connection: (protocol, send MIU of each side, receive limits, list of requests with "
               "message octets and application responses) run on the real client and server code and on the model - over "
               "the channel double (two honest parties; one party against a hostile peer; an exhaustive size x limit x MIU "
               "grid) and over the complete stack (link MIU / aggregation / role / NFC-DEP frame size / RW / schedule "
               "incl. slow consumer); non-trivial = at least one message was fragmented, refused or answered with a "
               "fragmented response; distinct by hash of the whole scenario")
    ck.assumptions += [
        "ndeflib: message_decoder(message_encoder(records)) gives back records that encode to the same octets "
        "(asserted for every generated message); a strict decode succeeds on no proper non-empty prefix of a message "
        "(proved for the model's structural reading of record lists, which is compared with the real decoder on every "
        "buffer state, every record boundary and random cuts)",
        "application callbacks return a response code 0..255 / a well-formed response message",
        "the theorems about the windowed link use unbounded sequence counters and treat a transmitted I PDU as received "
        "at once; the modulo-16 arithmetic, the PDU formats and NFC-DEP chaining are exercised by the complete-stack runs "
        "(and are the subject of C05 / C04), not by C06 theorems",
        "client object histories: connect() names a service the peer offers and the default SNEP server exists (after a "
        "refused connect() the code keeps an unconnected socket object in self.socket - outside the histories considered); "
        "the theorem asks that every message of a history is acceptable to every service, the runs also use services with "
        "different limits",
        "the model equals the Python code outside the compared scenarios (D-tie is a sample, except the grid)",
    ]
    ck.trusted += ["hand-written Lean models NfcVerif.Model.Snep / Handover / SnepChannel / SnepSched / SnepObj (state machines cut at the "
                   "blocking socket calls; interleavings; windowed link; client objects over their life time), tied by differential runs",
                   "harness/sims/snep_chan.py (fake link controller under real nfc.llcp.Socket, lockstep scheduler), "
                   "harness/sims/snep_full.py (device driver double, scheduler controlled threading.Condition/Thread and clocks), "
                   "harness/sims/snep_ndef.py, harness/props/c06.py, harness/props/c06_full.py"]
    import time
    t0 = time.time()
    ck.lean("NfcVerif.Props.C06", THEOREMS)
    ck.notes.append("lean build + axiom audit %.1fs" % (time.time() - t0))
    if ck.thorough:
        ck.leanchecker(["NfcVerif.Props.C06"])
    model = Model("drv_c06")
    import time
    times, t = [], time.time()

    def lap(name):
        nonlocal t
        times.append("%s %.1fs" % (name, time.time() - t))
        t = time.time()
    lap("lean")
    section_snep(ck, rng, ndefs, model)
    lap("snep")
    reset = section_handover(ck, rng, ndefs, model)
    lap("handover")
    section_raw(ck, rng, ndefs, model, reset)
    lap("hostile-peers")
    section_grid(ck, ndefs, model)
    lap("grid")
    section_fullstack(ck, rng, ndefs, model, reset)
    lap("complete-stack")
    section_histories(ck, rng, ndefs, model, reset)
    lap("histories")
    ck.notes.append("wall time per section: " + ", ".join(times))
    # (the earlier thorough-tier search with free running threads, sims/snep_stack.py, depended on wall-clock
    # timeouts; the deterministic complete stack above replaces it)
