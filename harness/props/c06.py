"""C06 - SNEP and handover carry NDEF messages intact through fragmentation.

L1: theorems of NfcVerif.Props.C06 about the executable models of
    snep/client.py, snep/server.py, handover/client.py, handover/server.py
    (state machines cut at the blocking socket calls) running against each
    other over a reliable ordered message channel.
L2: the REAL SnepClient/SnepServer/HandoverClient/HandoverServer code runs
    against each other over harness/sims/snep_chan.py (real nfc.llcp.Socket
    objects on a fake link controller, two threads in strict lockstep); the
    messages each side put on its socket, what reached the application
    callbacks, the client results and the server's end state are compared
    with the Lean model driver on the same scenario.
L3: oracle on the same real runs, independent of the model: octets delivered
    == octets sent, exactly once, in order; Reject / ExcessData / BadRequest
    exactly when specified; nothing above the MIU; nobody hangs.  Thorough
    tier additionally searches with the complete stack (two real
    LogicalLinkControllers in threads over an in-memory MAC).
"""
import logging
import struct

from common import Model, hx, exc_name

logging.disable(logging.CRITICAL)

LEAN_TARGETS = ["NfcVerif.Props.C06", "drv_c06"]

THEOREMS = [
    "NfcVerif.C06.frag_concat",
    "NfcVerif.C06.snep_put_delivers",
    "NfcVerif.C06.snep_put_sequence_delivers",
    "NfcVerif.C06.snep_oversize_rejected",
    "NfcVerif.C06.snep_get_returns",
    "NfcVerif.C06.snep_get_excess_data",
    "NfcVerif.C06.handover_roundtrip",
    "NfcVerif.C06.handover_sequence_roundtrip",
    "NfcVerif.C06.handover_asfound_counterexample",
]


class FakeTime:
    @staticmethod
    def time():
        return 1000.0


def hexlist(msgs):
    return ",".join(hx(m) for m in msgs) if msgs else "."


def canon_result(fn):
    import nfc.snep
    try:
        r = fn()
    except nfc.snep.SnepError as e:
        return "SnepError(%d)" % e.errno
    except Exception as e:  # noqa
        return "exc:" + exc_name(e)
    if r is True:
        return "True"
    if r is False:
        return "False"
    if r is None:
        return "None"
    return "data:" + hx(r)


def party_state(o):
    if o is None:
        return "missing"
    if o[0] == "ok":
        return "closed"
    if o[0] == "exc":
        return "crashed:" + exc_name(o[1])
    return o[0]


# ------------------------------------------------------------------ real SNEP run
def run_snep(sc):
    """sc: dict(recv_miu, force_c2s, force_s2c, recv_buf, cacc, maxacc, auto, close,
    ops=[dict(op, octets, ret)]) -> observation dict"""
    import nfc.snep
    import nfc.llcp
    import ndef
    from sims import snep_chan
    link = snep_chan.Link(force_c2s=sc["force_c2s"], force_s2c=sc["force_s2c"])
    got = []
    cur = [None]

    class Srv(nfc.snep.SnepServer):
        def process_put_request(self, records):
            got.append(("p", b"".join(ndef.message_encoder(records))))
            return cur[0]["ret"]

        def process_get_request(self, records):
            got.append(("g", b"".join(ndef.message_encoder(records))))
            r = cur[0]["ret"]
            return r if isinstance(r, int) else list(ndef.message_decoder(r, known_types={}))

    srv = Srv(link.server_llc, max_acceptable_length=sc["maxacc"], recv_miu=sc["recv_miu"], recv_buf=sc["recv_buf"])
    lsock = srv._args[0]

    def server_fn():
        sock = lsock.accept()
        srv._serve(sock)
        return "served"

    def client_fn():
        cl = nfc.snep.SnepClient(link.client_llc, max_ndef_msg_recv_size=sc["cacc"])
        if not sc["auto"]:
            cl.connect("urn:nfc:sn:snep")
        res = []
        for op in sc["ops"]:
            cur[0] = op
            f = cl.put_octets if op["op"] == "p" else cl.get_octets
            res.append(canon_result(lambda: f(op["octets"], 1.0)))
        link.sched.block("c", lambda: False, True)   # let the server work off what is queued
        if sc["close"]:
            cl.close()
        return res

    out = link.run(client_fn, server_fn)
    conn = link.connections[0] if link.connections else None
    return {"link": link, "out": out, "got": got,
            "cmiu": conn[0].send_miu if conn else None, "smiu": conn[1].send_miu if conn else None,
            "res": out["c"][1] if out.get("c", ("",))[0] == "ok" else None}


def snep_model_line(sc, ob):
    ops = []
    for op in sc["ops"]:
        if op["op"] == "p":
            ops.append("p/%s/%d/%d" % (hx(op["octets"]), op["valid"], op["ret"]))
        elif isinstance(op["ret"], int):
            ops.append("g/%s/%d/c%d" % (hx(op["octets"]), op["valid"], op["ret"]))
        else:
            ops.append("g/%s/%d/d%s" % (hx(op["octets"]), op["valid"], hx(op["ret"])))
    return "snep %d %d %d %d %d %s" % (ob["cmiu"], sc["cacc"], ob["smiu"], sc["maxacc"],
                                      1 if (sc["close"] or sc["auto"]) else 0, " ".join(ops))


def snep_real_line(sc, ob):
    link, out = ob["link"], ob["out"]
    res = ",".join(ob["res"]) if ob["res"] is not None else "client:" + party_state(out.get("c"))
    s = party_state(out.get("s"))
    if s == "deadlock":
        s = "open"           # still waiting for a request on a connection nobody closed
    return "c2s=%s s2c=%s dl=%s res=%s sst=%s" % (
        hexlist(link.log["c"]), hexlist(link.log["s"]),
        ",".join("%s:%s" % (k, hx(o)) for k, o in ob["got"]) if ob["got"] else ".", res, s)


def norm_model_snep(rep):
    # the model names the waiting point of a server that is still running
    head, _, sst = rep.rpartition(" sst=")
    if sst in ("idle", "reasm", "awaitCont"):
        sst = "open"
    return head + " sst=" + sst


def snep_oracle(sc, ob):
    """the property, stated on the observation of the real run; returns [(key, what)]"""
    bad = []
    link, out = ob["link"], ob["out"]
    if link.oversize:
        bad.append(("snep-fragment-exceeds-miu", "message of %d bytes sent on a connection with MIU %d (%s side)"
                    % (link.oversize[0][1], link.oversize[0][2], link.oversize[0][0])))
    for side in "cs":
        st = party_state(out.get(side))
        if st == "hard-timeout":
            bad.append(("snep-run-does-not-end", "%s thread did not finish" % side))
        elif st.startswith("crashed") or (st == "deadlock" and side == "c"):
            bad.append(("snep-unexpected-exception-or-hang", "%s side: %s" % (side, st)))
    if (sc["close"] or sc["auto"]) and party_state(out.get("s")) != "closed":
        bad.append(("snep-server-does-not-end", "server after close: %s" % party_state(out.get("s"))))
    if ob["res"] is None:
        return bad
    expect_dl = []
    gi = 0
    nresp = 0
    for op, res in zip(sc["ops"], ob["res"]):
        o = op["octets"]
        if op["op"] == "p":
            fragmented = 6 + len(o) > ob["cmiu"]
            if len(o) > min(sc["maxacc"], 0xFFFFFFFF):
                want = "False" if fragmented else "SnepError(255)"
                if res != want:
                    bad.append(("snep-oversize-not-rejected", "put of %d octets, limit %d: client result %s, expected %s"
                                % (len(o), sc["maxacc"], res, want)))
            elif not op["valid"]:
                if res != "SnepError(194)":
                    bad.append(("snep-bad-request-result", "put of undecodable octets: %s" % res))
            else:
                expect_dl.append(("p", o))
                want = "True" if op["ret"] == 0x81 else "SnepError(%d)" % op["ret"]
                if res != want:
                    bad.append(("snep-put-result", "put of %d octets: client result %s, expected %s" % (len(o), res, want)))
        else:
            fragmented = 10 + len(o) > ob["cmiu"]
            if 4 + len(o) > min(sc["maxacc"], 0xFFFFFFFF):
                want = "None" if fragmented else "SnepError(255)"
                if res != want:
                    bad.append(("snep-oversize-not-rejected", "get request of 4+%d octets, limit %d: client result %s, expected %s"
                                % (len(o), sc["maxacc"], res, want)))
            elif not op["valid"]:
                if res != "SnepError(194)":
                    bad.append(("snep-bad-request-result", "get with undecodable octets: %s" % res))
            else:
                expect_dl.append(("g", o))
                r = op["ret"]
                if isinstance(r, int):
                    want = "SnepError(%d)" % r
                elif len(r) > sc["cacc"]:
                    want = "SnepError(193)"
                    # no part of the body may have been sent
                    body = b"".join(link.log["s"])
                    if len(r) >= 8 and bytes(r[:8]) in body:
                        bad.append(("snep-excess-data-body-sent", "response of %d octets exceeds acceptable %d but body octets were sent"
                                    % (len(r), sc["cacc"])))
                else:
                    want = "data:" + hx(r)
                if res != want:
                    bad.append(("snep-get-response-not-intact" if want.startswith("data") else "snep-get-result",
                                "get: response of %s octets, acceptable %d: client result %s, expected %s"
                                % (len(r) if not isinstance(r, int) else "code", sc["cacc"], res[:60], want[:60])))
    if ob["got"] != expect_dl:
        # which kind?
        exp_set = [o for _, o in expect_dl]
        partial = [o for _, o in ob["got"] if o not in exp_set]
        if len(ob["got"]) > len(expect_dl) and not partial:
            key = "snep-message-delivered-more-than-once-or-when-refused"
        elif partial:
            key = "snep-message-not-delivered-intact"
        else:
            key = "snep-message-not-delivered"
        bad.append((key, "application callbacks saw %s, expected %s"
                    % ([(k, len(o)) for k, o in ob["got"]], [(k, len(o)) for k, o in expect_dl])))
    return bad


# ------------------------------------------------------------------ real handover run
def run_handover(sc):
    """sc: dict(recv_miu, force_c2s, force_s2c, c_recv_miu, reqs=[(req octets, resp octets)])"""
    import nfc.handover
    import nfc.handover.client
    import ndef
    from sims import snep_chan
    link = snep_chan.Link(force_c2s=sc["force_c2s"], force_s2c=sc["force_s2c"])
    raw, got = [], []
    cur = [None]

    class Srv(nfc.handover.HandoverServer):
        def _process_request_data(self, octets):
            raw.append(bytes(octets))
            return super(Srv, self)._process_request_data(octets)

        def process_handover_request_message(self, records):
            got.append(b"".join(ndef.message_encoder(records)))
            return list(ndef.message_decoder(cur[0][1], "relax"))

    srv = Srv(link.server_llc, recv_miu=sc["recv_miu"], recv_buf=sc["recv_buf"])
    lsock = srv._args[1]

    def server_fn():
        sock = lsock.accept()
        srv.serve(sock)
        return "served"

    def client_fn():
        cl = nfc.handover.HandoverClient(link.client_llc)
        cl.connect(recv_miu=sc["c_recv_miu"], recv_buf=2)
        res = []
        for rq in sc["reqs"]:
            cur[0] = rq

            def one():
                if not cl.send_octets(rq[0]):
                    return False
                return cl.recv_octets(1.0)
            res.append(canon_result(one))
        link.sched.block("c", lambda: False, True)   # let the server work off what is queued, then close
        cl.close()
        return res

    saved = nfc.handover.client.time
    nfc.handover.client.time = FakeTime
    try:
        out = link.run(client_fn, server_fn)
    finally:
        nfc.handover.client.time = saved
    conn = link.connections[0] if link.connections else None
    return {"link": link, "out": out, "raw": raw, "got": got,
            "cmiu": conn[0].send_miu if conn else None, "smiu": conn[1].send_miu if conn else None,
            "res": out["c"][1] if out.get("c", ("",))[0] == "ok" else None}


def ho_real_line(ob):
    link, out = ob["link"], ob["out"]
    res = ",".join(ob["res"]) if ob["res"] is not None else "client:" + party_state(out.get("c"))
    return "c2s=%s s2c=%s dl=%s res=%s" % (hexlist(link.log["c"]), hexlist(link.log["s"]), hexlist(ob["raw"]), res)


def ho_oracle(sc, ob):
    bad = []
    link, out = ob["link"], ob["out"]
    if link.oversize:
        bad.append(("handover-fragment-exceeds-miu", "message of %d bytes on a connection with MIU %d"
                    % (link.oversize[0][1], link.oversize[0][2])))
    for side in "cs":
        st = party_state(out.get(side))
        if st != "closed":
            bad.append(("handover-run-does-not-end-cleanly", "%s side: %s" % (side, st)))
    reqs = [r for r, _ in sc["reqs"]]
    if ob["got"] != reqs:
        if ob["got"][:1] != reqs[:1]:
            key = "handover-request-not-delivered-intact"
        else:
            key = "handover-later-request-wrong-delivery"
        bad.append((key, "process_handover_request_message saw messages of %s octets (%s), the client sent %s"
                    % ([len(g) for g in ob["got"]],
                       ["=req%d" % reqs.index(g) if g in reqs else "other" for g in ob["got"]],
                       [len(r) for r in reqs])))
    if ob["res"] is not None:
        want = ["data:" + hx(rsp) for _, rsp in sc["reqs"]]
        if ob["res"] != want and ob["got"] == reqs:
            bad.append(("handover-response-not-intact", "client received %s, expected the %d select messages of %s octets"
                        % ([r[:40] for r in ob["res"]], len(want), [len(r) for _, r in sc["reqs"]])))
    return bad


# ------------------------------------------------------------------ scenario generators
def around(rng, miu, hdr, kmax):
    k = rng.randrange(1, kmax + 1)
    return max(0, k * miu - hdr + rng.randrange(-8, 9))


def gen_snep(ck, rng, ndefs):
    import ndef
    small = rng.random() < 0.6
    if small:
        force_c2s = rng.choice([6, 7, 8, 9, 10, 11, 13, 16, 17, 20, 31, 32, 33, 50, 64])
        recv_miu = 128
    else:
        force_c2s = None
        recv_miu = rng.choice([128, 129, 130, 135, 200, 248, 255, 256, 1000, 1984, 2175])
    cmiu = force_c2s or recv_miu
    force_s2c = rng.choice([None, None, 6, 7, 8, 9, 12, 16, 33, 64, 127, 129, 300, 2175])
    smiu = force_s2c or 128
    kmax = 4 if cmiu < 256 else (3 if ck.thorough else 2)
    auto = rng.random() < 0.25
    nops = 1 if auto else rng.choice([1, 1, 2, 3])
    sizes, ops = [], []
    for _ in range(nops):
        kind = rng.choice("ppg")
        size = around(rng, cmiu, 6 if kind == "p" else 10, kmax)
        if rng.random() < 0.1:
            size = rng.choice([0, 3, 4, 5, cmiu - 6 if cmiu > 9 else 3, cmiu])
        recs = ndefs.message(rng, size)
        if recs is None:
            # 1- and 2-octet strings are no NDEF messages: used as undecodable input
            octets = bytes(rng.randrange(256) for _ in range(size))
        else:
            octets = ndefs.enc(recs)
            if rng.random() < 0.04 and len(octets) > 3:
                octets = octets[:-1]          # truncated message: the decoder must refuse it
        try:
            list(ndef.message_decoder(octets, known_types={}))
            valid = 1
        except ndef.DecodeError:
            valid = 0
        if kind == "p":
            ret = 0x81 if rng.random() < 0.9 else rng.choice([0xC0, 0xE0, 0xC2])
        else:
            if rng.random() < 0.15:
                ret = rng.choice([0xC0, 0xE0, 0xC2])
            else:
                rs = around(rng, smiu, 6, 3 if smiu >= 64 else 6)
                if smiu < 6:
                    rs = rng.randrange(0, 40)
                rr = ndefs.message(rng, rs) or ndefs.message(rng, rs + 3)
                ret = ndefs.enc(rr)
        ops.append({"op": kind, "octets": octets, "valid": valid, "ret": ret})
        sizes.append(len(octets) + (4 if kind == "g" else 0))
    s0 = rng.choice(sizes)
    maxacc = rng.choice([0x100000, 0x100000, s0, s0 + 1, max(0, s0 - 1), 0, 2 ** 32 + 5])
    rsizes = [len(o["ret"]) for o in ops if o["op"] == "g" and not isinstance(o["ret"], int)]
    r0 = rng.choice(rsizes) if rsizes else 10
    cacc = rng.choice([1024, 0x10000, r0, r0 + 1, max(0, r0 - 1), 0])
    return {"recv_miu": recv_miu, "force_c2s": force_c2s, "force_s2c": force_s2c, "recv_buf": rng.choice([1, 2, 15]),
            "cacc": cacc, "maxacc": maxacc, "auto": auto, "close": auto or rng.random() < 0.8, "ops": ops}


def gen_handover(ck, rng, ndefs, nreq=None):
    small = rng.random() < 0.6
    force_c2s = rng.choice([1, 2, 3, 5, 8, 13, 16, 21, 32, 50, 64]) if small else None
    recv_miu = rng.choice([128, 129, 200, 248, 1000, 1984, 2175])
    cmiu = force_c2s or recv_miu
    force_s2c = rng.choice([None, None, 1, 3, 6, 7, 16, 40, 127]) if rng.random() < 0.6 else None
    c_recv_miu = rng.choice([128, 248, 250, 500, 2175])
    smiu = force_s2c or c_recv_miu
    n = nreq or rng.choice([1, 1, 2, 2, 3])
    reqs = []
    for _ in range(n):
        while True:
            size = max(13, around(rng, cmiu, 0, 4 if cmiu < 256 else 2))
            rq = ndefs.handover_request(rng, size)
            if rq is not None:
                break
        while True:
            rs = max(6, around(rng, smiu, 0, 4 if smiu < 256 else 2))
            if smiu >= 128 and rng.random() < 0.5:
                rs = rng.randrange(6, 60)
            rp = ndefs.handover_select(rng, rs)
            if rp is not None:
                break
        reqs.append((ndefs.enc(rq), ndefs.enc(rp)))
    return {"recv_miu": recv_miu, "force_c2s": force_c2s, "force_s2c": force_s2c, "recv_buf": rng.choice([1, 2, 15]),
            "c_recv_miu": c_recv_miu, "reqs": reqs}


def sc_json(sc):
    def j(v):
        if isinstance(v, (bytes, bytearray)):
            return bytes(v).hex()
        if isinstance(v, dict):
            return {k: j(x) for k, x in v.items()}
        if isinstance(v, (list, tuple)):
            return [j(x) for x in v]
        return v
    return j(sc)


# ------------------------------------------------------------------ the check
def run(ck):
    import ndef
    from sims import snep_ndef as ndefs
    rng = ck.rng
    ck.rule = ("a case is one connection: (protocol, send MIU of each side, receive limits, list of requests with "
               "message octets and application responses), run on the real client and server code and on the model; "
               "non-trivial = at least one message was fragmented, refused or answered with a fragmented response; "
               "distinct by hash of the whole scenario")
    ck.assumptions += [
        "the data link connection is reliable, ordered and message preserving with the negotiated MIU (what C05 is about); "
        "the full stack below it (llc, tco, dep, clf) is exercised only by the thorough-tier search, not by the theorems",
        "ndeflib: message_decoder(message_encoder(records)) gives back records that encode to the same octets "
        "(asserted for every generated message); a strict decode succeeds on no proper non-empty prefix of a message "
        "(compared with the model's structural walk on every buffer state that occurs)",
        "application callbacks return a response code 0..255 / a well-formed response message",
        "the model equals the Python code outside the compared scenarios (D-tie is a sample)",
    ]
    ck.trusted += ["hand-written Lean models NfcVerif.Model.Snep / Handover / SnepChannel (state machines cut at the "
                   "blocking socket calls), tied by differential runs",
                   "harness/sims/snep_chan.py (fake link controller under real nfc.llcp.Socket, lockstep scheduler), "
                   "harness/sims/snep_ndef.py, harness/props/c06.py"]
    ck.lean("NfcVerif.Props.C06", THEOREMS)
    if ck.thorough:
        ck.leanchecker(["NfcVerif.Props.C06"])
    model = Model("drv_c06")

    # ---------------------------------------------------------- SNEP
    n_snep = 30000 if ck.thorough else 3000
    lines, reals, scs = [], [], []
    for i in range(n_snep):
        sc = gen_snep(ck, rng, ndefs)
        ob = run_snep(sc)
        if ob["cmiu"] is None:
            ck.fail("snep-connect-failed", "no connection", sc_json(sc))
            continue
        for key, what in snep_oracle(sc, ob):
            ck.fail(key, what, {"protocol": "snep", "scenario": sc_json(sc), "client_send_miu": ob["cmiu"],
                                "server_send_miu": ob["smiu"], "observed": snep_real_line(sc, ob)[:2000]})
        line, real = snep_model_line(sc, ob), snep_real_line(sc, ob)
        lines.append(line)
        reals.append(real)
        scs.append(sc)
        nfrag = len(ob["link"].log["c"]) > len(sc["ops"]) or len(ob["link"].log["s"]) > len(sc["ops"])
        refused = any(r in ("False", "None") or r.startswith("SnepError") for r in (ob["res"] or []))
        kinds = "+".join(sorted(set(o["op"] for o in sc["ops"])))
        ck.case(line, nfrag or refused, "snep:%s:%s%s" % (kinds, "frag" if nfrag else "single", ":refused" if refused else ""),
                sample={"request": line[:300], "impl": real[:300]} if len(ck.samples) < 3 else None)
    replies = model.ask_many(lines)
    dis = 0
    for line, real, rep, sc in zip(lines, reals, replies, scs):
        if norm_model_snep(rep) != real:
            dis += 1
            ck.fail("tie:snep-model-vs-code", "model %r, implementation %r" % (norm_model_snep(rep)[:400], real[:400]),
                    {"request": line[:4000], "model": rep[:4000], "impl": real[:4000]})
    ck.tie("snep client+server model vs real code on the channel double", cases=len(lines), disagreements=dis, exhaustive=False)

    # ---------------------------------------------------------- handover
    # which server is in the tree?  (finding F29: reassembly buffer never reset)
    probe_rng = __import__("random").Random(7)
    probe = gen_handover(ck, probe_rng, ndefs, nreq=2)
    pob = run_handover(probe)
    reset = 1 if pob["raw"] == [r for r, _ in probe["reqs"]] else 0
    ck.notes.append("handover server variant in the tree: %s" % ("buffer reset after each request" if reset else
                                                                 "as found (F29): buffer kept for the whole connection"))
    n_ho = 12000 if ck.thorough else 1500
    lines, reals = [], []
    prefix_reqs, prefix_real = [], []
    for i in range(n_ho):
        sc = probe if i == 0 else gen_handover(ck, rng, ndefs)
        ob = pob if i == 0 else run_handover(sc)
        for key, what in ho_oracle(sc, ob):
            ck.fail(key, what, {"protocol": "handover", "scenario": sc_json(sc), "client_send_miu": ob["cmiu"],
                                "server_send_miu": ob["smiu"], "observed": ho_real_line(ob)[:2000]})
        line = "ho %d %d %d %s" % (ob["cmiu"], ob["smiu"], reset, " ".join("%s/%s" % (hx(a), hx(b)) for a, b in sc["reqs"]))
        real = ho_real_line(ob)
        lines.append(line)
        reals.append(real)
        nfrag = len(ob["link"].log["c"]) > len(sc["reqs"]) or len(ob["link"].log["s"]) > len(sc["reqs"])
        ck.case(line, nfrag or len(sc["reqs"]) > 1, "handover:%dreq:%s" % (len(sc["reqs"]), "frag" if nfrag else "single"),
                sample={"request": line[:300], "impl": real[:300]} if len(ck.samples) < 5 else None)
        # the decoder assumption: strict decode vs the model's walk on buffer states and random cuts
        if i % 4 == 0:
            for a, b in sc["reqs"]:
                for m in (a, b):
                    cuts = set([0, 1, 2, 3, len(m) - 1, len(m)] + [rng.randrange(len(m) + 1) for _ in range(4)])
                    cuts |= set(range(ob["cmiu"], len(m), ob["cmiu"])) if ob["cmiu"] >= 8 else set()
                    for c in sorted(x for x in cuts if 0 <= x <= len(m)):
                        p = m[:c]
                        if rng.random() < 0.1:
                            p = m + a[:c]
                        try:
                            list(ndef.message_decoder(p, "strict", {}))
                            r = "true"
                        except ndef.DecodeError:
                            r = "false"
                        prefix_reqs.append("ndefc " + hx(p))
                        prefix_real.append(r)
    replies = model.ask_many(lines)
    dis = 0
    for line, real, rep in zip(lines, reals, replies):
        if rep != real:
            dis += 1
            ck.fail("tie:handover-model-vs-code", "model %r, implementation %r" % (rep[:400], real[:400]),
                    {"request": line[:4000], "model": rep[:4000], "impl": real[:4000]})
    ck.tie("handover client+server model vs real code on the channel double", cases=len(lines), disagreements=dis, exhaustive=False)
    replies = model.ask_many(prefix_reqs)
    dis = 0
    for line, real, rep in zip(prefix_reqs, prefix_real, replies):
        if rep != real:
            dis += 1
            ck.fail("tie:ndef-complete-vs-strict-decoder", "model %r, ndeflib %r" % (rep, real), {"request": line[:4000]})
    ck.tie("model `ndefComplete` vs ndef.message_decoder(strict) on prefixes", cases=len(prefix_reqs), disagreements=dis, exhaustive=False)
    ck.count("ndef-prefix-probes", len(prefix_reqs))

    # ---------------------------------------------------------- complete stack (search only)
    if ck.thorough:
        from sims import snep_stack
        snep_stack.search(ck, rng, ndefs, runs=40)
