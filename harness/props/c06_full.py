"""C06, complete stack: the real SNEP / handover applications on two real devices
(`harness/sims/snep_full.py`: ContactlessFrontend.connect -> LogicalLinkController ->
DataLinkConnection -> nfc.dep -> radio frames of an in-memory air), under deterministic
schedules that include slow consumers (the receiving application runs several link
rounds after the data arrived, and may be preempted between two socket calls).

The observation of a run has the same shape as the one of the channel double
(`c06.run_snep` / `c06.run_handover`), so the same oracle and the same model line are
used; in addition the I PDUs are reassembled from the radio frames alone and compared
with what the applications handed to / got from their sockets.
"""
import ndef
import nfc
import nfc.snep
import nfc.handover
import nfc.llcp

from common import hx, exc_name

LINK_MIUS = [128, 129, 135, 200, 248, 255, 256, 1000, 1984, 2175]


class FullLink(object):
    """the part of snep_chan.Link the oracles read"""

    def __init__(self):
        self.log = {"c": [], "s": []}
        self.oversize = []


def thread_state(th):
    """('ok', value) | ('exc', e) | ('deadlock',)"""
    if th is None:
        return None
    r = th.result
    if r is None or r[0] == "abort":
        return ("deadlock",)
    return r


def gen_link(rng):
    comm = rng.choice(["active", "active", "passive-106A", "passive-212F"])
    return {"miu_i": rng.choice(LINK_MIUS), "miu_t": rng.choice(LINK_MIUS),
            "agf_i": rng.random() < 0.5, "agf_t": rng.random() < 0.5,
            "comm": comm, "brs": rng.choice([1, 2]) if comm == "passive-212F" else rng.choice([0, 1, 2, 2]), "lri": rng.choice([0, 1, 2, 3, 3]),
            "lrt": rng.choice([0, 1, 2, 3, 3]), "client_role": rng.choice("IT")}


def gen_background(rng):
    """a second data link connection with its own traffic on the same link (gives the frame
    aggregation several I PDUs to pack): message sizes, MIU and RW of the receiving socket"""
    if rng.random() < 0.6:
        return None
    miu = rng.choice([128, 128, 300, 2175])
    return {"recv_miu": miu, "recv_buf": rng.choice([1, 2, 4, 15]),
            "sizes": [rng.choice([0, 1, 7, 50, 127, 128]) for _ in range(rng.choice([3, 8, 20]))]}


def gen_policy(rng, receiver):
    """receiver: the side ('c' | 's') that gets the long message"""
    k = rng.random()
    if k < 0.5:
        return {"kind": "slow:" + receiver, "lag": rng.choice([2, 3, 4, 6, 10]), "seed": 0, "preempt": 0.0}
    if k < 0.6:
        other = "c" if receiver == "s" else "s"
        return {"kind": "slow:" + other, "lag": rng.choice([2, 3, 6]), "seed": 0, "preempt": 0.0}
    if k < 0.92:
        return {"kind": "random", "lag": 0, "seed": rng.randrange(1 << 30), "preempt": rng.choice([0.1, 0.3, 0.6])}
    return {"kind": "prompt", "lag": 0, "seed": 0, "preempt": 0.0}


def nfrag_choice(rng, rw):
    """number of fragments with emphasis on the receive window boundary"""
    return rng.choice([1, 2, rw, rw + 1, rw + 2, rw + 2, rw + 3, 2 * rw + 2]) if rw < 8 else rng.choice([1, 2, 3, rw + 2, rw + 3])


def sized(rng, ndefs, size, builder=None):
    """a message of exactly `size` octets if that size can be built, else a near one"""
    builder = builder or ndefs.message
    for d in (0, 1, -1, 2, -2, 3, 4, 5, 6, 7, 8):
        if size + d < 0:
            continue
        r = builder(rng, size + d)
        if r is not None and (size + d > 0 or builder is ndefs.message):
            return ndefs.enc(r)
    return ndefs.enc(builder(rng, 40))


def gen_full_snep(ck, rng, ndefs):
    sc = gen_link(rng)
    srv_link = sc["miu_t"] if sc["client_role"] == "I" else sc["miu_i"]
    sc["protocol"] = "snep"
    sc["recv_miu"] = rng.choice([128, 128, 200, 248, 1000, 1984, 2175])
    sc["recv_buf"] = rng.choice([1, 1, 2, 2, 3, 4, 15])
    cmiu = min(sc["recv_miu"], srv_link)
    auto = rng.random() < 0.25
    nops = 1 if auto else rng.choice([1, 1, 2])
    ops, sizes = [], []
    long_response = False
    for _ in range(nops):
        kind = rng.choice("ppg")
        hdr = 6 if kind == "p" else 10
        nf = nfrag_choice(rng, sc["recv_buf"])
        if cmiu > 1000:
            nf = min(nf, 3)
        size = max(0, nf * cmiu - hdr + rng.randrange(-8, 9))
        if rng.random() < 0.08:
            size = rng.choice([0, 3, cmiu - hdr, cmiu - hdr + 1])
        octets = sized(rng, ndefs, size)
        if rng.random() < 0.03 and len(octets) > 3:
            octets = octets[:-1]
        try:
            list(ndef.message_decoder(octets, known_types={}))
            valid = 1
        except ndef.DecodeError:
            valid = 0
        if kind == "p":
            ret = 0x81 if rng.random() < 0.9 else rng.choice([0xC0, 0xE0, 0xC2])
        elif rng.random() < 0.1:
            ret = rng.choice([0xC0, 0xE0, 0xC2])
        else:
            # the client socket of SnepClient has MIU 128 and RW 1
            rf = rng.choice([1, 1, 2, 3, 4, 6])
            long_response = long_response or rf > 2
            ret = sized(rng, ndefs, max(3, rf * 128 - 6 + rng.randrange(-8, 9)))
        ops.append({"op": kind, "octets": octets, "valid": valid, "ret": ret})
        sizes.append(len(octets) + (4 if kind == "g" else 0))
    s0 = rng.choice(sizes)
    sc["maxacc"] = rng.choice([0x100000, 0x100000, 0x100000, s0, s0 + 1, max(0, s0 - 1), 2 ** 32 + 5])
    rsizes = [len(o["ret"]) for o in ops if o["op"] == "g" and not isinstance(o["ret"], int)]
    r0 = rng.choice(rsizes) if rsizes else 10
    sc["cacc"] = rng.choice([0x10000, 0x10000, 0x10000, r0, r0 + 1, max(0, r0 - 1)])
    sc["auto"], sc["close"], sc["ops"] = auto, auto or rng.random() < 0.8, ops
    sc["policy"] = gen_policy(rng, "c" if long_response and rng.random() < 0.6 else "s")
    sc["background"] = gen_background(rng)
    return sc


def gen_full_ho(ck, rng, ndefs):
    sc = gen_link(rng)
    srv_link = sc["miu_t"] if sc["client_role"] == "I" else sc["miu_i"]
    cli_link = sc["miu_i"] if sc["client_role"] == "I" else sc["miu_t"]
    sc["protocol"] = "ho"
    sc["recv_miu"] = rng.choice([128, 128, 200, 248, 1000, 1984])
    sc["recv_buf"] = rng.choice([1, 1, 2, 2, 3, 15])
    sc["c_recv_miu"] = rng.choice([128, 128, 248, 248, 500, 2175])
    sc["c_recv_buf"] = rng.choice([1, 2, 2, 3, 15])
    cmiu = min(sc["recv_miu"], srv_link)
    smiu = min(sc["c_recv_miu"], cli_link)
    reqs = []
    for _ in range(rng.choice([1, 1, 2])):
        nf = nfrag_choice(rng, sc["recv_buf"])
        if cmiu > 900:
            nf = min(nf, 3)
        rq = sized(rng, ndefs, max(13, nf * cmiu + rng.randrange(-8, 9)), ndefs.handover_request)
        nf = nfrag_choice(rng, sc["c_recv_buf"])
        if smiu > 900:
            nf = min(nf, 3)
        rp = sized(rng, ndefs, max(6, nf * smiu + rng.randrange(-8, 9)), ndefs.handover_select)
        reqs.append((rq, rp))
    sc["reqs"] = reqs
    sc["policy"] = gen_policy(rng, rng.choice("cs"))
    sc["background"] = gen_background(rng)
    return sc


def _stack(sc, sf):
    pol = sc["policy"]
    policy = sf.Policy(pol["kind"], lag=pol["lag"], seed=pol["seed"], preempt=pol["preempt"])
    dep = dict(brs=sc["brs"], lri=sc["lri"], lrt=sc["lrt"], acm=sc["comm"] == "active")
    opt_i = dict(miu=sc["miu_i"], agf=sc["agf_i"], sec=False, **dep)
    opt_t = dict(miu=sc["miu_t"], agf=sc["agf_t"], sec=False, **dep)
    total = sum(len(o["octets"]) + (len(o["ret"]) if not isinstance(o["ret"], int) else 0) for o in sc.get("ops", [])) \
        + sum(len(a) + len(b) for a, b in sc.get("reqs", []))
    budget = (3000 + total // 8) * (2 + pol["lag"])
    return sf.Stack(policy, opt_i, opt_t, comm=sc["comm"], seed=pol["seed"], max_steps=budget)


def quiesce(st, sf):
    """the calling application thread waits until nothing else happens any more"""
    cv = sf.SCondition(st.sched)
    with cv:
        cv.wait(1.0)


class Background(object):
    """sender on the client's device, sink on the server's device"""

    def __init__(self, sc):
        self.cfg = sc.get("background")
        self.msgs = [bytes((7 * i + k) & 255 for k in range(n)) for i, n in enumerate(self.cfg["sizes"])] if self.cfg else []
        self.got, self.sent, self.listen = [], [], None

    def startup(self, llc):
        if self.cfg:
            s = nfc.llcp.Socket(llc, nfc.llcp.DATA_LINK_CONNECTION)
            s.setsockopt(nfc.llcp.SO_RCVMIU, self.cfg["recv_miu"])
            s.setsockopt(nfc.llcp.SO_RCVBUF, self.cfg["recv_buf"])
            s.bind("urn:nfc:sn:bg")
            s.listen(backlog=1)
            self.listen = s

    def sink(self):
        try:
            s = self.listen.accept()
        except nfc.llcp.Error:
            return "no connection"
        try:
            while True:
                d = s.recv()
                if d is None:
                    return "closed"
                self.got.append(bytes(d))
        except nfc.llcp.Error as e:
            return "error %s" % e
        finally:
            s.close()

    def sender(self, llc):
        s = nfc.llcp.Socket(llc, nfc.llcp.DATA_LINK_CONNECTION)
        s.connect("urn:nfc:sn:bg")
        miu = s.getsockopt(nfc.llcp.SO_SNDMIU)
        try:
            for m in self.msgs:
                m = m[:miu]
                if not s.send(m):
                    return "send refused"
                self.sent.append(m)
            return "sent"
        finally:
            s.close()

    def spawn(self, side, llc, spawn):
        if self.cfg:
            if side == "s":
                spawn("s-bg", self.sink)
            else:
                spawn("c-bg", lambda: self.sender(llc))


def finish_observation(st, sf, sc, verdict, cs, ob):
    """add what the radio frames and the socket boundary show"""
    link = ob["link"]
    c, s = sc["client_role"], ("T" if sc["client_role"] == "I" else "I")
    conn = cs.get("conn")        # (client socket address, server socket address)
    link.log["c"] = [m for a, p, m in st.sent[c] if conn and a == conn[0]]
    link.log["s"] = [m for a, p, m in st.sent[s] if conn and a == conn[1] and p == conn[0]]
    ob["rcvd"] = {"c": [m for a, p, m in st.rcvd[c] if conn and a == conn[0]],
                  "s": [m for a, p, m in st.rcvd[s] if conn and a == conn[1] and p == conn[0]]}
    am, bad = sf.air_messages(st.air.wire)
    ob["air"] = {"c": am.get((c, conn[1], conn[0]), []) if conn else [],
                 "s": am.get((s, conn[0], conn[1]), []) if conn else []}
    ob["air_anomalies"] = bad
    # the events of the windowed model on the data connection, in the order they happened
    evs = []
    for sock, letter, dig in st.events:
        if sock is None:
            evs.append((letter, dig))
        elif sock is cs.get("ssock"):
            evs.append((letter, dig))
        elif sock is cs.get("csock"):
            evs.append((letter.upper(), dig))
    ob["events"] = evs
    ob["discarded"] = {"c": st.discards.get(id(cs.get("csock")), 0), "s": st.discards.get(id(cs.get("ssock")), 0),
                       "any": sum(st.discards.values())}
    ob["verdict"] = verdict
    ob["owed_dm"] = list(st.owed_dm)
    bg = cs.get("bg")
    ob["background"] = {"sent": list(bg.sent), "got": list(bg.got)} if bg is not None and bg.cfg else None
    ob["sched"] = {"steps": st.sched.steps, "ticks": st.sched.ticks, "timeouts": st.sched.timeouts,
                   "frames": len(st.air.wire), "maxframe": st.air.maxlen, "end": dict(st.sched.end_state)}
    ob["threads"] = {t.name: thread_state(t) for t in st.sched.threads}
    return ob


def run_full_snep(sc):
    from sims import snep_full as sf
    st = _stack(sc, sf)
    got, cur, cs = [], [None], {}
    c, s = sc["client_role"], ("T" if sc["client_role"] == "I" else "I")

    class Srv(nfc.snep.SnepServer):
        def _serve(self, client_socket):
            cs["smiu"] = client_socket.getsockopt(nfc.llcp.SO_SNDMIU)
            cs.setdefault("ssock", client_socket._tco)
            cs.setdefault("serve", []).append(st.sched.me())
            return super(Srv, self)._serve(client_socket)

        def process_put_request(self, records):
            got.append(("p", b"".join(ndef.message_encoder(records))))
            return cur[0]["ret"]

        def process_get_request(self, records):
            got.append(("g", b"".join(ndef.message_encoder(records))))
            r = cur[0]["ret"]
            return r if isinstance(r, int) else list(ndef.message_decoder(r, known_types={}))

    cs["bg"] = Background(sc)

    def startup_srv(llc):
        cs["srv"] = Srv(llc, max_acceptable_length=sc["maxacc"], recv_miu=sc["recv_miu"], recv_buf=sc["recv_buf"])
        cs["bg"].startup(llc)

    def client_app(llc):
        from props.c06 import canon_result
        cl = nfc.snep.SnepClient(llc, max_ndef_msg_recv_size=sc["cacc"])
        real_connect = cl.connect

        def connect(name):
            real_connect(name)
            cs["cmiu"] = cl.send_miu
            cs["conn"] = (cl.socket.getsockname(), cl.socket.getpeername())
            cs["csock"] = cl.socket._tco
        cl.connect = connect
        if not sc["auto"]:
            cl.connect("urn:nfc:sn:snep")
        res = []
        for op in sc["ops"]:
            cur[0] = op
            st.events.append((None, "o", ""))
            f = cl.put_octets if op["op"] == "p" else cl.get_octets
            res.append(canon_result(lambda: f(op["octets"], 1.0)))
        quiesce(st, sf)
        if sc["close"]:
            cl.close()
        return res

    def conn_srv(llc, spawn):
        cs["listen"] = spawn("s-listen", cs["srv"].run)
        cs["bg"].spawn("s", llc, spawn)

    def conn_cli(llc, spawn):
        cs["client"] = spawn("c-app", lambda: client_app(llc))
        cs["bg"].spawn("c", llc, spawn)

    verdict = st.run({s: startup_srv, c: lambda llc: None}, {s: conn_srv, c: conn_cli})
    out = {"c": thread_state(cs.get("client")),
           "s": thread_state(cs["serve"][0]) if cs.get("serve") else None}
    ob = {"link": FullLink(), "out": out, "got": got, "cmiu": cs.get("cmiu"), "smiu": cs.get("smiu"),
          "res": out["c"][1] if out["c"] and out["c"][0] == "ok" else None, "stack": st}
    return finish_observation(st, sf, sc, verdict, cs, ob)


def run_full_ho(sc):
    from sims import snep_full as sf
    st = _stack(sc, sf)
    raw, got, cur, cs = [], [], [None], {}
    c, s = sc["client_role"], ("T" if sc["client_role"] == "I" else "I")

    class Srv(nfc.handover.HandoverServer):
        def serve(self, socket):
            cs["smiu"] = socket.getsockopt(nfc.llcp.SO_SNDMIU)
            cs.setdefault("ssock", socket._tco)
            cs.setdefault("serve", []).append(st.sched.me())
            return super(Srv, self).serve(socket)

        def _process_request_data(self, octets):
            raw.append(bytes(octets))
            return super(Srv, self)._process_request_data(octets)

        def process_handover_request_message(self, records):
            got.append(b"".join(ndef.message_encoder(records)))
            return list(ndef.message_decoder(cur[0][1], "relax"))

    cs["bg"] = Background(sc)

    def startup_srv(llc):
        cs["srv"] = Srv(llc, recv_miu=sc["recv_miu"], recv_buf=sc["recv_buf"])
        cs["bg"].startup(llc)

    def client_app(llc):
        from props.c06 import canon_result
        cl = nfc.handover.HandoverClient(llc)
        cl.connect(recv_miu=sc["c_recv_miu"], recv_buf=sc["c_recv_buf"])
        cs["cmiu"] = cl.socket.getsockopt(nfc.llcp.SO_SNDMIU)
        cs["conn"] = (cl.socket.getsockname(), cl.socket.getpeername())
        cs["csock"] = cl.socket._tco
        res = []
        for rq in sc["reqs"]:
            cur[0] = rq
            st.events.append((None, "o", ""))

            def one():
                if not cl.send_octets(rq[0]):
                    return False
                return cl.recv_octets(1.0)
            res.append(canon_result(one))
        quiesce(st, sf)
        cl.close()
        return res

    def conn_srv(llc, spawn):
        cs["listen"] = spawn("s-listen", cs["srv"].run)
        cs["bg"].spawn("s", llc, spawn)

    def conn_cli(llc, spawn):
        cs["client"] = spawn("c-app", lambda: client_app(llc))
        cs["bg"].spawn("c", llc, spawn)

    verdict = st.run({s: startup_srv, c: lambda llc: None}, {s: conn_srv, c: conn_cli})
    out = {"c": thread_state(cs.get("client")),
           "s": thread_state(cs["serve"][0]) if cs.get("serve") else None}
    ob = {"link": FullLink(), "out": out, "raw": raw, "got": got, "cmiu": cs.get("cmiu"), "smiu": cs.get("smiu"),
          "res": out["c"][1] if out["c"] and out["c"][0] == "ok" else None, "stack": st}
    return finish_observation(st, sf, sc, verdict, cs, ob)


OWED_DM_KEY = "llcp-close-drops-dm-owed-to-peer"


def owed_dm_failure(ob):
    """a close() in CLOSE_WAIT discarded the DM that answers the peer's DISC (findings/C06.json): the peer's close()
    then blocks until the link goes down; everything else that goes wrong in such a run follows from it"""
    if ob.get("owed_dm"):
        return (OWED_DM_KEY, "close() of socket(s) (local SAP, peer SAP) %s discarded the DM answering the peer's DISC before the link "
                "thread had sent it; the peer's close() waits for it until the link goes down" % (ob["owed_dm"],))
    return None


def is_prefix(a, b):
    return len(a) <= len(b) and list(b[:len(a)]) == list(a)


def stack_oracle(sc, ob):
    """what must hold below the application whatever it does: [(key, what)]"""
    bad = []
    if ob["verdict"] != "ok":
        bad.append(("fullstack-run-does-not-end", "the run used up its step budget (%d steps, %d radio frames)"
                    % (ob["sched"]["steps"], ob["sched"]["frames"])))
    for name, r in sorted(ob["threads"].items()):
        if r is None or r[0] == "deadlock":
            bad.append(("fullstack-thread-blocked-for-ever", "thread %s never finished (%s)" % (name, ob["sched"]["end"].get(name))))
        elif r[0] == "exc":
            bad.append(("fullstack-thread-exception", "thread %s ended with %s: %s" % (name, exc_name(r[1]), r[1])))
    if ob["air_anomalies"]:
        bad.append(("fullstack-radio-frame-malformed", "; ".join(sorted(set(ob["air_anomalies"]))[:3])))
    if ob["discarded"]["any"]:
        bad.append(("fullstack-i-pdu-discarded-receive-queue-full",
                    "TransmissionControlObject.enqueue discarded %d I PDU(s) of the client socket and %d of the server socket "
                    "(receive window %s / %s): the peer was allowed to send more than the receive queue holds"
                    % (ob["discarded"]["c"], ob["discarded"]["s"], sc.get("c_recv_buf", 1), sc["recv_buf"])))
    bg = ob.get("background")
    if bg is not None and bg["got"] != bg["sent"]:
        bad.append(("fullstack-background-connection-not-intact", "a second data link connection on the same link carried %d "
                    "messages, its receiver got %d (sizes %s / %s)" % (len(bg["sent"]), len(bg["got"]),
                                                                      [len(x) for x in bg["sent"]][:24], [len(x) for x in bg["got"]][:24])))
    for side, peer in (("c", "s"), ("s", "c")):
        sent = ob["link"].log[side]
        air = [d for ns, nr, d in ob["air"][side]]
        rcvd = ob["rcvd"][peer]
        seq = [ns for ns, nr, d in ob["air"][side]]
        if seq != [i % 16 for i in range(len(seq))]:
            bad.append(("fullstack-send-sequence-broken", "N(S) of the I PDUs sent by %s on the air: %s" % (side, seq[:40])))
        if not is_prefix(air, sent):
            bad.append(("fullstack-air-differs-from-sent", "%s handed %d messages to its socket, the radio frames carry %d I PDUs "
                        "that are no prefix of them (sizes %s / %s)" % (side, len(sent), len(air), [len(x) for x in sent][:20],
                                                                       [len(x) for x in air][:20])))
        if not is_prefix(rcvd, air):
            k = 0
            while k < len(rcvd) and k < len(air) and rcvd[k] == air[k]:
                k += 1
            bad.append(("fullstack-fragment-lost-or-changed-at-receiver",
                        "the application of side %s got %d messages from its socket that are no prefix of the %d I PDUs "
                        "sent to it on the air (first difference at message %d; receive window %s)"
                        % (peer, len(rcvd), len(air), k, sc["recv_buf"] if peer == "s" else sc.get("c_recv_buf", 1))))
    return bad


def describe(sc):
    d = dict((k, v) for k, v in sc.items() if k not in ("ops", "reqs"))
    return d


# ------------------------------------------------------------------ client OBJECTS over their life time
ALT_SERVICE = "urn:nfc:sn:c06alt"
SERVICES = ["urn:nfc:sn:snep", ALT_SERVICE]


def expect_request(op, cmiu, maxacc, cacc):
    """(result the client must see, delivered to the application?) for one request on a connection with send MIU
    `cmiu` to a service with limit `maxacc`"""
    o = op["octets"]
    lim = min(maxacc, 0xFFFFFFFF)
    if op["op"] == "p":
        if len(o) > lim:
            return ("False" if 6 + len(o) > cmiu else "SnepError(255)"), False
        if not op["valid"]:
            return "SnepError(194)", False
        return ("True" if op["ret"] == 0x81 else "SnepError(%d)" % op["ret"]), True
    if 4 + len(o) > lim:
        return ("None" if 10 + len(o) > cmiu else "SnepError(255)"), False
    if not op["valid"]:
        return "SnepError(194)", False
    r = op["ret"]
    if isinstance(r, int):
        return "SnepError(%d)" % r, True
    return ("SnepError(193)" if len(r) > cacc else "data:" + hx(r)), True


def gen_hist_snep(ck, rng, ndefs):
    sc = gen_link(rng)
    sc["protocol"] = "snep-history"
    srv_link = sc["miu_t"] if sc["client_role"] == "I" else sc["miu_i"]
    sc["services"] = [{"recv_miu": rng.choice([128, 128, 200, 248]), "recv_buf": rng.choice([1, 2, 15]),
                       "maxacc": rng.choice([0x100000, 0x100000, 300, 150])} for _ in SERVICES]
    if rng.random() < 0.7:      # the two services differ in what the client must not carry over: MIU and limit
        sc["services"][1]["recv_miu"] = rng.choice([m for m in (128, 200, 248) if m != sc["services"][0]["recv_miu"]])
    for s in sc["services"]:
        s["cmiu"] = min(s["recv_miu"], srv_link)
    sc["cacc"] = rng.choice([0x10000, 0x10000, 140, 100])
    # histories: a walk over {temporary request, connect, request, close} that starts with one of the patterns
    # in which state of the object could leak from one phase into the next
    start = rng.choice([["r"], ["r", "c1", "r", "r"], ["c1", "r", "x", "r", "r"], ["c0", "r", "c1", "r"], ["r", "r", "c1", "r", "r", "x", "r"],
                        ["c1", "c0", "r"], ["x", "r"], []])
    toks = list(start)
    for _ in range(rng.randrange(0, 5)):
        toks.append(rng.choice(["r", "r", "r", "c0", "c1", "c1", "x"]))
    ops = []
    for t in toks:
        if t == "r":
            kind = rng.choice("ppgg")
            size = rng.choice([3, 20, 100, 118, 122, 123, 140, 160, 250])
            octets = sized(rng, ndefs, size)
            if kind == "p":
                ret = 0x81 if rng.random() < 0.9 else 0xC0
            elif rng.random() < 0.15:
                ret = 0xC0
            else:
                ret = sized(rng, ndefs, rng.choice([3, 60, 122, 123, 130, 200]))
            ops.append({"op": kind, "octets": octets, "valid": 1, "ret": ret})
        elif t == "x":
            ops.append({"op": "x"})
        else:
            ops.append({"op": "c", "svc": int(t[1])})
    sc["ops"] = ops
    k = rng.random()
    sc["policy"] = {"kind": "prompt", "lag": 0, "seed": 0, "preempt": 0.0} if k < 0.5 else \
        {"kind": "random", "lag": 0, "seed": rng.randrange(1 << 30), "preempt": 0.3} if k < 0.8 else \
        {"kind": "slow:" + rng.choice("cs"), "lag": rng.choice([2, 3]), "seed": 0, "preempt": 0.0}
    sc["background"] = None
    return sc


def _hist_stack(sc, sf):
    pol = sc["policy"]
    policy = sf.Policy(pol["kind"], lag=pol["lag"], seed=pol["seed"], preempt=pol["preempt"])
    dep = dict(brs=sc["brs"], lri=sc["lri"], lrt=sc["lrt"], acm=sc["comm"] == "active")
    opt_i = dict(miu=sc["miu_i"], agf=sc["agf_i"], sec=False, **dep)
    opt_t = dict(miu=sc["miu_t"], agf=sc["agf_t"], sec=False, **dep)
    return sf.Stack(policy, opt_i, opt_t, comm=sc["comm"], seed=pol["seed"], max_steps=(4000 + 1500 * len(sc["ops"])) * (2 + pol["lag"]))


def run_hist_snep(sc):
    """one SnepClient object, two SNEP services on the peer; returns (model line, observation line, observation)"""
    from sims import snep_full as sf
    from props.c06 import canon_result
    st = _hist_stack(sc, sf)
    got, cur, cs = [], [None], {"servers": []}
    c, s = sc["client_role"], ("T" if sc["client_role"] == "I" else "I")

    def mk_server(k):
        class Srv(nfc.snep.SnepServer):
            def process_put_request(self, records):
                got.append((k, "p", b"".join(ndef.message_encoder(records))))
                return cur[0]["ret"]

            def process_get_request(self, records):
                got.append((k, "g", b"".join(ndef.message_encoder(records))))
                r = cur[0]["ret"]
                return r if isinstance(r, int) else list(ndef.message_decoder(r, known_types={}))
        return Srv

    def startup_srv(llc):
        for k, name in enumerate(SERVICES):
            cfg = sc["services"][k]
            cs["servers"].append(mk_server(k)(llc, service_name=name, max_acceptable_length=cfg["maxacc"],
                                              recv_miu=cfg["recv_miu"], recv_buf=cfg["recv_buf"]))

    log = {"res": [], "sock": [], "sent": [], "opened": [], "closed": [], "cmiu": {}}

    def client_app(llc):
        cl = nfc.snep.SnepClient(llc, max_ndef_msg_recv_size=sc["cacc"])
        real_connect, real_close = cl.connect, cl.close
        now = [None]

        def connect(name):
            real_connect(name)
            now[0] = SERVICES.index(name)
            log["opened"].append(now[0])
            log["cmiu"][now[0]] = cl.send_miu

        def close():
            if cl.socket:
                log["closed"].append(now[0])
            real_close()
        cl.connect, cl.close = connect, close
        for op in sc["ops"]:
            if op["op"] == "c":
                log["res"].append(canon_result(lambda: cl.connect(SERVICES[op["svc"]])).replace("None", "ok"))
            elif op["op"] == "x":
                log["res"].append(canon_result(cl.close).replace("None", "ok"))
            else:
                cur[0] = op
                f = cl.put_octets if op["op"] == "p" else cl.get_octets
                log["res"].append(canon_result(lambda: f(op["octets"], 1.0)))
            log["sock"].append(str(now[0]) if cl.socket else "-")
            log["sent"].append(len(st.sent[c]))        # messages handed to the client's sockets so far
        snapshot = (list(log["opened"]), list(log["closed"]))
        quiesce(st, sf)
        real_close()
        return snapshot

    def conn_srv(llc, spawn):
        for k, srv in enumerate(cs["servers"]):
            spawn("s-listen%d" % k, srv.run)

    def conn_cli(llc, spawn):
        cs["client"] = spawn("c-app", lambda: client_app(llc))

    verdict = st.run({s: startup_srv, c: lambda llc: None}, {s: conn_srv, c: conn_cli})
    r = thread_state(cs.get("client"))
    opened, closed = r[1] if r and r[0] == "ok" else (log["opened"], log["closed"])
    n = len(log["res"])
    real = "res=%s dl=%s sock=%s opened=%s closed=%s" % (
        ",".join(log["res"]) + ("" if n == len(sc["ops"]) else ",client:%s" % (r[0] if r else None)),
        ",".join("%d:%s:%s" % (k, kind, hx(o)) for k, kind, o in got) or ".",
        ",".join("%s/%d" % (a, b) for a, b in zip(log["sock"], log["sent"])),
        ",".join(map(str, opened)) or ".", ",".join(map(str, closed)) or ".")
    toks = []
    for op in sc["ops"]:
        if op["op"] == "c":
            toks.append("c%d" % op["svc"])
        elif op["op"] == "x":
            toks.append("x")
        elif op["op"] == "p":
            toks.append("p/%s/%d/%d" % (hx(op["octets"]), op["valid"], op["ret"]))
        elif isinstance(op["ret"], int):
            toks.append("g/%s/%d/c%d" % (hx(op["octets"]), op["valid"], op["ret"]))
        else:
            toks.append("g/%s/%d/d%s" % (hx(op["octets"]), op["valid"], hx(op["ret"])))
    svcs = ",".join("%d:%d:%d" % (log["cmiu"].get(k, sc["services"][k]["cmiu"]), 128, sc["services"][k]["maxacc"])
                    for k in range(len(SERVICES)))
    line = "hist %d 0 %s %s" % (sc["cacc"], svcs, " ".join(toks) if toks else "x")
    if not toks:
        real = "res=ok dl=. sock=-/0 opened=. closed=."
    ob = {"verdict": verdict, "got": got, "log": log, "opened": opened, "closed": closed, "client": r,
          "threads": {t.name: thread_state(t) for t in st.sched.threads},
          "sched": {"steps": st.sched.steps, "ticks": st.sched.ticks, "frames": len(st.air.wire), "end": dict(st.sched.end_state)},
          "discarded": sum(st.discards.values()), "owed_dm": list(st.owed_dm)}
    return line, real, ob


def hist_snep_oracle(sc, ob):
    """every message is delivered exactly once to the application of the service the client was connected to at
    that time (the default service for a temporary connection); connections are released exactly when temporary"""
    bad = []
    if ob["verdict"] != "ok":
        bad.append(("fullstack-run-does-not-end", "step budget used up (%d steps)" % ob["sched"]["steps"]))
    for name, r in sorted(ob["threads"].items()):
        if r is None or r[0] == "deadlock":
            bad.append(("fullstack-thread-blocked-for-ever", "thread %s never finished (%s)" % (name, ob["sched"]["end"].get(name))))
        elif r[0] == "exc":
            bad.append(("fullstack-thread-exception", "thread %s ended with %s: %s" % (name, exc_name(r[1]), r[1])))
    if ob["discarded"]:
        bad.append(("fullstack-i-pdu-discarded-receive-queue-full", "%d I PDU(s) discarded" % ob["discarded"]))
    cur, want_dl, want_sock, want_open, want_closed, want_res = None, [], [], [], [], []
    for op in sc["ops"]:
        if op["op"] == "c":
            if cur is not None:
                want_closed.append(cur)
            cur = op["svc"]
            want_open.append(cur)
            want_res.append("ok")
        elif op["op"] == "x":
            if cur is not None:
                want_closed.append(cur)
            cur = None
            want_res.append("ok")
        else:
            k = cur if cur is not None else 0
            if cur is None:
                want_open.append(0)
                want_closed.append(0)
            res, delivered = expect_request(op, sc["services"][k]["cmiu"], sc["services"][k]["maxacc"], sc["cacc"])
            want_res.append(res)
            if delivered:
                want_dl.append((k, op["op"], op["octets"]))
        want_sock.append("-" if cur is None else str(cur))
    got = [(k, kind, bytes(o)) for k, kind, o in ob["got"]]
    if got != want_dl:
        if sorted((kind, o) for k, kind, o in got) == sorted((kind, o) for k, kind, o in want_dl):
            key = "snep-history-delivered-to-wrong-service"
        else:
            key = "snep-history-message-not-delivered-exactly-once"
        bad.append((key, "applications saw (service, kind, size) %s, the history asks for %s"
                    % ([(k, kind, len(o)) for k, kind, o in got], [(k, kind, len(o)) for k, kind, o in want_dl])))
    if ob["log"]["sock"] != want_sock or list(ob["opened"]) != want_open or list(ob["closed"]) != want_closed:
        bad.append(("snep-history-connection-released-wrongly",
                    "socket after each call %s (expected %s); connections opened %s (expected %s), closed %s (expected %s)"
                    % (ob["log"]["sock"], want_sock, list(ob["opened"]), want_open, list(ob["closed"]), want_closed)))
    if ob["log"]["res"] != want_res and got == want_dl:
        bad.append(("snep-history-result", "results %s, expected %s" % ([r[:30] for r in ob["log"]["res"]], [r[:30] for r in want_res])))
    return bad


def gen_hist_ho(ck, rng, ndefs):
    sc = gen_link(rng)
    sc["protocol"] = "handover-history"
    sc["recv_miu"] = rng.choice([128, 200, 248])
    sc["recv_buf"] = rng.choice([1, 2, 15])
    sc["c_recv_miu"] = rng.choice([128, 248])
    sc["c_recv_buf"] = rng.choice([1, 2])
    start = rng.choice([["c", "r"], ["c", "r", "x", "c", "r", "r"], ["c", "c", "r"], ["c", "r", "r", "x", "r"], ["r"], ["c", "x", "c", "r"]])
    toks = list(start) + [rng.choice(["r", "r", "c", "x"]) for _ in range(rng.randrange(0, 4))]
    ops = []
    for t in toks:
        if t == "r":
            rq = sized(rng, ndefs, rng.choice([20, 100, 128, 129, 250, 300]), ndefs.handover_request)
            rp = sized(rng, ndefs, rng.choice([10, 100, 128, 200, 260]), ndefs.handover_select)
            ops.append({"op": "r", "req": rq, "rsp": rp})
        else:
            ops.append({"op": t})
    sc["ops"] = ops
    sc["policy"] = {"kind": "prompt", "lag": 0, "seed": 0, "preempt": 0.0} if rng.random() < 0.6 else \
        {"kind": "random", "lag": 0, "seed": rng.randrange(1 << 30), "preempt": 0.3}
    sc["background"] = None
    return sc


def run_hist_ho(sc, reset):
    from sims import snep_full as sf
    from props.c06 import canon_result
    st = _hist_stack(sc, sf)
    raw, cur, cs = [], [None], {}
    c, s = sc["client_role"], ("T" if sc["client_role"] == "I" else "I")

    class Srv(nfc.handover.HandoverServer):
        def _process_request_data(self, octets):
            raw.append(bytes(octets))
            return super(Srv, self)._process_request_data(octets)

        def process_handover_request_message(self, records):
            return list(ndef.message_decoder(cur[0]["rsp"], "relax"))

    def startup_srv(llc):
        cs["srv"] = Srv(llc, recv_miu=sc["recv_miu"], recv_buf=sc["recv_buf"])

    log = {"res": [], "opened": 0, "orphaned": 0, "cmiu": None, "smiu": None}

    def client_app(llc):
        cl = nfc.handover.HandoverClient(llc)
        for op in sc["ops"]:
            if op["op"] == "c":
                had = cl.socket is not None

                def conn():
                    cl.connect(recv_miu=sc["c_recv_miu"], recv_buf=sc["c_recv_buf"])
                r = canon_result(conn).replace("None", "ok")
                if r == "ok":
                    log["opened"] += 1
                    log["orphaned"] += 1 if had else 0
                    log["cmiu"] = cl.socket.getsockopt(nfc.llcp.SO_SNDMIU)
                log["res"].append(r)
            elif op["op"] == "x":
                log["res"].append(canon_result(cl.close).replace("None", "ok"))
            else:
                cur[0] = op

                def one():
                    if not cl.send_octets(op["req"]):
                        return False
                    return cl.recv_octets(1.0)
                log["res"].append(canon_result(one))
        quiesce(st, sf)
        cl.close()
        return "done"

    def conn_srv(llc, spawn):
        spawn("s-listen", cs["srv"].run)

    def conn_cli(llc, spawn):
        cs["client"] = spawn("c-app", lambda: client_app(llc))

    verdict = st.run({s: startup_srv, c: lambda llc: None}, {s: conn_srv, c: conn_cli})
    srv_link = sc["miu_t"] if sc["client_role"] == "I" else sc["miu_i"]
    cli_link = sc["miu_i"] if sc["client_role"] == "I" else sc["miu_t"]
    cmiu = log["cmiu"] or min(sc["recv_miu"], srv_link)
    smiu = min(sc["c_recv_miu"], cli_link)
    r = thread_state(cs.get("client"))
    real = "res=%s dl=%s opened=%d orphaned=%d" % (",".join(log["res"]) + ("" if len(log["res"]) == len(sc["ops"]) else ",client:%s" % (r[0] if r else None)),
                                                   ",".join(hx(x) for x in raw) or ".", log["opened"], log["orphaned"])
    line = "hohist %d %d %d %s" % (cmiu, smiu, reset, " ".join(
        "c" if o["op"] == "c" else "x" if o["op"] == "x" else "%s/%s" % (hx(o["req"]), hx(o["rsp"])) for o in sc["ops"]))
    ob = {"verdict": verdict, "raw": raw, "log": log, "threads": {t.name: thread_state(t) for t in st.sched.threads},
          "sched": {"steps": st.sched.steps, "end": dict(st.sched.end_state)}, "discarded": sum(st.discards.values()),
          "owed_dm": list(st.owed_dm)}
    return line, real, ob


def hist_ho_oracle(sc, ob):
    bad = []
    if ob["verdict"] != "ok":
        bad.append(("fullstack-run-does-not-end", "step budget used up (%d steps)" % ob["sched"]["steps"]))
    for name, r in sorted(ob["threads"].items()):
        if r is None or r[0] == "deadlock":
            bad.append(("fullstack-thread-blocked-for-ever", "thread %s never finished (%s)" % (name, ob["sched"]["end"].get(name))))
        elif r[0] == "exc":
            bad.append(("fullstack-thread-exception", "thread %s ended with %s: %s" % (name, exc_name(r[1]), r[1])))
    if ob["discarded"]:
        bad.append(("fullstack-i-pdu-discarded-receive-queue-full", "%d I PDU(s) discarded" % ob["discarded"]))
    conn, want_dl, want_res = False, [], []
    for op in sc["ops"]:
        if op["op"] == "c":
            conn = True
            want_res.append("ok")
        elif op["op"] == "x":
            conn = False
            want_res.append("ok")
        elif conn:
            want_dl.append(op["req"])
            want_res.append("data:" + hx(op["rsp"]))
        else:
            want_res.append("exc:AttributeError")
    if ob["raw"] != want_dl:
        bad.append(("handover-history-request-not-delivered-exactly-once", "server application saw requests of %s octets, the history asks for %s"
                    % ([len(x) for x in ob["raw"]], [len(x) for x in want_dl])))
    elif ob["log"]["res"] != want_res:
        bad.append(("handover-history-result", "results %s, expected %s" % ([r[:30] for r in ob["log"]["res"]], [r[:30] for r in want_res])))
    return bad
