"""C01 - NDEF write then read round-trips (Type 1 and Type 2 Tag part; plug-in parts: c01_t34 = Type 3/4 and
the emulated Type 3 Tag, c01_hist = assignments through one tag object with communication faults in between
(all tag types, memory reader cache inside the model), c01_vendor = NXP Type 2 product classes).

L1: theorems of NfcVerif.Props.C01 about the executable model NfcVerif.Model.Tlv
    (round trip for every well-formed image and every message up to the capacity,
    capacity soundness, write-back reproduces the image, oversize rejected with no command).
L2: the model driver drv_t12 and the real nfcpy code (nfc.tag.activate, tag.ndef,
    tag.ndef.octets = ...) run on the same tag memory images and messages; compared are the
    NDEF TLV offset, capacity, flags, skip set, the message read, the outcome of the write,
    the exact ordered list of write commands and what a fresh activation reads afterwards.
L3: on the real code alone: write -> fresh activation -> same octets; capacity fits the
    layout; oversize -> ValueError before any command.
"""
import logging
import os

from common import Model

logging.disable(logging.CRITICAL)

LEAN_TARGETS = ["NfcVerif.Props.C01", "drv_t12"]
PARTS = [p for p in ("t34", "hist", "vendor")
         if os.path.exists(os.path.join(os.path.dirname(os.path.abspath(__file__)), "c01_%s.py" % p))]

THEOREMS = [
    "NfcVerif.C01.t2_roundtrip",
    "NfcVerif.C01.t1_roundtrip",
    "NfcVerif.C01.t12_roundtrip",
    "NfcVerif.C01.t12_capacity_sound",
    "NfcVerif.C01.t12_apply_diff",
    "NfcVerif.C01.t12_write_reaches_tag",
    "NfcVerif.C01.setOctets_oversize_no_command",
]


def lengths(rng, cap, thorough):
    base = list(range(0, 9)) + [253, 254, 255, 256, cap - 1, cap, cap + 1]
    base += [rng.randrange(0, max(1, cap + 2)) for _ in range(6 if thorough else 2)]
    out = sorted(set(n for n in base if 0 <= n <= cap + 1))
    if cap < 0:
        out = [0, 1]
    return out


def run(ck):
    from sims.t12_run import Run, layout_with_old, hdr
    rng = ck.rng
    ck.rule = ("case = (tag kind t2|t1s|t1d, tag memory image, message); layouts from sims/t12_tags.gen_layout "
               "(data area size, 0-3 lock/memory control TLVs reserving ranges before/inside/right after/beyond "
               "the message, 0-7 NULL TLVs = every alignment of the NDEF TLV in the write unit, lock bit counts that are not multiples of 8, "
               "boundary layouts with exactly 2..5 / 253..261 free bytes behind the NDEF TLV, random previous "
               "contents, previous message in 1- or 3-byte length format); lengths {0..8,253..256,cap-1,cap,cap+1} "
               "+ random; non-trivial = the write was attempted on a tag that has NDEF (not the `none` outcome); "
               "distinct by hash of (kind, memory, message)")
    ck.assumptions += [
        "the tag is plain memory: it stores what is written and returns what is stored; one write command "
        "(Type 2 WRITE page, Type 1 WRITE-E byte / WRITE-E8 block) is atomic",
        "well-formed layout = explicit predicate NfcVerif.Tlv.WF: valid capability container, data area inside the "
        "physical memory, the TLVs in front of the NDEF TLV are read from addresses in front of it, no reserved "
        "byte on the NDEF TLV's tag and length field",
        "the model equals the Python functions outside the compared inputs (the tie is a sample)",
        "Type 1: header ROM byte HR0 = 1xh (NDEF capable); static tags (HR0 = 11h) have 120 byte",
    ]
    ck.trusted += ["hand-written Lean model NfcVerif.Model.Tlv tied to tt1.py/tt2.py/tag/__init__.py by differential runs",
                   "harness/sims/t12_tags.py (tag simulators), harness/sims/t12_run.py, harness/props/c01.py"]
    ck.lean("NfcVerif.Props.C01", THEOREMS)
    if ck.thorough:
        ck.leanchecker(["NfcVerif.Props.C01"])
    model = Model("drv_t12")

    nlay = 3000 if ck.thorough else 250
    runs = []
    from sims.t12_run import BOUNDARY_FREE
    # boundary layouts: exactly 2..5 and 253..261 non-reserved bytes from the NDEF TLV to the end of the data
    # area (both sides of every capacity / length-format threshold), for page- and block-written tags
    targets = [(k, t) for t in BOUNDARY_FREE for k in ("t2", "t1d") if not (k == "t1d" and t < 10)]
    targets = targets * (6 if ck.thorough else 2)
    for i in range(nlay + len(targets)):
        if i >= nlay:
            kind, tf = targets[i - nlay]
            lay = layout_with_old(rng, kind, False, [0, 5, 254, lambda f: f - 4], target_free=tf)
            ck.count("boundary layouts (free bytes 2..5, 253..261)")
        else:
            kind = ("t2", "t2", "t1d", "t1s")[i % 4]
            big = ck.thorough and rng.random() < 0.15
            lay = layout_with_old(rng, kind, big, [0, 0, 5, 200, 254, 255, 300, lambda f: f - 2, lambda f: f - 4])
        # capacity of this layout as reported by the real code (needed to pick the boundary lengths)
        from sims.t12_run import read_line
        from sims.t12_tags import make_sim
        try:
            line, _, nd = read_line(kind, make_sim(lay))
            cap = nd.capacity if nd is not None else 0
        except Exception as e:  # noqa  (activation itself raised: a failing input, not a harness crash)
            from common import exc_name
            ck.fail("t12-activation-raises", "%s: nfc.tag.activate / tag.ndef raised %s" % (kind, exc_name(e)),
                    {"kind": kind, "memory": bytes(lay["mem"]).hex()})
            continue
        if not isinstance(cap, int):
            ck.fail("t12-capacity-not-a-number", "%s: capacity is %r" % (kind, cap), {"kind": kind, "memory": bytes(lay["mem"]).hex()})
            continue
        sweep = ck.thorough and i % 25 == 0 and cap <= 300
        if sweep:
            ck.count("layouts with every length 0..capacity+1")
        for n in (range(0, cap + 2) if sweep else lengths(rng, cap, ck.thorough)):
            if n >= 255 and not lay["hdr3"]:
                # the 3-byte length field falls on a reserved byte: the round trip still holds (theorem needs
                # no hypothesis for it); such inputs are outside the quantifier of C03
                ck.count("3-byte length field over a reserved byte (round trip checked; outside the quantifier of C03)")
            data = bytes(rng.randrange(256) for _ in range(n))
            if rng.random() < 0.1:
                data = bytes([rng.choice([0, 0xFF, 0xFE, 0x03])]) * n
            try:
                r = Run(lay, data)
            except Exception as e:  # noqa
                from common import exc_name
                ck.fail("t12-activation-raises", "%s: activation / fresh read raised %s" % (kind, exc_name(e)),
                        {"kind": kind, "memory": bytes(lay["mem"]).hex(), "data": data.hex()})
                continue
            runs.append(r)
            free = lay["free"]
            bucket = "%s:%s" % (kind, "none" if r.nd is None else
                                "empty" if n == 0 else "oversize" if n > cap else "len3" if n >= 255 else "len1")
            ck.case((kind, r.base, data), r.nd is not None, bucket,
                    sample={"request": r.request()[:160] + "...", "impl": r.line[:200]} if (n == 3 and i < 4) else None)
            # ------------------------------------------------------------ L3 oracle
            if r.nd is None:
                ck.fail("t12-wellformed-layout-not-read", "%s: fresh activation of a well-formed layout reads %s"
                        % (kind, r.before), r.replay())
                continue
            if r.off != lay["off"]:
                ck.fail("t12-ndef-offset-wrong", "%s: NDEF TLV at %d, reader says %d" % (kind, lay["off"], r.off), r.replay())
            if r.old != lay["old"]:
                ck.fail("t12-read-differs", "%s: stored message %s read as %s" % (kind, lay["old"].hex(), r.old.hex()), r.replay())
            if cap >= 0 and cap + hdr(cap) > free:
                ck.fail("t12-capacity-exceeds-layout", "%s: capacity %d needs %d bytes, layout has %d free"
                        % (kind, cap, cap + hdr(cap), free), r.replay())
            if n > cap:
                if r.wrote != "exc ValueError" or r.ncmd_write != 0 or r.final != r.base:
                    ck.fail("t12-oversize-not-rejected", "%s: %d bytes > capacity %d: outcome %s after %d commands"
                            % (kind, n, cap, r.wrote, r.ncmd_write), r.replay())
                continue
            if r.wrote != "ok":
                if r.wrote == "exc UnboundLocalError" and n == 0:
                    key = "t2-empty-write-unbound" if kind == "t2" else "t1-empty-write-unbound"
                else:
                    key = "t12-write-raises"
                ck.fail(key, "%s: writing %d bytes (capacity %d) raised %s" % (kind, n, cap, r.wrote[4:]), r.replay())
                continue
            if r.readback != data:
                ck.fail("t12-roundtrip-mismatch", "%s: wrote %d bytes, fresh activation reads %s"
                        % (kind, n, "None" if r.readback is None else "%d bytes" % len(r.readback)), r.replay())
            elif r.readback_cap != cap:
                ck.fail("t12-capacity-changed", "%s: capacity %d before, %d after the write" % (kind, cap, r.readback_cap), r.replay())

    replies = model.ask_many([r.request() for r in runs])
    dis = 0
    for r, rep in zip(runs, replies):
        if rep != r.line:
            dis += 1
            ck.fail("tie:t12-write-model-vs-nfcpy", "model %r, implementation %r" % (rep[:300], r.line[:300]),
                    dict(r.replay(), model=rep, impl=r.line))
    ck.tie("Tlv model vs tt1/tt2 NDEF read+write (offset, capacity, flags, skip set, commands, read-back)",
           cases=len(runs), disagreements=dis, exhaustive=False)
    # how many of the generated cases satisfy the hypotheses of the theorems (decided by the model itself)
    wf = model.ask_many(["wf %s %s %d" % (r.kind, r.request().split(" ")[2], len(r.data)) for r in runs])
    nwf = sum(1 for x in wf if x == "1")
    ck.count("theorem hypotheses (WF, Hdr3) hold", nwf)
    ck.count("theorem hypotheses do not hold", len(wf) - nwf)
    for r, x in zip(runs, wf):
        if x != "1" and r.nd is not None and (len(r.data) < 255 or r.lay["hdr3"]):  # Hdr3 is only needed by C03
            ck.fail("tie:t12-generated-layout-not-WF", "the generator calls this layout well-formed, the Lean predicate "
                    "WF does not", r.replay())
            break
