"""C14 - host-link frames and ISO 14443 CRCs.

L1: theorems of NfcVerif.Props.C14 (frame builders produce valid frames for
    every payload, acceptance implies validity under the independent frame
    reading, acceptance never raises an internal exception, the CRC bit loop
    equals the ISO/IEC 14443-3 Annex B byte update for every message).
L2: the Lean functions are compared with the real drivers: bytes written by
    Chipset.command() / ccid_xfr_block() / rcs380.Frame for every command code
    class and payload length, outcome of command() on valid, mutated,
    truncated and extended response frames, CRC helpers on short and random
    messages.
L3: an independent Python frame validator and an independent CRC
    (binascii.crc_hqx on bit-reversed data) judge the real code directly.
"""
import binascii
import logging
import struct

from common import Model, hx, exc_name

logging.disable(logging.CRITICAL)

LEAN_TARGETS = ["NfcVerif.Props.C14", "drv_c14", "NfcVerif.Props.TablesFrame"]
PARTS = ["crcuse"]   # use sites of the CRC helpers in the drivers (harness/props/c14_crcuse.py)

THEOREMS = [
    "NfcVerif.C14.pn53x_build_valid",
    "NfcVerif.C14.pn53x_accept_sound",
    "NfcVerif.C14.pn53x_accept_complete",
    "NfcVerif.C14.pn53x_accept_documented",
    "NfcVerif.C14.acr122_build_valid",
    "NfcVerif.C14.acr122_accept_sound",
    "NfcVerif.C14.acr122_accept_documented",
    "NfcVerif.C14.rcs380_build_valid",
    "NfcVerif.C14.crc_impl_eq_iso",
    "NfcVerif.C14.crc_a_eq_iso",
    "NfcVerif.C14.crc_b_eq_iso",
    "NfcVerif.C14.crc_check_add",
    "NfcVerif.C14.crc_check_iff",
    "NfcVerif.C14.crc_detects_single_bit",
]


class Transport:
    TYPE = "TEST"

    def __init__(self):
        self.written = []
        self.script = []

    def write(self, frame, *a):
        self.written.append(bytes(frame))

    def read(self, timeout=0):
        if not self.script:
            raise IOError(110, "scripted transport: nothing to read")
        r = self.script.pop(0)
        if isinstance(r, Exception):
            raise r
        return bytearray(r)


ACK = bytes.fromhex("0000FF00FF00")


def chipsets():
    import nfc.clf.pn531, nfc.clf.pn532, nfc.clf.pn533, nfc.clf.rcs956, nfc.clf.arygon, nfc.clf.acr122
    out = []
    for name, cls, prefix in [("pn531", nfc.clf.pn531.Chipset, b""), ("pn532", nfc.clf.pn532.Chipset, b""),
                              ("pn533", nfc.clf.pn533.Chipset, b""), ("rcs956", nfc.clf.rcs956.Chipset, b""),
                              ("arygonA", nfc.clf.arygon.ChipsetA, b"2"), ("arygonB", nfc.clf.arygon.ChipsetB, b"2")]:
        c = object.__new__(cls)
        c.transport = Transport()
        c.log = logging.getLogger("verif")
        out.append((name, c, prefix))
    a = object.__new__(nfc.clf.acr122.Chipset)
    a.transport = Transport()
    a.log = logging.getLogger("verif")
    return out, a


# ---------------------------------------------------------------- independent validators (L3)
def spec_pn53x(frame):
    """PN53x user manual: 00 00 FF LEN LCS TFI PD.. DCS 00 | 00 00 FF FF FF LENM LENL LCS TFI PD.. DCS 00.
    returns (tfi, code, data) or None"""
    f = bytes(frame)
    if f[:5] == b"\x00\x00\xff\xff\xff":
        if len(f) < 8:
            return None
        n = f[5] * 256 + f[6]
        if (f[5] + f[6] + f[7]) & 255:
            return None
        rest = f[8:]
    elif f[:3] == b"\x00\x00\xff":
        if len(f) < 5:
            return None
        n = f[3]
        if (f[3] + f[4]) & 255:
            return None
        rest = f[5:]
    else:
        return None
    if len(rest) != n + 2 or n < 2:
        return None
    packet, dcs, post = rest[:n], rest[n], rest[n + 1]
    if post != 0 or (sum(packet) + dcs) & 255:
        return None
    return packet[0], packet[1], packet[2:]


def rev8(b):
    return int("{:08b}".format(b)[::-1], 2)


def rev16(w):
    return int("{:016b}".format(w)[::-1], 2)


def iso_crc(data, init):
    """independent: non-reflected CCITT CRC of binascii on bit-reversed octets"""
    r = binascii.crc_hqx(bytes(rev8(b) for b in data), rev16(init))
    return rev16(r)


def crc_a(data):
    c = iso_crc(data, 0x6363)
    return bytes([c & 255, c >> 8])


def crc_b(data):
    c = iso_crc(data, 0xFFFF) ^ 0xFFFF
    return bytes([c & 255, c >> 8])


def outcome(fn):
    try:
        r = fn()
        return "ok " + hx(r)
    except Exception as e:  # noqa
        return "exc " + exc_name(e)


def run(ck):
    ck.tables("TablesFrame")   # T-tie for constants: source tables re-extracted, bridge theorems re-proved
    import nfc.clf.device
    import nfc.clf.rcs380
    rng = ck.rng
    ck.rule = ("frame cases: (driver, command code, payload/response bytes); non-trivial = payload non-empty or "
               "response differs from a pristine valid frame; CRC cases: (function, message); non-trivial = message "
               "non-empty. distinct by hash of the canonical case")
    ck.assumptions += [
        "the transport delivers whole frames (transport.read returns one frame)",
        "PN53x frame format as in the NXP user manuals (normal and extended information frame); "
        "CCID RDR_to_PC_DataBlock / PC_to_RDR_Escape headers; ISO/IEC 14443-3 Annex B CRC",
        "the model functions equal the Python functions outside the compared inputs (D-tie is a sample, "
        "exhaustive only where stated)",
    ]
    ck.trusted += ["hand-written Lean models NfcVerif.Model.HostFrame / NfcVerif.Model.Crc, tied by differential runs",
                   "harness/props/c14.py (scripted transport, independent validators)"]
    ck.lean("NfcVerif.Props.C14", THEOREMS)
    if ck.thorough:
        ck.leanchecker(["NfcVerif.Props.C14"])
    model = Model("drv_c14")
    chips, acr = chipsets()

    reqs = []   # (request line, real outcome, case descr, oracle failure or None)

    def add(line, real, descr, nontrivial, bucket, oracle=None):
        reqs.append((line, real, descr, oracle))
        ck.case(descr, nontrivial, bucket, sample={"request": line, "impl": real} if rng.random() < 0.001 or len(ck.samples) < 2 else None)

    # ---------------------------------------------------------- frame construction
    lens_all = list(range(0, 264))
    for name, chip, prefix in chips:
        maxlen = chip.host_command_frame_max_size - 2
        codes = sorted(chip.CMD)
        lens = [n for n in lens_all if n <= maxlen]
        if not ck.thorough:
            lens = sorted(set(list(range(0, 6)) + list(range(248, 264)) + rng.sample(lens, 20)) & set(lens))
        reps = 6 if ck.thorough else 1
        for n in lens:
            for _ in range(reps):
                code = rng.choice(codes)
                data = bytes(rng.randrange(256) for _ in range(n))
                if rng.random() < 0.15:
                    data = bytes([rng.choice([0, 255])]) * n
                chip.transport.written.clear()
                chip.transport.script = [ACK]
                try:
                    chip.command(code, data, 0)
                    w = chip.transport.written[0]
                    if not w.startswith(prefix):
                        real = "exc bad-prefix"
                    else:
                        real = "ok " + hx(w[len(prefix):])
                except Exception as e:  # noqa
                    real = "exc " + exc_name(e)
                orc = None
                if real.startswith("ok"):
                    v = spec_pn53x(w[len(prefix):])
                    if v != (0xD4, code, data):
                        orc = ("malformed-command-frame", "%s command 0x%02x len %d: frame %s is not a valid PN53x frame"
                               % (name, code, n, w.hex()))
                else:
                    orc = ("command-build-raises", "%s command 0x%02x len %d raised %s" % (name, code, n, real))
                add("pn.build %d %s" % (code, hx(data)), real, ("build", name, code, data), n > 0, "build:" + name, orc)
        # the size guard of the driver: one byte more than allowed must be refused before anything is written
        chip.transport.written.clear()
        try:
            chip.command(codes[0], bytes(maxlen + 1), 0)
            ck.fail("oversize-command-accepted", "%s accepted %d payload bytes" % (name, maxlen + 1), {"driver": name})
        except AssertionError:
            pass
        if chip.transport.written:
            ck.fail("oversize-command-written", "%s wrote an oversize frame" % name, {"driver": name})

    # ACR122 (CCID envelope + pseudo APDU)
    lens = list(range(0, 253)) if ck.thorough else sorted(set(list(range(0, 5)) + list(range(245, 253)) + rng.sample(range(253), 15)))
    for n in lens:
        code = rng.choice(sorted(acr.CMD))
        data = bytes(rng.randrange(256) for _ in range(n))
        acr.transport.written.clear()
        rsp = bytes([0xD5, code + 1, 0x90, 0x00])
        acr.transport.script = [bytes([0x80]) + struct.pack("<I", len(rsp)) + bytes(5) + rsp]
        try:
            acr.command(code, data, 0.1)
            w = acr.transport.written[0]
            real = "ok " + hx(w)
        except Exception as e:  # noqa
            real = "exc " + exc_name(e)
        orc = None
        if real.startswith("ok"):
            ok = (w[0] == 0x6F and struct.unpack("<I", w[1:5])[0] == len(w) - 10 and w[10:15] == bytes([0xFF, 0, 0, 0, n + 2])
                  and w[15:17] == bytes([0xD4, code]) and w[17:] == data)
            if not ok:
                orc = ("malformed-command-frame", "acr122 command 0x%02x len %d: %s" % (code, n, w.hex()))
        else:
            orc = ("command-build-raises", "acr122 command 0x%02x len %d raised %s" % (code, n, real))
        add("acr.build %d %s" % (code, hx(data)), real, ("build", "acr122", code, data), n > 0, "build:acr122", orc)

    # RC-S380
    lens = list(range(0, 300)) if ck.thorough else sorted(set(list(range(0, 5)) + list(range(250, 262)) + rng.sample(range(300), 15)))
    for n in lens:
        data = bytes(rng.randrange(256) for _ in range(n))
        if n and data[:3] == b"\x00\x00\xff":
            continue
        try:
            w = bytes(nfc.clf.rcs380.Frame(bytearray(data)))
            real = "ok " + hx(w)
        except Exception as e:  # noqa
            real = "exc " + exc_name(e)
        orc = None
        if real.startswith("ok"):
            ok = (w[:5] == b"\x00\x00\xff\xff\xff" and w[5] + 256 * w[6] == n and (w[5] + w[6] + w[7]) & 255 == 0
                  and w[8:8 + n] == data and (sum(data) + w[8 + n]) & 255 == 0 and w[9 + n:] == b"\x00")
            if not ok:
                orc = ("malformed-command-frame", "rcs380 frame len %d: %s" % (n, w.hex()))
        add("rcs.build %s" % hx(data), real, ("build", "rcs380", data), n > 0, "build:rcs380", orc)

    # ---------------------------------------------------------- response acceptance
    def std(data):
        return b"\x00\x00\xff" + bytes([len(data), (256 - len(data)) & 255]) + data + bytes([(256 - sum(data)) & 255, 0])

    def ext(data):
        ln = bytes([len(data) // 256, len(data) % 256])
        return b"\x00\x00\xff\xff\xff" + ln + bytes([(256 - sum(ln)) & 255]) + data + bytes([(256 - sum(data)) & 255, 0])

    def mutations(valid, budget):
        yield valid, "valid"
        bits = [(i, b) for i in range(len(valid)) for b in range(8)]
        if len(bits) > budget:
            # every bit of the framing (header, checksum, postamble) always; the payload sampled
            edge = [(i, b) for (i, b) in bits if i < 12 or i >= len(valid) - 3]
            bits = edge + rng.sample([x for x in bits if x not in set(edge)], max(0, budget - len(edge)))
        for i, b in bits:
            m = bytearray(valid)
            m[i] ^= 1 << b
            yield bytes(m), "bitflip"
        for k in (range(len(valid)) if len(valid) < 24 else rng.sample(range(len(valid)), 12)):
            yield valid[:k], "truncate"
        for k in range(1, 4):
            yield valid + bytes(rng.randrange(256) for _ in range(k)), "extend"
            yield valid + bytes(k), "extend0"
        for _ in range(8):
            m = bytearray(valid)
            for _ in range(rng.randrange(2, 5)):
                m[rng.randrange(len(m))] = rng.randrange(256)
            yield bytes(m), "substitute"
        # compensating changes: keep every checksum arithmetic "balanced"
        for _ in range(8):
            m = bytearray(valid)
            i, j = rng.randrange(len(m)), rng.randrange(len(m))
            d = rng.randrange(1, 256)
            m[i] = (m[i] + d) & 255
            m[j] = (m[j] - d) & 255
            yield bytes(m), "compensate"

    name, chip, prefix = chips[2]  # acceptance code is shared (pn53x.Chipset.command); pn533 has extended frames
    nvalid = 40 if ck.thorough else 8
    for vi in range(nvalid):
        code = rng.choice(sorted(chip.CMD))
        n = rng.choice([0, 1, 2, 3, 5, 17, 252, 253, 254, 255, 262]) if vi % 2 else rng.randrange(0, 40)
        if vi == 1:
            n = 262          # at least one response in the extended format in every run
        if vi == 3:
            n = 7
        data = bytes(rng.randrange(256) for _ in range(n))
        pd = bytes([0xD5, code + 1]) + data
        valid = std(pd) if len(pd) < 256 and (vi != 3 and rng.random() < 0.9) else ext(pd)
        for raw, kind in mutations(valid, 400 if ck.thorough else 120):
            if raw == ACK:
                continue
            for c2 in ([code] if kind != "valid" else [code, (code + 2) % 256]):
                if c2 not in chip.CMD:
                    continue
                chip.transport.script = [raw]
                real = outcome(lambda: chip.command(c2, None, 1.0))
                orc = None
                if real.startswith("ok"):
                    v = spec_pn53x(raw)
                    got = bytes.fromhex(real[3:]) if real[3:] != "-" else b""
                    if v != (0xD5, c2 + 1, got):
                        orc = ("corrupt-response-accepted", "pn53x accepted %s as response to 0x%02x -> %s" % (raw.hex(), c2, real))
                elif real[4:] in ("IndexError", "struct.error", "ValueError", "TypeError", "KeyError"):
                    orc = ("response-internal-error", "pn53x response %s raised %s" % (raw.hex(), real))
                add("pn.accept %d %s" % (c2, hx(raw)), real, ("accept", "pn53x", c2, raw), kind != "valid", "accept:" + kind, orc)
    # all short frames (0..3 bytes over a small alphabet, plus all 1- and 2-byte frames)
    shorts = [b""] + [bytes([a]) for a in range(256)]
    alpha = [0, 0xFF, 1, 0xD5, 0x7F, 0x81, 0x2B]
    shorts += [bytes([a, b]) for a in alpha for b in alpha]
    shorts += [b"\x00\x00\xff" + bytes(t) for k in range(0, 5) for t in __import__("itertools").product(alpha, repeat=k)]
    for raw in shorts:
        if raw == ACK:
            continue
        chip.transport.script = [raw] if raw else [bytearray()]
        real = outcome(lambda: chip.command(0, None, 1.0))
        orc = None
        if real.startswith("ok") and spec_pn53x(raw) is None:
            orc = ("corrupt-response-accepted", "pn53x accepted %s -> %s" % (raw.hex(), real))
        elif real[4:] in ("IndexError", "struct.error", "ValueError", "TypeError"):
            orc = ("response-internal-error", "pn53x response %s raised %s" % (raw.hex(), real))
        add("pn.accept 0 %s" % hx(raw), real, ("accept", "pn53x", 0, raw), True, "accept:short", orc)

    # ACR122 responses
    for vi in range(nvalid):
        code = rng.choice(sorted(acr.CMD))
        data = bytes(rng.randrange(256) for _ in range(rng.randrange(0, 30)))
        rsp = bytes([0xD5, code + 1]) + data + b"\x90\x00"
        valid = bytes([0x80]) + struct.pack("<I", len(rsp)) + bytes(rng.randrange(256) for _ in range(5)) + rsp
        for raw, kind in mutations(valid, 300 if ck.thorough else 80):
            acr.transport.script = [raw] if raw else [bytearray()]
            real = outcome(lambda: acr.command(code, b"", 0.1))
            orc = None
            if real.startswith("ok"):
                got = bytes.fromhex(real[3:]) if real[3:] != "-" else b""
                ok = (len(raw) >= 14 and raw[0] == 0x80 and struct.unpack("<I", raw[1:5])[0] == len(raw) - 10
                      and raw[10] == 0xD5 and raw[11] == code + 1 and raw[-2:] == b"\x90\x00" and raw[12:-2] == got)
                if not ok:
                    orc = ("corrupt-response-accepted", "acr122 accepted %s -> %s" % (raw.hex(), real))
            elif real[4:] in ("IndexError", "struct.error", "ValueError", "TypeError"):
                orc = ("response-internal-error", "acr122 response %s raised %s" % (raw.hex(), real))
            add("acr.accept %d %s" % (code, hx(raw)), real, ("accept", "acr122", code, raw), kind != "valid", "acr.accept:" + kind, orc)

    # ---------------------------------------------------------- CRC
    D = nfc.clf.device.Device
    msgs = [b""] + [bytes([a]) for a in range(256)]
    if ck.thorough:
        msgs += [bytes([a, b]) for a in range(256) for b in range(256)]
        msgs += [bytes(rng.randrange(256) for _ in range(3)) for _ in range(20000)]
    else:
        msgs += [bytes([rng.randrange(256), rng.randrange(256)]) for _ in range(1500)]
        msgs += [bytes(rng.randrange(256) for _ in range(3)) for _ in range(500)]
    msgs += [bytes(rng.randrange(256) for _ in range(rng.randrange(4, 300))) for _ in range(300 if ck.thorough else 60)]
    for m in msgs:
        for fn, name, spec in ((D.add_crc_a, "adda", crc_a), (D.add_crc_b, "addb", crc_b)):
            arg = bytearray(m)
            real = outcome(lambda: fn(arg))
            orc = None
            if real != "ok " + hx(m + spec(m)):
                orc = ("crc-differs-from-iso", "%s(%s) = %s, ISO gives %s" % (name, m.hex(), real, (m + spec(m)).hex()))
            elif bytes(arg) != m:
                # the drivers hand the caller's command buffer to add_crc_x; a command that is sent again (retry after a
                # timeout) must go out with exactly one CRC: the helper must not extend its argument in place
                orc = ("crc-helper-modifies-argument", "%s changed its bytearray argument %s into %s (a command sent twice "
                       "would carry two CRCs)" % (name, m.hex(), bytes(arg).hex()))
            else:
                again = outcome(lambda: fn(arg))
                if again != real:
                    orc = ("crc-helper-modifies-argument", "%s(%s) called twice on the same buffer: %s then %s"
                           % (name, m.hex(), real, again))
            add("crc.%s %s" % (name, hx(m)), real, ("crc", name, m), len(m) > 0, "crc." + name, orc)
    chk = msgs if ck.thorough else msgs[:600] + msgs[-60:]
    for m in chk:
        for fn, name, spec in ((D.check_crc_a, "checka", crc_a), (D.check_crc_b, "checkb", crc_b)):
            cands = [m + spec(m), m]
            if len(m) >= 1:
                bad = bytearray(m + spec(m))
                bad[rng.randrange(len(bad))] ^= 1 << rng.randrange(8)
                cands.append(bytes(bad))
            for c in cands:
                carg = bytearray(c)
                try:
                    r = fn(carg)
                    real = "ok " + ("true" if r else "false")
                except Exception as e:  # noqa
                    real = "exc " + exc_name(e)
                orc = None
                if bytes(carg) != c:
                    orc = ("crc-helper-modifies-argument", "%s changed its argument %s into %s" % (name, c.hex(), bytes(carg).hex()))
                if len(c) >= 2:
                    want = c[-2:] == spec(c[:-2])
                    if real != "ok " + ("true" if want else "false"):
                        orc = ("crc-check-wrong", "%s(%s) = %s, ISO says %s" % (name, c.hex(), real, want))
                add("crc.%s %s" % (name, hx(c)), real, ("crc", name, c), len(c) > 2, "crc." + name, orc)

    # ---------------------------------------------------------- compare with the model, judge
    replies = model.ask_many([r[0] for r in reqs])
    dis = 0
    for (line, real, descr, orc), rep in zip(reqs, replies):
        if rep != real:
            dis += 1
            ck.fail("tie:c14-model-vs-driver", "model %r, implementation %r" % (rep, real), {"request": line, "model": rep, "impl": real})
        if orc is not None:
            ck.fail(orc[0], orc[1], {"request": line, "impl": real})
    ck.tie("hostframe+crc model vs drivers", cases=len(reqs), disagreements=dis,
           exhaustive=False)
    ck.notes.append("CRC messages of <= 1 byte exhaustive; %s" % ("all 2-byte messages exhaustive" if ck.thorough else "2-byte messages sampled"))
