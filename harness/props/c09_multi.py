"""C09, part "multi": SEVERAL application threads at the same wait point when the link ends.

L2: 2..3 application threads run calls on ONE real socket (or resolve() on one controller) under the
    deterministic scheduler of sims/term_sched.py (lock and Condition doubles that distinguish notify(n) from
    notify_all() and keep the FIFO order of the waiters); a link thread executes a script of link events
    (PDU queued, acknowledgement, dequeue, name resolved, ... , terminate).  Schedules are enumerated up to a
    preemption bound (every order in which woken threads continue is free).  Every execution - the scheduling
    points of every thread, its result, the final socket state - is compared with the Lean model
    `NfcVerif.TermMulti.runM` (threads over the shared world of Model/Term, condition variables with FIFO
    waiter lists, notify one / all).
L3: judged on the real objects, independent of the model: once the script has terminated the link and no
    thread is enabled any more, every application thread must have ended with a value or nfc.llcp.Error; a
    thread still parked is reported with the condition variable and with what terminate() did to it
    (no notification at all / notify(n) with fewer than the waiters / a wait entered after the end).
    The SNEP and handover servers run as scheduled threads as well (listen thread, per-connection threads
    spawned through a Thread double) against a link thread that delivers CONNECT / I PDUs through the real
    dispatch()/collect() and then ends the link by every cause of the real run loops.
"""
import itertools
import os

from common import exc_name, Infra
from props.c09 import STATES, init_line, base_state

MAXKEYS = 6


# =========================================================================== one execution
class Exec:
    """one real world (controller, socket, threads) under a fresh scheduler"""

    def __init__(self, st, calls, script):
        import nfc.llcp
        from sims import term_llc as T
        from sims import term_sched as S
        self.st, self.calls, self.script = st, calls, list(script)
        self.sched = s = self.make_sched()
        s.install()
        self.S = S
        llc = self.llc = T.make_llc()
        llc.mac = None
        typ = {"raw": nfc.llcp.llc.RAW_ACCESS_POINT, "ldl": nfc.llcp.LOGICAL_DATA_LINK, "dlc": nfc.llcp.DATA_LINK_CONNECTION}[st["k"]]
        tco = self.tco = llc.socket(typ)
        s.name_conditions(tco)
        if st["variant"] in ("R", "C"):
            llc.bind(tco)
        if st["variant"] == "C":
            llc.close(tco)
        tco.state.value = STATES.index(st["st"])
        for name in filter(None, st["rq"].split(".")):
            tco.recv_queue.append(T.make_pdu(name, tco))
        for name in filter(None, st["sq"].split(".")):
            tco.send_queue.append(T.make_pdu(name, tco))
        tco.recv_buf, tco.send_miu = st["rb"], st["sm"]
        if st["k"] == "dlc":
            tco.send_win, tco.send_cnt, tco.send_ack = st["sw"], st["sc"], st["sa"]
            tco.acks_recvd, tco.recv_confs, tco.recv_win = st["ak"], st["rc"], st["rw"]
            if st["st"] in ("ESTABLISHED", "DISCONNECT", "CLOSE_WAIT"):
                tco.peer = 40
        if st["res"]:
            llc.sap[1].snl[b"urn:nfc:sn:x"] = 17
        if st["pre"]:
            llc.terminate("before the calls")
        self.app = []
        for i, call in enumerate(calls):
            sock = nfc.llcp.Socket(llc, None)
            sock._tco = tco
            self.app.append(s.spawn("t%d:%s" % (i, call), self.call_fn(sock, call)))
        self.link = s.spawn("link", self.link_fn, atomic=True)
        self.resp = llc.sap[1].resp if llc.sap[1] is not None else None
        self.term_calls = None

    @staticmethod
    def make_sched():
        from sims import term_sched as S
        return S.Sched()

    def call_fn(self, sock, call):
        import nfc.llcp
        st = self.st
        c = call.split(":")
        if c[0] == "send":
            flags, n = (nfc.llcp.MSG_DONTWAIT if c[1] == "1" else 0), int(c[2])
            if st["k"] == "dlc":
                return lambda: sock.send(b"x" * n, flags)
            if st["k"] == "ldl":
                return lambda: sock.sendto(b"x" * n, 36, flags)
            return lambda: sock.send(nfc.llcp.pdu.UnnumberedInformation(9, 1, b"x"), flags)
        if c[0] == "poll":
            return lambda: sock.poll(c[1], 0.5 if c[2] == "1" else None)
        return {"recv": sock.recv, "accept": sock.accept, "connect": lambda: sock.connect(36), "listen": lambda: sock.listen(2),
                "close": sock.close, "bind": sock.bind, "resolve": lambda: sock.resolve(b"urn:nfc:sn:x")}[c[0]]

    def link_fn(self):
        for i, act in enumerate(self.script):
            if i:
                self.sched.pause()
            self.action(act)

    def cvs(self):
        out = [getattr(self.tco, n) for n in ("send_ready", "recv_ready", "acks_ready", "send_token") if hasattr(self.tco, n)]
        if self.resp is not None:
            out.append(self.resp)
        return out

    def action(self, act):
        from sims import term_llc as T
        s, llc = self.tco, self.llc
        if act == "T":
            marks = {cv.name: len(cv.calls) for cv in self.cvs()}
            waiting = {cv.name: len(cv.waiters) for cv in self.cvs()}
            llc.terminate("script")
            self.term_calls = {cv.name: (waiting[cv.name], cv.calls[marks[cv.name]:]) for cv in self.cvs()}
        elif act == "S":
            for n in ("send_ready", "recv_ready", "acks_ready", "send_token"):
                cv = getattr(s, n, None)
                if cv is not None:
                    with cv:
                        cv.notify_all()
            with llc.lock:
                if llc.sap[1] is not None:
                    llc.sap[1].resp.notify_all()
        elif act[0] in "QAD":
            # the link thread reaches a socket only through its service access point (dispatch / collect)
            with llc.lock:
                sap = llc.sap[s.addr] if s.addr is not None else None
                if sap is None or s not in sap.sock_list:
                    return
                with s.lock:
                    if act[0] == "Q":
                        s.recv_queue.append(T.make_pdu(act[1:], s))
                        s.recv_ready.notify()
                    elif act == "A":
                        s.acks_recvd += 1
                        s.acks_ready.notify_all()
                        s.send_token.notify()
                        s.send_ack = (s.send_ack + 1) % 16
                    else:
                        if s.send_queue:
                            s.send_queue.popleft()
                        s.send_ready.notify()
        elif act == "R":
            with llc.lock:
                sd = llc.sap[1]
                if sd is not None and sd.snl is not None:
                    sd.snl[b"urn:nfc:sn:x"] = 17
                    sd.resp.notify_all()
        elif act != "N":
            raise AssertionError("unknown action " + act)

    def outcome(self, t):
        import nfc.llcp
        if t.state != "done":
            return "stuck " + t.where()
        kind, r = t.result
        if kind == "exc":
            return "exc " + exc_name(r)
        if kind == "abort":
            return "abort"
        if r is None:
            return "ok none"
        if isinstance(r, bool):
            return "ok true" if r else "ok false"
        if isinstance(r, int):
            return "ok n%d" % r
        if isinstance(r, nfc.llcp.Socket):
            return "ok sock"
        return "ok data"

    def summary(self):
        tco, st = self.tco, self.st
        return "%s:%d:%s:%s:%d:%d:%d:%d" % (
            tco.state, tco.addr is not None, ".".join(p.name for p in tco.recv_queue), ".".join(p.name for p in tco.send_queue),
            tco.recv_buf, getattr(tco, "acks_recvd", st["ak"]), getattr(tco, "send_cnt", st["sc"]), getattr(tco, "recv_confs", st["rc"]))

    def close(self):
        try:
            self.sched.teardown()
        finally:
            self.S.Sched.uninstall()


def run_one(st, calls, script, prefix):
    """-> dict(decisions, choices, threads=[(trace, outcome)], link outcome, summary, term_calls)"""
    ex = Exec(st, calls, script)
    try:
        end = ex.sched.run(prefix)
        res = {
            "end": end,
            "decisions": list(ex.sched.decisions),
            "choices": list(ex.sched.choices),
            "threads": [(list(t.trace), ex.outcome(t)) for t in ex.app],
            "link": ex.outcome(ex.link),
            "summary": ex.summary(),
            "term_calls": ex.term_calls,
            "link_done_actions": None,
        }
        return res
    finally:
        ex.close()


# =========================================================================== configurations
def configs(ck):
    """(state, calls, scripts): the threads' calls on one socket, chosen so that each call blocks in the state"""
    rng = ck.rng
    out = []
    W_OPEN, W_CLOSED = (1, 0, 0), (1, 1, 0)

    def add(k, stname, variant, callset, sizes, scripts, **kw):
        for n in sizes:
            combos = list(itertools.combinations_with_replacement(callset, n))
            if n >= 3 and not ck.thorough:
                combos = rng.sample(combos, min(len(combos), 12))
            for combo in combos:
                perms = sorted(set(itertools.permutations(combo))) if ck.thorough or n == 2 else [combo]
                for calls in perms:
                    out.append((base_state(k, stname, variant, **kw), list(calls), scripts))

    sizes = (2, 3)
    quiet = [["T"], ["S", "T"]]
    # --- service name lookups: any number of resolvers share ONE condition variable of the controller
    add("dlc", "CLOSED", "U", ["resolve"], (2, 3, 4), [["T"], ["R", "T"], ["S", "T"], ["T", "S"]])
    add("dlc", "ESTABLISHED", "R", ["resolve", "recv", "poll:acks:0"], sizes, [["T"], ["R", "T"]])
    # --- established data link connection, send window open / closed
    est = ["recv", "send:0:1", "close", "poll:recv:0", "poll:send:0", "poll:acks:0", "poll:recv:1", "poll:acks:1"]
    add("dlc", "ESTABLISHED", "R", est, sizes, quiet + [["QI", "T"], ["A", "T"], ["D", "T"], ["QDM", "T"]], win=W_OPEN)
    add("dlc", "ESTABLISHED", "R", ["send:0:1", "poll:send:0", "poll:acks:0", "close"], sizes, quiet + [["A", "T"], ["D", "T"]],
        win=W_CLOSED, sq=("UI",))
    add("dlc", "CLOSE_WAIT", "R", ["recv", "poll:recv:0", "close", "send:0:1"], (2,), quiet + [["QDISC", "T"]])
    # --- listening socket: several threads in accept()
    add("dlc", "LISTEN", "R", ["accept", "close", "poll:recv:0"], sizes, quiet + [["QCONNECT", "T"]])
    # --- connect(): the first thread waits for the CC, the others are refused
    add("dlc", "CLOSED", "U", ["connect", "resolve", "close"], sizes, quiet + [["QCC", "T"], ["QDM", "T"]])
    add("dlc", "CONNECT", "R", ["connect", "recv", "close", "poll:recv:0"], (2,), quiet)
    # --- datagram socket and raw access point
    for k in ("ldl", "raw"):
        add(k, "ESTABLISHED", "R", ["recv", "send:0:1", "poll:recv:0", "poll:send:0", "close", "poll:recv:1"], sizes,
            quiet + [["QUI", "T"], ["D", "T"]])
        add(k, "ESTABLISHED", "R", ["send:0:1", "poll:send:0"], (2,), quiet + [["D", "T"]], sq=("UI",))
        add(k, "ESTABLISHED", "U", ["send:0:1", "close", "resolve"], (2,), quiet)
    return out


# =========================================================================== judgement on the real objects
def judge(ck, st, calls, script, r, seen_keys):
    """the property itself: after the link has ended every application thread has ended"""
    if "T" not in script and not st["pre"]:
        return
    replay = {"state": st, "calls": calls, "link_script": script, "decisions": r["decisions"],
              "threads": [{"call": c, "scheduling_points": tr, "outcome": o} for c, (tr, o) in zip(calls, r["threads"])],
              "link_thread": r["link"], "what_terminate_did_to_the_condition_variables":
              {k: {"waiters": v[0], "calls": [list(c) for c in v[1]]} for k, v in (r["term_calls"] or {}).items()}}
    if r["end"] != "quiescent":
        ck.fail("multi-livelock", "the threads %s keep running after the link has ended (%d scheduling steps)" % (calls, len(r["decisions"])), replay)
        return
    if r["link"] != "ok none":
        ck.fail("terminate-blocks", "the link thread did not finish its script %s: %s" % (script, r["link"]), replay)
    quiet = all(a in ("T", "S", "N") for a in script)
    for i, (call, (trace, out)) in enumerate(zip(calls, r["threads"])):
        name = "%s.%s" % (st["k"], call.split(":")[0])
        if out.startswith("stuck"):
            where = out.split(" ", 1)[1]
            if where.startswith("wait:"):
                cv = where[5:]
                waiters, did = (r["term_calls"] or {}).get(cv, (0, []))
                if not r["term_calls"]:
                    key, why = "waits-after-terminate-" + name, "a wait on %s entered on a link that had ended before" % cv
                elif not did:
                    key, why = "terminate-does-not-wake-" + name, "terminate() did not notify %s" % cv
                elif all(c[0] == "notify" for c in did) and sum(c[1] for c in did) < waiters:
                    key = "terminate-wakes-only-some-waiters-" + cv
                    why = "terminate() called %s on %s with %d threads waiting" % (
                        ", ".join("notify(%d)" % c[1] for c in did), cv, waiters)
                else:
                    key, why = "waits-after-terminate-" + name, "the thread went back to wait on %s after the link had ended" % cv
                ck.fail(key, "thread %d of %d in %s on the same socket never returns: %s (schedule %s)"
                        % (i, len(calls), name, why, r["decisions"]), dict(replay, stuck_thread=i))
            else:
                ck.fail("deadlock-after-terminate-" + name, "thread %d in %s is blocked for ever at %s after the link ended"
                        % (i, name, where), dict(replay, stuck_thread=i))
        elif out.startswith("exc") and not out.startswith("exc llcp.Error") and out != "exc ConnectRefused" \
                and quiet and _reachable(st) and not (call == "connect" and st["k"] == "raw"):
            # only the link ended (no PDU of an unexpected kind was injected): nothing but nfc.llcp.Error may come out
            ck.fail("exc-after-terminate-%s-%s" % (name, out[4:]),
                    "thread %d in %s ended with %s although only the link ended (threads %s)" % (i, name, out[4:], calls),
                    dict(replay, thread=i))


def _reachable(st):
    return st["variant"] != "U" or st["k"] != "dlc" or st["st"] in ("CLOSED", "SHUTDOWN")


# =========================================================================== the exploration
def tie_multi(ck, model):
    from sims import term_sched as S
    bound = 2 if ck.thorough else 1
    per_cfg = 10 if ck.thorough else 8
    lines, reals, infos = [], [], []
    nexec = 0
    seen_keys = set()
    cfgs = configs(ck)
    for st, calls, scripts in cfgs:
        for script in scripts:
            def execute(prefix, st=st, calls=calls, script=script):
                try:
                    r = run_one(st, calls, script, prefix)
                except Infra:
                    raise
                except Exception as e:  # noqa  - set-up refused by the real objects, or a thread blocks outside the doubles
                    ck.fail("terminate-blocks" if (isinstance(e, S.SetupBlocks) and st["pre"]) else
                            "several-threads-%s" % ("block-outside-locks" if isinstance(e, S.OutsideBlock) else "setup-raises-" + exc_name(e)),
                            "threads %s on a %s socket in state %s, link script %s: %s" % (calls, st["k"], st["st"], script, e),
                            {"state": st, "calls": calls, "link_script": script, "decisions": list(prefix), "exception": repr(e)})
                    return []
                line = "multi %s calls=%s script=%s sched=%s" % (init_line(st), ",".join(calls), ".".join(script),
                                                                 ".".join(str(d) for d in r["decisions"]))
                real = ";".join("%s|%s" % (",".join(tr), _model_out(o)) for tr, o in r["threads"]) + "|" + r["summary"]
                lines.append(line)
                reals.append(real)
                infos.append((st, calls, script, r["decisions"]))
                judge(ck, st, calls, script, r, seen_keys)
                blocked = sum(1 for tr, o in r["threads"] if any(p[0] == "W" for p in tr))
                ck.case((line,), blocked >= 2, "L2 multi %s x%d" % (st["k"], len(calls)),
                        sample={"request": line, "impl": real} if blocked >= 2 and len(ck.samples) < 6 and "T" in script else None)
                return r["choices"]
            n, complete = S.explore(execute, bound, per_cfg, ck.rng)
            nexec += n
    dis = 0
    if model is not None:
        replies = model.ask_many(lines)
        for line, real, rep, info in zip(lines, reals, replies, infos):
            if rep != real:
                dis += 1
                if os.environ.get("C09_DEBUG"):
                    print("DIS", line, "\n   M", rep, "\n   I", real)
                ck.fail("tie:multi-waiters", "model %r, implementation %r" % (rep, real),
                        {"request": line, "model": rep, "impl": real, "state": info[0], "calls": info[1], "link_script": info[2],
                         "decisions": info[3]})
    ck.tie("several threads on one socket / controller: schedules of the model vs the real objects under the scheduler",
           cases=nexec, disagreements=dis, exhaustive=False)
    ck.count("L2 multi: configurations (state, calls, link script)", sum(len(c[2]) for c in cfgs))
    return nexec


def _model_out(o):
    """outcome of a thread in the notation of the model driver"""
    if o.startswith("stuck wait:"):
        return "parked " + o[11:]
    return o


def run_part(ck):
    from common import Model
    ck.rule += (" | part multi: (socket state, 2..4 calls of different threads on that socket, script of link events ending in "
                "terminate, schedule = list of thread indices); schedules enumerated depth first up to %d preemption(s), all "
                "orders among woken threads; non-trivial = at least two threads passed a wait" % (2 if ck.thorough else 1))
    ck.assumptions += [
        "part multi: threading.Condition wakes waiters in arrival order (notify(n): the n longest waiting; CPython's implementation), "
        "the link thread's events Q/A/D of the several-threads tie are applied to the socket directly, and only while it is registered "
        "in its service access point (as dispatch()/collect() reach it); terminate() is one atomic step of the link thread there "
        "(its interleaving with bind() is the terminate-steps tie), in the service/application exploration it is the real run loop "
        "with scheduling points at its lock acquisitions and at every MAC exchange",
    ]
    ck.trusted += ["hand-written Lean model NfcVerif.Model.TermMulti, tied by differential runs under harness/sims/term_sched.py "
                   "(lock / Condition / Thread doubles, deterministic scheduler)", "harness/props/c09_multi.py"]
    import time
    from props.c09 import guarded
    from sims import term_sched as S
    from sims import term_llc as T
    model = Model("drv_c09") if not os.environ.get("C09_NO_MODEL") else None
    t0 = time.time()
    n1 = guarded(ck, "several-threads", tie_multi, ck, model)
    S.Sched.uninstall()
    t1 = time.time()
    import contextlib
    import io
    with contextlib.redirect_stdout(io.StringIO()):      # the KeyboardInterrupt handlers of the run loops print a newline
        n2 = guarded(ck, "service-threads", tie_service_threads, ck, model)
    S.Sched.uninstall()
    T.uninstall()
    ck.notes.append("part multi: %d executions of 2..4 threads on one socket (%.1fs), %d executions of the service threads "
                    "against the real run loop (%.1fs), all under the deterministic scheduler" % (n1, t1 - t0, n2, time.time() - t1))


# =========================================================================== service threads under the scheduler
SVC_POINTS = {"accept": "accept", "poll": "poll", "recv": "recv", "send": "send", "close": "close"}


_SOCK_ORIG = {}


def restore_sockets():
    import nfc.llcp
    for n, f in _SOCK_ORIG.items():
        setattr(nfc.llcp.Socket, n, f)


class ServiceExec:
    """SNEP and handover servers (listen threads, per-connection threads spawned through the Thread double) and the
    REAL run loop of the link (run_as_initiator / run_as_target on a scripted MAC whose exchange() is a scheduling
    point) as threads of one scheduler"""

    def __init__(self, role, cause, at, point, nframes, apps=False):
        import nfc.llcp
        import nfc.llcp.llc
        import nfc.dep
        import nfc.snep
        import nfc.handover
        import ndef
        from sims import term_llc as T
        from sims import term_sched as S
        self.S, self.T = S, T
        self.sched = s = S.Sched()
        s.fair = True
        s.install()
        P = nfc.llcp.pdu

        class SchedMac(T.MacScript):
            def exchange(mac, send_data, timeout):
                if send_data is not None:
                    try:
                        mac.sent.append(P.decode(bytes(send_data)).name)
                    except Exception:  # noqa
                        mac.sent.append("?")
                n = mac.n
                mac.n += 1
                s.pause()
                if mac.armed and not mac.fired and n >= mac.at and mac.cause != "local-terminate" \
                        and not (mac.point == "first" and mac.role == "initiator"):
                    return mac.fire()
                if mac.replies:
                    return bytearray(mac.replies.popleft())
                return bytearray.fromhex("0000")

            def sleep(mac, d):
                if mac.point == "first" and mac.role == "initiator" and mac.armed and not mac.fired \
                        and mac.cause in T.EXCEPTION_CAUSES:
                    mac.fire()

        self.script = script = SchedMac(cause, at, [], point=point, role=role)
        T.install_mac(script)
        if point == "dps":
            T.install_dps()
        llc = self.llc = nfc.llcp.llc.LogicalLinkController(sec=False)
        llc.cfg.update({"send-miu": 248, "recv-lto": 500, "send-wks": 0, "llcp-dpc": 1 if point == "dps" else 0,
                        "rcvd-ver": (1, 1)})
        llc.mac = (nfc.dep.Initiator if role == "initiator" else nfc.dep.Target)()
        llc.link.CONNECTED = True
        self.snep = nfc.snep.SnepServer(llc)
        self.hand = nfc.handover.HandoverServer(llc)
        ho_addr = self.hand._args[-1].getsockname()
        hr = b"".join(ndef.message_encoder([ndef.HandoverRequestRecord("1.2", 1234)]))
        frames = [P.encode(P.Connect(4, 33, 128, 1)),
                  P.encode(P.Connect(1, 34, 128, 1, b"urn:nfc:sn:handover")),
                  P.encode(P.Information(4, 33, 0, 0, b"\x10\x02\x00\x00\x00\x03\xd0\x00\x00")),
                  P.encode(P.Information(ho_addr, 34, 0, 0, hr)),
                  P.encode(P.ReceiveReady(4, 33, 1)),
                  P.encode(P.Connect(4, 35, 128, 1)),
                  P.encode(P.Disconnect(4, 33))]
        self.app_threads = []
        if apps:
            # application threads in connect / send / recv / recvfrom / raw recv / resolve against the same run loop; the
            # peer completes the connection, sends a datagram, acknowledges, answers, disconnects (frames in this order)
            DLC, LDL, RAW = nfc.llcp.DATA_LINK_CONNECTION, nfc.llcp.LOGICAL_DATA_LINK, nfc.llcp.llc.RAW_ACCESS_POINT

            def sock(t, addr=None):
                so = nfc.llcp.Socket(llc, t)
                if addr is not None:
                    so.bind(addr)
                s.name_conditions(so._tco)
                return so
            c1, d1, r1, q1, q2, c2 = sock(DLC, 32), sock(LDL, 40), sock(RAW, 44), sock(DLC), sock(LDL), sock(DLC, 33)

            def conversation():
                c1.connect(20)
                c1.send(b"ping")
                c1.send(b"ping again")
                data = c1.recv()
                c1.close()
                return data
            self.apps = [("dlc.connect+send+send+recv+close", conversation), ("dlc.poll(acks)", lambda: c1.poll("acks")),
                         ("ldl.recvfrom", d1.recvfrom), ("ldl.recvfrom#2", d1.recvfrom), ("ldl.poll(recv)", lambda: d1.poll("recv")),
                         ("raw.recv", r1.recv), ("resolve", lambda: q1.resolve(b"urn:nfc:sn:what")),
                         ("resolve#2", lambda: q2.resolve(b"urn:nfc:sn:other")),
                         ("dlc.connect(by name)", lambda: c2.connect(b"urn:nfc:sn:nowhere"))]
            frames = [P.encode(P.ConnectionComplete(32, 20, 128, 1)),
                      P.encode(P.UnnumberedInformation(40, 21, b"datagram")),
                      P.encode(P.Connect(4, 33, 128, 1)),
                      P.encode(P.ReceiveReady(32, 20, 1)),
                      P.encode(P.Information(32, 20, 0, 2, b"pong")),
                      P.encode(P.Information(4, 33, 0, 0, b"\x10\x02\x00\x00\x00\x03\xd0\x00\x00")),
                      P.encode(P.Disconnect(32, 20))]
        if point == "established":
            script.replies.extend(frames[:nframes])
        self.calls = {}            # scheduler thread index -> [(socket call, class of the result)]
        self._patch_sockets()
        self.listeners = [s.spawn("snep._listen", lambda: self.snep._target(*self.snep._args)),
                          s.spawn("handover.listen", lambda: self.hand._target(*self.hand._args))]
        if apps:
            self.app_threads = [s.spawn("app:" + n, f) for n, f in self.apps]
        self.link = s.spawn("link", lambda: getattr(llc, "run_as_" + role)(terminate=script.terminate_cb))

    def _patch_sockets(self):
        import nfc.llcp
        S = self.S
        cls = nfc.llcp.Socket
        ex = self

        def wrap(name):
            orig = _SOCK_ORIG.setdefault(name, getattr(cls, name))

            def f(sock, *a, **k):
                t = ex.sched.current
                try:
                    r = orig(sock, *a, **k)
                except S.Abort:
                    raise
                except nfc.llcp.Error:
                    ex.calls.setdefault(t.idx if t else -1, []).append((name, "llcp"))
                    raise
                except BaseException:  # noqa
                    ex.calls.setdefault(t.idx if t else -1, []).append((name, "other"))
                    raise
                ex.calls.setdefault(t.idx if t else -1, []).append((name, "value1" if (r if isinstance(r, bool) or r is None else True) else "value0"))
                return r
            setattr(cls, name, f)
        for n in ("accept", "poll", "recv", "send", "close"):
            wrap(n)

    def close(self):
        try:
            restore_sockets()
            self.sched.teardown()
        finally:
            self.S.Sched.uninstall()
            self.T.uninstall()


def svc_scenarios(ck):
    from sims import term_llc as T
    rng = ck.rng
    causes = list(T.CAUSES) + list(T.UNCAUGHT)
    out = []
    for role in ("initiator", "target"):
        for cause in causes:
            ats = range(0, 9) if ck.thorough else sorted(rng.sample(range(0, 9), 3))
            for at in ats:
                out.append((role, cause, at, "established", 7, False))
            ats = range(0, 13) if ck.thorough else sorted(rng.sample(range(0, 13), 3))
            for at in ats:
                out.append((role, cause, at, "established", 7, True))
            for point in ("first", "dps"):
                if cause == "local-terminate" or (point == "first" and role == "initiator" and cause not in T.EXCEPTION_CAUSES):
                    continue
                if not ck.thorough and rng.random() < 0.5:
                    continue
                out.append((role, cause, 0, point, 0, rng.random() < 0.5))
    return out


def svc_walk(model_steps, start, calls):
    """follow the model's automaton (NfcVerif.Term.serviceStep) along the socket calls a service thread made;
    returns (final point, None) or (point, description of the first call that does not fit)"""
    point = start
    for call, res in calls:
        if point in ("recv", "send") and call == "poll":
            point = "poll"          # the handover loop polls again before it receives / after an incomplete message
        if point == "exited":
            return point, "call %s after the thread function has ended" % call
        if call != point:
            return point, "the loop calls %s() where the model is at %s" % (call, point)
        point = model_steps[(point, res)]
    return point, None


def tie_service_threads(ck, model):
    from sims import term_sched as S
    bound = 2 if ck.thorough else 1
    per = 20 if ck.thorough else 6
    pts = ["accept", "poll", "recv", "send", "close", "exited"]
    rs = ["value1", "value0", "llcp", "other"]
    model_steps = {}
    if model is not None:
        keys = [(srv, p, r) for srv in ("snep", "handover") for p in pts for r in rs]
        reps = model.ask_many(["svcstep srv=%s p=%s r=%s" % k for k in keys])
        model_steps = {srv: {(p, r): rep for (sv, p, r), rep in zip(keys, reps) if sv == srv} for srv in ("snep", "handover")}
    nexec = dis = nthreads = 0
    for role, cause, at, point, nframes, apps in svc_scenarios(ck):
        descr = {"role": role, "cause": cause, "cause_at_exchange": at, "point_of_run_loop": point,
                 "application_threads": apps,
                 "frames_from_peer": (["CC->32", "UI->40", "CONNECT->snep", "RR->32", "I->32 pong", "I snep PUT", "DISC->32"] if apps else
                                      ["CONNECT->snep", "CONNECT->handover(by name)", "I snep PUT", "I handover request",
                                       "RR", "CONNECT->snep", "DISC"])[:nframes]}

        def execute(prefix):
            nonlocal dis, nthreads
            try:
                ex = ServiceExec(role, cause, at, point, nframes, apps)
            except Infra:
                raise
            except Exception as e:  # noqa  - the servers cannot be created on this nfcpy
                from sims import term_llc as T
                restore_sockets()
                S.Sched.uninstall()
                T.uninstall()
                ck.fail("service-setup-raises-" + exc_name(e), "creating the SNEP / handover servers on a fresh controller raised %r" % (e,),
                        dict(descr, exception=repr(e)))
                return []
            try:
                try:
                    end = ex.sched.run(prefix, max_steps=2000)
                except S.OutsideBlock as e:
                    ck.fail("service-thread-blocks-outside-locks", str(e), dict(descr, decisions=list(ex.sched.decisions)))
                    return []
                threads = [(t.name, t.state, t.where(), list(t.trace)[-4:], ex.calls.get(t.idx, [])) for t in ex.sched.threads]
                app_results = [(t.name[4:], t.result) for t in ex.app_threads if t.state == "done"]
                choices = list(ex.sched.choices)
                decisions = list(ex.sched.decisions)
                llc = ex.llc
                open_saps = [i for i, x in enumerate(llc.sap) if x is not None]
                fired = ex.script.fired
            finally:
                ex.close()
            replay = dict(descr, decisions=decisions,
                          threads=[{"thread": n, "state": st, "at": wh, "last_points": tr, "socket_calls": [list(c) for c in cl]}
                                   for n, st, wh, tr, cl in threads])
            if end != "quiescent":
                ck.fail("service-livelock", "the threads are still running after %d scheduling steps (%s)" % (len(decisions), descr), replay)
                return choices
            for (n, st, wh, tr, cl) in threads:
                nthreads += 1
                if st == "done":
                    continue
                if n == "link":
                    ck.fail("link-loop-hangs", "the run loop of the link never ends: %s (%s)" % (wh, descr), replay)
                elif n.startswith("app:"):
                    ck.fail("hang-blocked-" + n[4:].split("#")[0],
                            "application thread in %s is left at %s for ever after the link ended by %s at exchange %d (deterministic "
                            "schedule %s)" % (n[4:], wh, cause, at, decisions), replay)
                else:
                    ck.fail("service-thread-never-exits-" + n.split("#")[0],
                            "service thread %s is left at %s for ever after the link ended by %s (socket calls so far %s)"
                            % (n, wh, cause, cl[-3:]), replay)
            import nfc.llcp
            for name, (kind, val) in app_results:
                if kind == "exc" and not isinstance(val, nfc.llcp.Error):
                    ck.fail("exc-blocked-%s-%s" % (name.split("#")[0], exc_name(val)),
                            "application thread in %s got %s (%s) when the link ended by %s" % (name, exc_name(val), val, cause), replay)
            if open_saps:
                ck.fail("terminate-incomplete-" + cause + ("" if point == "established" else "-before-established"),
                        "after the run loop ended by %s service access points are still open: %s" % (cause, open_saps), replay)
            # the control flow of the service loops against the model's automaton
            if model is not None:
                for (n, st, wh, tr, cl) in threads:
                    if n == "link" or n.startswith("app:") or st != "done":
                        continue
                    start = "accept" if ("listen" in n) else "poll"
                    endp, bad = svc_walk(model_steps["snep" if "_" in n.split("#")[0] else "handover"], start, cl)
                    if bad is None and endp != "exited":
                        bad = "the thread function ended where the model is at %s" % endp
                    if bad is not None:
                        dis += 1
                        ck.fail("tie:service-loop-automaton", "%s: %s (calls %s)" % (n, bad, cl), replay)
            ck.case(("svc", role, cause, at, point, apps, tuple(decisions)), fired or cause == "local-terminate",
                    "L3 %s threads under the scheduler:%s" % ("application+service" if apps else "service", cause))
            return choices
        n, complete = S.explore(execute, bound, per, ck.rng, deviations=1)
        nexec += n
    ck.tie("service loops (listen / serve of the SNEP and handover servers) on a live link that ends: control flow vs the "
           "model's automaton serviceStep", cases=nexec, disagreements=dis, exhaustive=False)
    ck.count("service threads run to their end under the scheduler", nthreads)
    return nexec
