"""C03 - NDEF writes touch nothing outside the NDEF message area (Type 1 / Type 2 Tag part;
Type 3/4 are the plug-in part c03_t34).

L1: theorems of NfcVerif.Props.C03 (write / format confinement for every well-formed image) and
    NfcVerif.Props.C03Ctl (Lock/Memory Control TLV range decoding over the whole field space,
    control TLV images read back as the specified reserved ranges, protect() and the vendor
    format() confined to lock / configuration bytes resp. the data area).
L2: model vs nfcpy: write commands of NDEF writes, of Type2Tag.format(wipe) (generic and every
    tt2_nxp product class), of Topaz/Topaz512.format(version, wipe), of protect(); the pure range
    functions get_lock_byte_range / get_rsvd_byte_range of tt1.py and tt2.py against the model.
L3: real code: byte-wise diff of the simulated memory before/after a write / format / protect
    against the area computed by the layout generator FROM THE SPECIFICATION (not by nfcpy, not by
    the model); address ranges of all commands.
"""
import logging
import os

from common import Model, hx, exc_name, INTERNAL

logging.disable(logging.CRITICAL)

LEAN_TARGETS = ["NfcVerif.Props.C03", "NfcVerif.Props.C03Ctl", "NfcVerif.Props.C03Sess", "NfcVerif.Props.C03Sect", "drv_t12", "drv_c03"]
PARTS = ["t34"] if os.path.exists(os.path.join(os.path.dirname(os.path.abspath(__file__)), "c03_t34.py")) else []

THEOREMS = [
    "NfcVerif.C03.t12_write_confined",
    "NfcVerif.C03.t12_commands_confined",
    "NfcVerif.C03.t2_format_confined",
    "NfcVerif.C03.t1_format_confined",
    "NfcVerif.C03.t12_long_length_counterexample",   # documents that hypothesis Hdr3 is necessary
]

THEOREMS_CTL = [
    "NfcVerif.C03Ctl.ctlRange_spec",
    "NfcVerif.C03Ctl.ctlRange_size_zero",
    "NfcVerif.C03Ctl.ctlRange_count_bounds",
    "NfcVerif.C03Ctl.ctl_walk_reserves",
    "NfcVerif.C03Ctl.ctl_bytes_kept",
    "NfcVerif.C03Ctl.t1_format_version_confined",
    "NfcVerif.C03Ctl.nxp_format_confined",
    "NfcVerif.C03Ctl.t2_protect_confined",
    "NfcVerif.C03Ctl.nxp_protect_confined",
    "NfcVerif.C03Ctl.t1_protect_confined",
]

THEOREMS_SESS = [
    "NfcVerif.C03Sess.session_steps_fresh",
    "NfcVerif.C03Sess.session_write_confined",
    "NfcVerif.C03Sess.format_then_write_confined",
    "NfcVerif.C03Sess.topaz_format_then_write_confined",
    "NfcVerif.C03Sess.format_keep_cache_counterexample",   # what Tag.format's `self._ndef = None` is needed for
]

THEOREMS_SECT = [
    "NfcVerif.C03Sect.sector_belief_sound",
    "NfcVerif.C03Sect.sector_belief_sound_from",
    "NfcVerif.C03Sect.reader_commands_land",
    "NfcVerif.C03Sect.reader_selects_sector",
    "NfcVerif.C03Sect.sector_select_keeps_belief",
    "NfcVerif.C03Sect.reactivation_sound",
    "NfcVerif.C03Sect.unfaithful_ack_counterexample",   # why the passive ack must be assumed faithful
]

FIELD_RUNS = []
_LAP = [None, []]


def lap(ck, name):
    """wall time per section, reported in the evidence notes only (nothing depends on it)"""
    import time
    now = time.time()
    if _LAP[0] is not None:
        _LAP[1].append("%s %.1fs" % (_LAP[0][0], now - _LAP[0][1]))
    _LAP[0] = (name, now) if name else None
    if not name:
        ck.notes.append("section wall times: " + ", ".join(_LAP[1]))
        del _LAP[1][:]


def in_area(lay, a):
    return lay["off"] <= a < lay["end"] and a not in lay["skip"]


def where_of(lay, a):
    if a in lay["skip"] and a < lay["end"]:
        for t, d0, d1, d2, f, c, w in lay.get("ctl", []):
            if f <= a < f + c:
                return "%s byte declared by the %s control TLV %02x %02x %02x" % (
                    "lock" if t == 1 else "reserved", "lock" if t == 1 else "memory", d0, d1, d2)
        return "reserved by a control TLV"
    if a >= lay["end"]:
        return "behind the data area"
    return "in front of the NDEF TLV length field"


def judge(ck, lay, kind, base, final, cmds, what, replay, prefix):
    """confinement of one operation, judged against the generator's own layout description"""
    bad = [a for a in range(len(base)) if base[a] != final[a] and not (in_area(lay, a) and a != lay["off"])]
    if bad:
        a = bad[0]
        ck.fail(prefix + "-outside-area", "%s %s: byte %d (%s) changed %02x -> %02x (NDEF TLV at %d, area end %d)"
                % (kind, what, a, where_of(lay, a), base[a], final[a], lay["off"], lay["end"]), replay)
    for a, d in cmds:
        if not any(in_area(lay, x) for x in range(a, a + len(d))):
            ck.fail(prefix + "-command-outside-area", "%s %s: write command for bytes %d..%d lies wholly outside the "
                    "NDEF area" % (kind, what, a, a + len(d) - 1), replay)
            break
    return not bad


class Tie(object):
    """collects (request, implementation line, replay) triples for one driver and compares in one batch"""

    def __init__(self, ck, model, key, title):
        self.ck, self.model, self.key, self.title, self.jobs = ck, model, key, title, []

    def add(self, req, line, replay):
        self.jobs.append((req, line, replay))

    def close(self, exhaustive=False):
        replies = self.model.ask_many([j[0] for j in self.jobs])
        dis = 0
        for (req, line, replay), rep in zip(self.jobs, replies):
            if rep != line:
                dis += 1
                self.ck.fail("tie:" + self.key, "model %r, implementation %r" % (rep[:300], line[:300]),
                             dict(replay, request=req[:4000], model=rep[:4000], impl=line[:4000]))
        self.ck.tie(self.title, cases=len(self.jobs), disagreements=dis, exhaustive=exhaustive)
        return dis


def write_case(ck, lay, n_of_cap, tie, bucket, f1, sample=False):
    """one NDEF write by the real code on `lay`: oracle + tie job.  `n_of_cap(cap)` chooses the length from the
    capacity REPORTED by the code (the longest accepted message must stay inside, too)."""
    from sims.t12_run import Run, read_line
    from sims.t12_tags import make_sim
    kind = lay["kind"]
    rng = ck.rng
    base0 = bytes(lay["mem"])
    rp0 = {"op": "write", "kind": kind, "memory": base0.hex(), "layout": lay.get("descr", "")}
    try:
        _, _, nd0 = read_line(kind, make_sim(lay))
        cap = nd0.capacity if nd0 is not None else lay["free"] - (4 if lay["free"] > 256 else 2)
        n = max(1 if f1 else 0, n_of_cap(cap))
        data = bytes(rng.randrange(256) for _ in range(n))
        r = Run(lay, data)
    except Exception as e:  # noqa - the code under test answered with something the harness does not expect
        ck.fail("t12-unexpected-exception", "%s: reading / writing a well-formed tag raised %s: %s" % (kind, exc_name(e), e), rp0)
        return None
    tie.add(r.request(), r.line, r.replay())
    edge = n >= 255 and not lay["hdr3"]
    if edge:
        # outside the quantifier: the new message needs the 3-byte length field FF hi lo and byte off+2 or
        # off+3 is reserved, i.e. a reserved range on the NDEF TLV's length-field bytes.  No confinement claim
        # here (theorem hypothesis Hdr3); the case still takes part in the model-vs-code comparison.
        ck.case(("write-excluded", kind, r.base, data), False, "write:%s:length-field-on-reserved(excluded)" % kind)
        return r
    if r.nd is None:
        ck.fail("t12-wellformed-layout-not-read", "%s: %s (%s)" % (kind, r.before, lay.get("descr", "")), r.replay())
        return r
    ck.case(("write", kind, r.base, data), len(r.cmds) > 0,
            "%s:%s:%s" % (bucket, kind, "rejected" if r.wrote != "ok" else "ok"),
            sample={"op": "write", "kind": kind, "off": r.off, "len": n, "commands": len(r.cmds),
                    "layout": lay.get("descr", "")} if sample else None)
    if r.off != lay["off"]:
        ck.fail("t12-ndef-tlv-position", "%s: NDEF TLV found at %d, the layout has it at %d (%s)"
                % (kind, r.off, lay["off"], lay.get("descr", "")), r.replay())
    if r.wrote not in ("ok", "exc ValueError") or (r.wrote == "exc ValueError" and n <= cap):
        ck.fail("t12-write-fails", "%s: write of %d bytes (capacity %d) ended with %s" % (kind, n, cap, r.wrote), r.replay())
    judge(ck, lay, kind, r.base, r.final, r.cmds, "write of %d bytes (%s)" % (n, lay.get("descr", "")), r.replay(), "t12-write")
    return r


def format_case(ck, lay, wipe, tie, bucket, sim_of=None, sample=False, klass=None):
    """Type2Tag.format(wipe=...) by the real code on `lay` (sim_of: vendor simulator factory)"""
    from sims.t12_run import read_line, show_cmds
    from sims.t12_tags import make_sim, activate, T2Sim
    base = bytes(lay["mem"])
    what = "format(wipe=%r)" % (wipe,)
    replay = {"op": "format", "kind": "t2", "memory": base.hex(), "wipe": wipe, "layout": lay.get("descr", ""),
              "class": klass or "Type2Tag", "request": "f %s %d" % (hx(base), -1 if wipe is None else wipe)}
    try:
        sim = make_sim(lay, base) if sim_of is None else sim_of(base)
        tag = activate(sim)
        if klass is not None and type(tag).__name__ != klass:
            ck.fail("t2-vendor-class-not-selected", "activation gave %s, expected %s" % (type(tag).__name__, klass), replay)
            return
        sim.arm(None)
        try:
            res = tag.format(wipe=wipe)
            out = "true" if res is True else "false" if res is False else "none"
        except Exception as e:  # noqa
            out = "exc " + exc_name(e)
        final = bytes(sim.mem)
        cmds = list(sim.writes)
        after, _, nd = read_line("t2", T2Sim(final, sim.sdd))
        after_oct = None if nd is None else bytes(nd.octets)
    except Exception as e:  # noqa
        ck.fail("t2-format-unexpected-exception", "t2 %s raised %s: %s" % (what, exc_name(e), e), replay)
        return
    line = out if out != "true" else "true | %s | %s" % (show_cmds(cmds), after)
    tie.add(replay["request"], line, replay)
    ck.case(("format", klass, base, wipe), len(cmds) > 0, "%s:%s" % (bucket, "wipe" if wipe is not None else "plain"),
            sample={"op": "format", "class": klass or "Type2Tag", "wipe": wipe, "off": lay["off"], "commands": len(cmds),
                    "layout": lay.get("descr", "")} if sample else None)
    if out != "true":
        ck.fail("t2-format-fails", "t2 %s on an NDEF formatted writeable tag returned %s" % (what, out), replay)
        return
    bad = [a for a in range(len(base)) if base[a] != final[a] and not (in_area(lay, a) and a != lay["off"])]
    if bad:
        a = bad[0]
        key = "t2-format-terminator-outside-area" if final[a] == 0xFE and a == lay["off"] + 2 else "t2-format-outside-area"
        ck.fail(key, "t2 %s: byte %d (%s) changed %02x -> %02x (NDEF TLV at %d, area end %d; %s)"
                % (what, a, where_of(lay, a), base[a], final[a], lay["off"], lay["end"], lay.get("descr", "")), replay)
    for a, d in cmds:
        if not any(in_area(lay, x) for x in range(a, a + len(d))):
            ck.fail("t2-format-command-outside-area", "t2 %s: command for bytes %d..%d wholly outside" % (what, a, a + 3), replay)
            break
    if after_oct != b"":
        ck.fail("t2-format-not-empty", "t2 %s: fresh reader sees %s" % (what, after[:80]), replay)
    if wipe is not None and not bad:
        t = lay["off"] + 2
        while t in lay["skip"]:
            t += 1
        left = [a for a in range(t + 1, lay["end"]) if a not in lay["skip"] and final[a] != wipe & 0xFF]
        if left:
            ck.fail("t2-format-wipe-incomplete", "t2 %s: byte %d not wiped" % (what, left[0]), replay)


def run(ck):
    from sims.t12_run import layout_with_old, BOUNDARY_FREE
    from sims.t12_tags import f1_present
    from sims import c03_layouts as G
    rng = ck.rng
    ck.rule = ("case = (operation write|format|format+wipe|protect, tag kind / product class, memory image, message / "
               "wipe byte / password); layouts: (a) as in C01 with emphasis on reserved ranges right after the length "
               "field, at the last bytes of the data area and behind it, (b) the whole Lock/Memory Control TLV field "
               "space (sims/c03_layouts: size field 00h = 256 and every boundary bit/byte count, every page size "
               "exponent and byte offset that can address the position, ranges before / right behind the length byte / "
               "inside / straddling the end / ending at the end / directly behind / beyond the data area, 1-4 TLVs with "
               "overlapping ranges, raw random field values, proprietary TLVs in front; Type 2 data areas 48..2040 "
               "bytes incl. the sector boundary at 1024, Type 1 dynamic 128..2048 bytes), (c) a deterministic sweep "
               "type x size field x position x exponent with one TLV, message = capacity, (d) every tt2_nxp product "
               "class on its own memory map; non-trivial = the operation issued at least one write command; distinct by hash")
    ck.assumptions += [
        "the tag is plain memory ('keep their values' is judged on stored bytes; real lock bits are one-way); NXP "
        "products: BCC1/INTERNAL (first two bytes of page 2) are read-only in hardware",
        "well-formed layouts as in C01 (NfcVerif.Tlv.WF); format() is judged only on tags that already carry NDEF "
        "management data (erase semantics), Topaz format only on factory-formatted Topaz/Topaz-512 layouts; the "
        "vendor format() that first restores factory TLVs is judged on tags with a valid capability container",
        "reserved ranges of a layout = what the NFC Forum T1T/T2T specification says its control TLVs declare "
        "(sims/c03_layouts.spec_range), computed without nfcpy and without the model",
        "the model equals the Python functions outside the compared inputs (the tie is a sample, exhaustive only "
        "where stated)",
    ]
    ck.trusted += ["hand-written Lean models NfcVerif.Model.Tlv, Model.T1Format, Model.CtlC03 tied to tt1.py/tt2.py/"
                   "tt1_broadcom.py/tt2_nxp.py by differential runs",
                   "harness/sims/t12_tags.py, t12_run.py, c03_layouts.py, c03_vendor.py, harness/props/c03.py"]
    lap(ck, "lean")
    ck.lean("NfcVerif.Props.C03", THEOREMS)
    ck.lean("NfcVerif.Props.C03Ctl", THEOREMS_CTL)
    ck.lean("NfcVerif.Props.C03Sess", THEOREMS_SESS)
    ck.lean("NfcVerif.Props.C03Sect", THEOREMS_SECT)
    if ck.thorough:
        ck.leanchecker(["NfcVerif.Props.C03", "NfcVerif.Props.C03Ctl", "NfcVerif.Props.C03Sess", "NfcVerif.Props.C03Sect"])
    lap(ck, "drivers")
    model = Model("drv_t12")
    model3 = Model("drv_c03")
    f1 = f1_present()
    if f1:
        ck.notes.append("this tree still has defect F1 (empty message -> UnboundLocalError, reported by C01): "
                        "empty messages are left out of this run")

    lap(ck, "write-c01-layouts")
    wt = Tie(ck, model, "t12-write-model-vs-nfcpy", "Tlv model vs tt1/tt2 NDEF write: ordered write commands and resulting memory")
    nlay = 12000 if ck.thorough else 400
    targets = [(k, t) for t in BOUNDARY_FREE for k in ("t2", "t1d") if not (k == "t1d" and t < 10)]
    targets = targets * (8 if ck.thorough else 2)
    for i in range(nlay + len(targets)):
        try:
            if i >= nlay:
                # exactly 2..5 / 253..261 free bytes behind the NDEF TLV: both sides of every capacity threshold
                kind, tf = targets[i - nlay]
                lay = layout_with_old(rng, kind, False, [0, 5, 254, lambda f: f - 4], target_free=tf)
                ck.count("boundary layouts (free bytes 2..5, 253..261)")
                pick = lambda cap: rng.choice([cap, cap, cap - 1])  # noqa
            else:
                kind = ("t2", "t2", "t1d", "t1s")[i % 4]
                lay = layout_with_old(rng, kind, ck.thorough and rng.random() < 0.1, [0, 5, 200, 255, 300, lambda f: f - 4])
                pick = lambda cap: rng.choice([0, 1, 2, 3, 254, 255, cap - 1, cap, cap, cap + 1, rng.randrange(0, max(1, cap + 1))])  # noqa
        except Exception as e:  # noqa - layout_with_old runs nfcpy-free code only; keep going anyway
            ck.notes.append("layout generator: %s" % e)
            continue
        write_case(ck, lay, pick, wt, "write", f1, sample=i < 3)

    lap(ck, "write-fieldspace")
    nfield = 4800 if ck.thorough else 420
    kinds = ["t2", "t2", "t2", "t1d", "t1d", "t1s"]
    for i in range(nfield):
        kind = kinds[i % len(kinds)]
        lay = G.gen_field_layout(rng, kind)
        lay = G.with_old(rng, lay, [0, 5, 40, 254, 255, 300, lambda f: f - 4, lambda f: f - 2])
        if lay is None:
            continue
        lay["descr"] = G.describe(lay)
        for t, d0, d1, d2, f, c, w in lay["ctl"]:
            ck.count("control TLV: %s, %s, size field %s" % ("lock" if t == 1 else "memory", w,
                                                               "00h" if d1 == 0 else "other"))
        ck.count("data area: %s" % ("<= 256" if lay["end"] <= 272 else "<= 1024" if lay["end"] <= 1024 else "> 1024 (sector 1+)"))
        FIELD_RUNS.append(write_case(ck, lay, lambda cap: rng.choice([cap, cap, cap, cap - 1, cap + 1, 254, 255, 256, rng.randrange(0, max(1, cap + 1))]),
                                     wt, "write-fieldspace", f1, sample=i < 2))

    lap(ck, "write-sweep+tie")
    sweeps = [("t2", 62), ("t2", 129), ("t1d", 64)] if not ck.thorough else [("t2", 40), ("t2", 62), ("t2", 129), ("t1d", 64), ("t1d", 130)]
    sweep_lays = []
    for kind, size in sweeps:
        for lay in G.sweep(kind, size, rng, ck.thorough, 3, (ck.seed + size) % 3):
            lay = G.with_old(rng, lay, [0, 7, lambda f: f - 4])
            if lay is None:
                continue
            lay["descr"] = G.describe(lay)
            sweep_lays.append(lay)
            ck.count("sweep layouts")
            FIELD_RUNS.append(write_case(ck, lay, lambda cap: cap, wt, "write-sweep", f1))
    wt.close()
    # how many of the judged field-space cases satisfy the hypotheses of the theorems (measured, by the drivers):
    # WF + Hdr3 (t12_write_confined) and the chain hypotheses of ctl_walk_reserves / ctl_bytes_kept
    hyp = [(r.kind, r.base, len(r.data)) for r in FIELD_RUNS if r is not None and r.nd is not None]
    wf = model.ask_many(["wf %s %s %d" % (k, hx(b), n) for k, b, n in hyp])
    ch = model3.ask_many(["hyp %s %s" % (k, hx(b)) for k, b, n in hyp])
    ck.dist["field-space cases inside the hypotheses WF+Hdr3 of t12_write_confined"] = "%d of %d" % (wf.count("1"), len(hyp))
    ck.dist["field-space cases inside the chain hypotheses of ctl_bytes_kept"] = "%d of %d" % (ch.count("1"), len(hyp))
    for (k, b, n), w, c in zip(hyp, wf, ch):
        if c == "1" and w == "0" and n < 255:
            # chain_wf proves WF from the chain hypotheses: the two driver answers must agree
            ck.fail("tie:chain-implies-wf", "driver says chainOk but not WF", {"kind": k, "memory": b.hex(), "len": n})
    del FIELD_RUNS[:]

    lap(ck, "format-t2")
    ft = Tie(ck, model, "t2-format-model-vs-nfcpy", "Tlv model vs Type2Tag.format (commands, resulting memory)")
    wipes = lambda: rng.choice([None, None, 0, 0xFF, rng.randrange(256), 256 + rng.randrange(256)])  # noqa
    nfmt = 12000 if ck.thorough else 400
    for i in range(nfmt):
        lay = layout_with_old(rng, "t2", False, [0, 5, 40, 255, lambda f: f - 4, lambda f: f - 2])
        if i % 5 == 0:
            lay["sdd"] = b"\x04\x02\x03\x04\x05\x06\x07"     # NXP: activates as MifareUltralight (tt2_nxp)
        format_case(ck, lay, wipes(), ft, "format:t2", sample=i < 2)
    for i in range(3000 if ck.thorough else 300):
        lay = G.gen_field_layout(rng, "t2")
        lay = G.with_old(rng, lay, [0, 5, 40, 255, lambda f: f - 4, lambda f: f - 2])
        if lay is None:
            continue
        lay["descr"] = G.describe(lay)
        format_case(ck, lay, wipes(), ft, "format-fieldspace:t2", sample=i < 1)
    for lay in sweep_lays:
        if lay["kind"] == "t2":
            format_case(ck, dict(lay, mem=bytearray(lay["mem"])), rng.choice([0, 0xFF, 0x5A]), ft, "format-sweep:t2")

    lap(ck, "vendor")
    vendor(ck, model, model3, wt2=Tie(ck, model, "t12-write-model-vs-nfcpy", "Tlv model vs tt2_nxp product classes NDEF write"),
           ft=ft, f1=f1)
    ft.close()

    lap(ck, "topaz")
    topaz(ck, model, model3)

    lap(ck, "ctl-functions")
    ctl_functions(ck, model3)

    lap(ck, "protect")
    protect(ck, model3)

    # ------------------------------------------------------------------ sequences of operations on one tag object
    lap(ck, "sequences")
    sequences(ck, model3)

    # ------------------------------------------------------------------ several sectors, a fault on any exchange
    lap(ck, "sectors")
    sectors(ck, model3)
    lap(ck, None)


# ====================================================================== vendor classes
def vendor_layout(rng, G, product, mode):
    """field-space layout inside the memory map of `product` (data area = the product's factory CC size);
    the dynamic lock bytes / configuration pages behind the data area hold random values"""
    from sims.c03_vendor import PRODUCTS, nxp_image
    p = PRODUCTS[product]
    if mode == "factory":
        mem = nxp_image(rng, product)
        end = 16 + 8 * p["cc"]
        skip = set()
        o = 16
        ctl = []
        if mem[16] == 1:
            f, c = G.spec_range(1, mem[18], mem[19], mem[20])
            skip |= set(range(f, f + c))
            ctl.append((1, mem[18], mem[19], mem[20], f, c, "factory"))
            o = 21
        lay = dict(kind="t2", mem=mem, off=o, skip=skip, end=end, ok=True, hdr3=o + 4 <= end, nctl=len(ctl), ctl=ctl,
                   free=len([a for a in range(o, end) if a not in skip]))
        return lay
    for _ in range(40):
        lay = G.gen_field_layout(rng, "t2", size=p["cc"])
        mem = bytearray(rng.randrange(256) for _ in range(4 * p["pages"]))
        n = min(len(mem), len(lay["mem"]))
        mem[0:n] = lay["mem"][0:n]
        mem[0:10] = bytes([0x04, 0x51, 0x7C, 0xA1, 0xE1, 0xED, 0x25, 0x80, 0xA9, 0x48])
        if lay["end"] > len(mem):
            continue
        lay["mem"] = mem
        return lay
    return None


def vendor(ck, model, model3, wt2, ft, f1):
    from sims import c03_layouts as G
    from sims.c03_vendor import PRODUCTS, NxpSim, NXP_SDD
    rng = ck.rng
    reps = 18 if ck.thorough else 5
    vt = Tie(ck, model3, "nxp-format-model-vs-nfcpy", "CtlC03 model vs tt2_nxp _format on tags without NDEF TLV (factory pages, commands, memory)")
    for product in sorted(PRODUCTS):
        p = PRODUCTS[product]
        for i in range(reps):
            lay = vendor_layout(rng, G, product, "factory" if i % 3 == 0 else "field")
            if lay is None:
                continue
            lay = G.with_old(rng, lay, [0, 5, 40, 255, lambda f: f - 4, lambda f: f - 2])
            if lay is None:
                continue
            lay["sdd"] = NXP_SDD
            lay["descr"] = product + ": " + G.describe(lay)
            ck.count("vendor class %s" % p["cls"])
            sim_of = (lambda prod: lambda base: NxpSim(prod, base))(product)
            # NDEF write through the product class
            vendor_write(ck, lay, sim_of, p["cls"], wt2, f1)
            if i == 0:
                vendor_signature(ck, lay, sim_of, p["cls"])
            # format (erase) through the product class
            format_case(ck, dict(lay, mem=bytearray(lay["mem"])), rng.choice([None, 0, 0xFF, rng.randrange(256)]), ft,
                        "format-vendor:%s" % p["cls"], sim_of=sim_of, klass=p["cls"], sample=(i == 0 and product == "NTAG213"))
        # format on a tag with capability container but WITHOUT a readable NDEF TLV: the NTAG classes first write
        # their factory TLVs to pages 4 and 5
        for j in range(reps):
            vendor_blank_format(ck, product, j, vt)
    wt2.close()
    vt.close()


def vendor_signature(ck, lay, sim_of, klass):
    """NTAG21x.signature (READ_SIG) is a read: no state-changing command, no byte changes"""
    from sims.t12_tags import activate
    base = bytes(lay["mem"])
    replay = {"op": "signature", "class": klass, "memory": base.hex()}
    try:
        sim = sim_of(base)
        tag = activate(sim)
        if not hasattr(type(tag), "signature"):
            return
        sim.arm(None)
        sig = tag.signature
        if sim.writes or bytes(sim.mem) != base:
            ck.fail("t2-signature-writes", "%s.signature sent %d write commands" % (klass, len(sim.writes)), replay)
        if len(sig) != 32:
            ck.fail("t2-signature-length", "%s.signature returned %d bytes" % (klass, len(sig)), replay)
        ck.case(("signature", klass, base), False, "signature:%s" % klass)
    except Exception as e:  # noqa
        ck.fail("t12-unexpected-exception", "%s.signature raised %s: %s" % (klass, exc_name(e), e), replay)


def vendor_write(ck, lay, sim_of, klass, tie, f1):
    from sims.t12_run import read_line, show_cmds
    from sims.t12_tags import activate, T2Sim
    rng = ck.rng
    base = bytes(lay["mem"])
    replay = {"op": "write", "kind": "t2", "class": klass, "memory": base.hex(), "layout": lay["descr"]}
    try:
        sim = sim_of(base)
        tag = activate(sim)
        if type(tag).__name__ != klass:
            ck.fail("t2-vendor-class-not-selected", "activation gave %s, expected %s" % (type(tag).__name__, klass), replay)
            return
        before, _, nd = read_line("t2", T2Sim(base, sim.sdd))
        nd = tag.ndef
        if nd is None:
            ck.fail("t12-wellformed-layout-not-read", "%s: %s" % (klass, lay["descr"]), replay)
            return
        cap = nd.capacity
        n = max(1 if f1 else 0, rng.choice([cap, cap, cap - 1, 255, 254, rng.randrange(0, max(1, cap + 1))]))
        n = max(0, min(n, cap)) if n > cap + 1 else max(0, n)
        data = bytes(rng.randrange(256) for _ in range(n))
        replay["data"] = data.hex()
        replay["request"] = "w t2 %s %s 0" % (hx(base), hx(data))
        sim.arm(None)
        try:
            nd.octets = data
            wrote = "ok"
        except Exception as e:  # noqa
            wrote = "exc " + exc_name(e)
        cmds = list(sim.writes)
        final = bytes(sim.mem)
        after, _, _ = read_line("t2", T2Sim(final, sim.sdd))
    except Exception as e:  # noqa
        ck.fail("t12-unexpected-exception", "%s: reading / writing raised %s: %s" % (klass, exc_name(e), e), replay)
        return
    tie.add(replay["request"], "%s | %s | %s | %s" % (before, wrote, show_cmds(cmds), after), replay)
    if n >= 255 and not lay["hdr3"]:
        ck.case(("write-excluded", klass, base, data), False, "write-vendor:length-field-on-reserved(excluded)")
        return
    ck.case(("write", klass, base, data), len(cmds) > 0, "write-vendor:%s" % klass)
    if wrote not in ("ok", "exc ValueError") or (wrote == "exc ValueError" and n <= cap):
        ck.fail("t12-write-fails", "%s: write of %d bytes (capacity %d) ended with %s" % (klass, n, cap, wrote), replay)
    judge(ck, lay, klass, base, final, cmds, "write of %d bytes (%s)" % (n, lay["descr"]), replay, "t12-write")


def vendor_blank_format(ck, product, j, tie):
    """format() on a tag of `product` whose data area does not start with a readable NDEF TLV structure"""
    from sims.c03_vendor import PRODUCTS, NxpSim, nxp_image
    from sims.t12_run import read_line, show_cmds
    from sims.t12_tags import activate, T2Sim
    from sims import c03_layouts as G
    rng = ck.rng
    p = PRODUCTS[product]
    mem = nxp_image(rng, product, ndef=False)
    end = 16 + 8 * p["cc"]
    variant = ("terminator", "zeros", "proprietary", "no-cc", "readonly", "garbage-tlv")[j % 6]
    if variant == "terminator":
        mem[16] = 0xFE
    elif variant == "zeros":
        mem[16:end] = bytes(end - 16)
    elif variant == "proprietary":
        mem[16:20] = bytes([0xFD, 1, 0x55, 0xFE])
    elif variant == "no-cc":
        mem[12] = rng.choice([0x00, 0xE0, 0xFF])
    elif variant == "readonly":
        mem[16:19] = bytes([3, 0, 0xFE])
        mem[15] = 0x0F
    else:
        mem[16:18] = bytes([0x44, 0xFF])      # unknown TLV whose 3-byte length runs out of the memory
        mem[18:20] = bytes([0xFF, 0xF0])
    wipe = rng.choice([None, None, 0, 0xA5])
    base = bytes(mem)
    what = "%s.format(wipe=%r) on a tag with %s" % (p["cls"], wipe, variant)
    replay = {"op": "format", "class": p["cls"], "product": product, "memory": base.hex(), "wipe": wipe, "variant": variant,
              "request": "nf %s %s %d" % (hx(p["factory"] or b""), hx(base), -1 if wipe is None else wipe)}
    try:
        sim = NxpSim(product, base)
        tag = activate(sim)
        sim.arm(None)
        try:
            res = tag.format(wipe=wipe)
            out = "true" if res is True else "false" if res is False else "none"
        except Exception as e:  # noqa
            out = "exc " + exc_name(e)
        final = bytes(sim.mem)
        cmds = list(sim.writes)
        after, _, nd = read_line("t2", T2Sim(final, sim.sdd))
    except Exception as e:  # noqa
        ck.fail("t2-format-unexpected-exception", "%s raised %s: %s" % (what, exc_name(e), e), replay)
        return
    tie.add(replay["request"], "%s | %s | %s" % (out, show_cmds(cmds), after), replay)
    ck.case(("format-blank", product, base, wipe), len(cmds) > 0, "format-vendor-no-ndef:%s:%s" % (variant, out.split()[0]))
    if out.startswith("exc"):
        ck.fail("t2-format-unexpected-exception", "%s ended with %s" % (what, out), replay)
        return
    changed = [a for a in range(len(base)) if base[a] != final[a]]
    if variant == "readonly":
        if changed:
            ck.fail("t2-format-writes-readonly-tag", "%s: bytes %s changed although the tag is read-only" % (what, changed[:6]), replay)
        return
    if variant == "no-cc":
        # no capability container: there is no declared data area; the property makes no claim (the vendor classes
        # nevertheless write their factory TLVs to pages 4..5 and then give up) - recorded, not judged
        ck.count("vendor format without capability container: %d bytes changed, returned %s" % (len(changed), out))
        return
    # allowed: the data area, minus the lock bytes that the (restored) factory lock control TLV declares
    skip = set()
    f = p["factory"]
    if f is not None and f[0] == 1:
        a, c = G.spec_range(1, f[2], f[3], f[4])
        skip = set(range(a, a + c))
    bad = [a for a in changed if not (16 <= a < end and a not in skip)]
    if bad:
        a = bad[0]
        ck.fail("t2-vendor-format-outside-data-area", "%s: byte %d (%s) changed %02x -> %02x; data area is 16..%d"
                % (what, a, "lock byte" if a in skip else "behind the data area" if a >= end else "identifier/CC",
                   base[a], final[a], end - 1), replay)
    for a, d in cmds:
        if not any(16 <= x < end and x not in skip for x in range(a, a + len(d))):
            ck.fail("t2-vendor-format-command-outside-data-area", "%s: WRITE to bytes %d..%d" % (what, a, a + 3), replay)
            break
    if out == "true" and (nd is None or bytes(nd.octets) != b""):
        ck.fail("t2-format-not-empty", "%s: fresh reader sees %s" % (what, after[:80]), replay)


# ====================================================================== Topaz
def topaz(ck, model, model3):
    from sims.t12_run import read_line, show_cmds
    from sims.t12_tags import T1Sim, activate, clone, put_ndef
    rng = ck.rng
    t1 = Tie(ck, model3, "t1-format-model-vs-nfcpy", "T1Format/CtlC03 model vs Topaz/Topaz512.format(version, wipe) (commands, resulting memory)")
    for i in range(900 if ck.thorough else 90):
        dyn = i % 2 == 1
        size = 512 if dyn else 120
        mem = bytearray(rng.randrange(256) for _ in range(size))
        mem[0:8] = b"\x01\x02\x03\x04\x05\x06\x07\x00"
        if dyn:
            mem[8:24] = bytes.fromhex("E1103F000103F230330203F002030300")
            off, skip, hr = 22, set(range(104, 128)), b"\x12\x4C"
        else:
            mem[8:14] = bytes.fromhex("E1100E000300")
            off, skip, hr = 12, set(range(104, 120)), b"\x11\x48"
        lay = {"kind": "t1d" if dyn else "t1s", "mem": mem, "off": off, "skip": skip, "end": size, "hr": hr}
        put_ndef(mem, off, skip, bytes(rng.randrange(256) for _ in range(rng.choice([0, 7, 60]))), size)
        wipe = rng.choice([None, 0, rng.randrange(256), 256 + rng.randrange(256)])
        # version: None, a minor version of major 1 (allowed: the version byte of the CC is rewritten), or another
        # major version (format must refuse WITHOUT writing anything)
        version = rng.choice([None, None, None, 0x10, 0x10, 0x11, 0x12, 0x1F, 0x20, 0x0F, 0x00, 0xFF]) if i >= 20 else None
        if version is not None and version >> 4 == 1:
            mem[9] = rng.choice([0x10, version, version])
        base = bytes(mem)
        replay = {"op": "format", "kind": lay["kind"], "memory": base.hex(), "wipe": wipe, "version": version, "header_rom": hr.hex()}
        try:
            sim = T1Sim(hr, base)
            tag = activate(sim)
            sim.arm(None)
            try:
                res = tag.format(version=version, wipe=wipe)
            except Exception as e:  # noqa
                res = "exc " + exc_name(e)
            writes = list(sim.writes)
            final = bytes(sim.mem)
            after, _, nd = read_line(lay["kind"], clone(sim))
        except Exception as e:  # noqa
            ck.fail("t1-format-unexpected-exception", "%s format raised %s: %s" % (lay["kind"], exc_name(e), e), replay)
            continue
        ck.case(("format", lay["kind"], base, wipe, version), len(writes) > 0,
                "format:%s:%s" % (lay["kind"], "version=None" if version is None else "version major %d" % (version >> 4)))
        what = "format(version=%r, wipe=%r)" % (version, wipe)
        out = "true" if res is True else "false" if res is False else str(res)
        t1.add("ft1v %s %s %d %d" % (lay["kind"], hx(base), -1 if wipe is None else wipe, -1 if version is None else version),
               "%s | %s | %s" % (out, show_cmds(writes), after), replay)
        if version is not None and version >> 4 != 1:
            if res is not False:
                ck.fail("t1-format-version-not-refused", "%s %s returned %s" % (tag, what, res), replay)
            if writes or final != base:
                ck.fail("t1-format-refused-but-wrote", "%s %s refused but sent %d write commands" % (tag, what, len(writes)), replay)
            continue
        if res is not True:
            ck.fail("t1-format-fails", "%s %s returned %s" % (tag, what, res), replay)
            continue
        # with a version argument the CC version byte (9) may change, nothing else outside the area
        base_j = bytearray(base)
        if version is not None:
            if final[9] != version:
                ck.fail("t1-format-version-not-stored", "%s %s: CC version byte is %02x" % (tag, what, final[9]), replay)
            base_j[9] = final[9]
        cmds_j = [(a, d) for a, d in writes if not (version is not None and a <= 9 < a + len(d))]
        judge(ck, lay, lay["kind"], bytes(base_j), final, cmds_j, what, replay, "t1-format")
        if nd is None or bytes(nd.octets) != b"":
            ck.fail("t1-format-not-empty", "%s format: fresh reader sees %s" % (lay["kind"], after[:80]), replay)
    t1.close()


# ====================================================================== range functions
def ctl_functions(ck, model3):
    """get_lock_byte_range / get_rsvd_byte_range of tt1.py and tt2.py on the whole field space: against the
    specification (oracle) and against the model's ctlRange (tie).  One driver request covers the 256 size field
    values of one (type, d0, d2)."""
    from sims import c03_layouts as G
    import nfc.tag.tt1
    import nfc.tag.tt2
    rng = ck.rng
    mods = [("t2", nfc.tag.tt2, 0x100000), ("t1", nfc.tag.tt1, 0x800)]
    if ck.thorough:
        d0s = list(range(256))
        d2s = list(range(16)) + [0xF0 | e for e in range(16)]
    else:
        d0s = sorted(set([0, 1, 0x0F, 0x10, 0x11, 0x1F, 0x80, 0x8F, 0xA0, 0xF0, 0xF2, 0xFF] + [rng.randrange(256) for _ in range(12)]))
        d2s = list(range(16)) + [0x30 | rng.randrange(16), 0xF0 | rng.randrange(16)]
    reqs, lines, metas = [], [], []
    bad_spec = 0
    for name, mod, limit in mods:
        for t in (1, 2):
            fn = mod.get_lock_byte_range if t == 1 else mod.get_rsvd_byte_range
            for d0 in d0s:
                for d2 in d2s:
                    out = []
                    for d1 in range(256):
                        try:
                            s = fn(bytearray([d0, d1, d2]))
                            a, b, _ = s.indices(limit)
                            got = (a, max(a, b))
                        except Exception as e:  # noqa
                            got = "exc " + exc_name(e)
                        f, c = G.spec_range(t, d0, d1, d2)
                        want = (min(f, limit), min(f + c, limit))
                        if got != want:
                            bad_spec += 1
                            ck.fail("t12-control-tlv-range-wrong",
                                    "%s.%s(%02x %02x %02x) gives bytes %s, the specification says %d..%d (size field %s)"
                                    % (mod.__name__, fn.__name__, d0, d1, d2, got, want[0], want[1] - 1,
                                       "00h = 256" if d1 == 0 else "%d" % d1),
                                    {"op": "range", "module": mod.__name__, "function": fn.__name__, "value": "%02x%02x%02x" % (d0, d1, d2)})
                        out.append("%d-%d" % got if isinstance(got, tuple) else got)
                        ck.evals += 1
                    reqs.append("ctl %s %d %d %d" % (name, t, d0, d2))
                    lines.append(",".join(out))
                    metas.append({"op": "range", "module": mod.__name__, "type": t, "d0": d0, "d2": d2})
    ck.dist["control TLV range function evaluations (%s)" % ("all d0 x d1 x exponent" if ck.thorough else "all d1 x exponent, sampled d0")] = len(reqs) * 256
    ck.nontrivial.add(b"ctl-functions")
    replies = model3.ask_many(reqs)
    dis = 0
    for req, line, rep, meta in zip(reqs, lines, replies, metas):
        if rep != line:
            dis += 1
            a, b = rep.split(","), line.split(",")
            k = next((i for i in range(min(len(a), len(b))) if a[i] != b[i]), 0)
            ck.fail("tie:ctl-range-model-vs-nfcpy", "size field %02x: model %s, implementation %s" % (k, a[k:k + 1], b[k:k + 1]),
                    dict(meta, request=req, d1=k))
    ck.tie("ctlRange model vs get_lock_byte_range/get_rsvd_byte_range of tt1.py and tt2.py (x 256 size field values each)",
           cases=len(reqs), disagreements=dis, exhaustive=False)
    if ck.thorough:
        ck.notes.append("control TLV range functions: every d0 x every size field x every exponent (d2 high nibble 0 and F) "
                        "compared with the model and the specification")


# ====================================================================== protect
def protect(ck, model3):
    """protect() of the generic and vendor classes: only the access byte of the capability container, static and
    dynamic lock bytes and the product's configuration / key pages may change; never the NDEF message area"""
    from sims import c03_layouts as G
    from sims.c03_vendor import PRODUCTS, NxpSim, NXP_SDD, nxp_image
    from sims.t12_run import read_line, show_cmds
    from sims.t12_tags import activate, T2Sim, T1Sim, make_sim, put_ndef
    rng = ck.rng
    pt = Tie(ck, model3, "protect-model-vs-nfcpy", "CtlC03 model vs protect() without password: Type2Tag, tt2_nxp lock-bit classes, Type1Tag/Topaz (commands, resulting memory)")

    def run_protect(sim, klass, base, args, allowed, replay, lay=None, req=None, judged=True):
        try:
            tag = activate(sim)
            if klass is not None and type(tag).__name__ != klass:
                ck.fail("t2-vendor-class-not-selected", "activation gave %s, expected %s" % (type(tag).__name__, klass), replay)
                return
            sim.arm(None)
            try:
                res = tag.protect(*args)
                out = "true" if res is True else "false" if res is False else "none"
            except Exception as e:  # noqa
                out = "exc " + exc_name(e)
            final = bytes(sim.mem)
            cmds = list(sim.writes)
        except Exception as e:  # noqa
            ck.fail("protect-unexpected-exception", "%s protect%r raised %s: %s" % (klass, args, exc_name(e), e), replay)
            return
        ck.case(("protect", klass, base, args), len(cmds) > 0, "protect:%s:%s" % (klass or "generic", "password" if args[0] is not None else "lockbits"))
        if req is not None:
            pt.add(req, "%s | %s | %s" % (out, show_cmds(cmds), hx(final)), replay)
        if not judged:
            return
        if out.startswith("exc") and out[4:] in INTERNAL:
            # a TagCommandError is a documented outcome (e.g. the declared lock bytes lie beyond the physical memory)
            key = "nxp-ev1-protect-attribute-error" if (out == "exc AttributeError" and klass in ("MF0UL11", "MF0UL21")) else "protect-unexpected-exception"
            ck.fail(key, "%s.protect%r ended with %s after %d write commands" % (klass, args, out, len(cmds)), replay)
        bad = [a for a in range(len(base)) if base[a] != final[a] and a not in allowed]
        if bad:
            a = bad[0]
            inmsg = lay is not None and in_area(lay, a)
            ck.fail("protect-changes-ndef-area" if inmsg else "protect-outside-lock-config",
                    "%s.protect%r: byte %d (%s) changed %02x -> %02x" % (
                        klass, args, a, "NDEF message area" if inmsg else "not a lock / access / configuration byte", base[a], final[a]), replay)
        for a, d in cmds:
            if not any(x in allowed for x in range(a, a + len(d))):
                ck.fail("protect-command-outside-lock-config", "%s.protect%r: write command for bytes %d..%d" % (klass, args, a, a + len(d) - 1), replay)
                break

    # generic Type 2 Tag: lock control TLVs of the whole field space, default dynamic lock bytes
    for i in range(2500 if ck.thorough else 250):
        # physical memory a multiple of 16 bytes: a READ behind the end is refused instead of rolling over to page 0
        lay = G.gen_field_layout(rng, "t2", wheres=["inside", "tail", "atend", "beyond", "beyond", "straddle", "near", "overlap", "raw"], aligned=True)
        lay = G.with_old(rng, lay, [0, 5, 40, lambda f: f - 4])
        if lay is None:
            continue
        lay["descr"] = G.describe(lay)
        base = bytes(lay["mem"])
        end = lay["end"]
        allowed = {10, 11, 15}
        locks = [(f, c) for t, d0, d1, d2, f, c, w in lay["ctl"] if t == 1]
        if not locks and base[14] > 6:
            nbits = (base[14] * 8 - 48 + 7) // 8
            locks = [(end, (nbits + 7) // 8)]
        for f, c in locks:
            allowed |= set(range(f, f + c))
        replay = {"op": "protect", "kind": "t2", "memory": base.hex(), "layout": lay["descr"], "request": "pt2 %s" % hx(base)}
        run_protect(make_sim(lay, base), "Type2Tag", base, (None, False, 0), allowed, replay, lay, replay["request"])
    # Lock Control TLV with a length other than 3 (malformed, outside the quantifier): the reader ignores it, _protect uses
    # the value field as it is (IndexError for a short one).  Compared with the model only; no confinement claim.
    for i in range(60 if ck.thorough else 12):
        size = rng.choice([6, 12, 18])
        mem = bytearray(rng.randrange(256) for _ in range(16 + size * 8 + 16))
        mem[12:16] = bytes([0xE1, 0x10, size, 0])
        ln = rng.choice([0, 1, 2, 4, 5])
        val = bytes([rng.choice([0x30, 0x50, 0xA0]), rng.choice([0, 8, 16, 33]), rng.choice([2, 3, 4])] + [rng.randrange(256)] * 2)[:ln]
        o = 16
        mem[o:o + 2 + ln] = bytes([1, ln]) + val
        o += 2 + ln
        mem[o:o + 4] = bytes([3, 1, 0x42, 0xFE])
        base = bytes(mem)
        lay = dict(kind="t2", mem=mem, off=o, skip=set(), end=16 + size * 8)
        replay = {"op": "protect", "kind": "t2", "memory": base.hex(), "layout": "lock control TLV with length %d (malformed)" % ln,
                  "request": "pt2 %s" % hx(base)}
        ck.count("protect: malformed lock control TLV length (tie only)")
        run_protect(make_sim(lay, base), "Type2Tag", base, (None, False, 0), set(), replay, lay, replay["request"], judged=False)
    # vendor classes, lock bits and password
    for product in sorted(PRODUCTS):
        p = PRODUCTS[product]
        for i in range(24 if ck.thorough else 4):
            lay = vendor_layout(rng, G, product, "factory")
            lay = G.with_old(rng, lay, [0, 5, 40, lambda f: f - 4])
            lay["descr"] = product
            base = bytes(lay["mem"])
            pw = i % 2 == 1
            if pw:
                password = rng.choice([b"", bytes(rng.randrange(256) for _ in range(16))])
                args = (password, rng.random() < 0.5, rng.choice([0, 3, 4, 16, 300]))
            else:
                args = (None, False, 0)
            allowed = {15}
            if not pw:
                allowed |= {10, 11}
                if p["lock"]:
                    allowed |= set(range(p["lock"][0], p["lock"][0] + p["lock"][1]))
                if p["cls"] in ("Type2Tag", "MifareUltralight", "NT3H1101") and not p["lock"]:
                    pass
                if p["cls"] in ("NT3H1101", "MifareUltralight"):
                    # generic _protect: default dynamic lock position right behind the data area
                    if base[14] > 6:
                        nbits = (base[14] * 8 - 48 + 7) // 8
                        allowed |= set(range(lay["end"], lay["end"] + (nbits + 7) // 8))
            if p["cfg"]:
                allowed |= set(range(p["cfg"][0], p["cfg"][1]))
            replay = {"op": "protect", "class": p["cls"], "product": product, "memory": base.hex(),
                      "args": [None if args[0] is None else args[0].hex(), args[1], args[2]]}
            req = None
            if not pw and p["cls"] in ("MifareUltralightC", "NTAG203", "NTAG210", "NTAG212", "NTAG213", "NTAG215", "NTAG216"):
                cfgpage = {"NTAG210": 16, "NTAG212": 37, "NTAG213": 41, "NTAG215": 131, "NTAG216": 227}.get(p["cls"], 0)
                req = "pnxp %s %d %s" % ("ulc" if p["cls"] == "MifareUltralightC" else "n203" if p["cls"] == "NTAG203" else "n21x", cfgpage, hx(base))
                replay["request"] = req
            if p["cls"] in ("MifareUltralight", "NT3H1101") and not pw:
                req = replay["request"] = "pt2 %s" % hx(base)
            run_protect(NxpSim(product, base), p["cls"], base, args, allowed, replay, lay, req)
    # Type 1: generic, Topaz, Topaz-512
    for i in range(300 if ck.thorough else 45):
        which = i % 3
        if which == 0:
            lay = G.gen_field_layout(rng, "t1d")
            lay = G.with_old(rng, lay, [0, 5, 40, lambda f: f - 4])
            if lay is None:
                continue
            lay["hr"] = b"\x12\x4D"          # dynamic memory, not a Topaz-512: plain Type1Tag
            klass, allowed = "Type1Tag", {11}
        else:
            dyn = which == 2
            size = 512 if dyn else 120
            mem = bytearray(rng.randrange(256) for _ in range(size))
            mem[0:8] = b"\x01\x02\x03\x04\x05\x06\x07\x00"
            if dyn:
                mem[8:24] = bytes.fromhex("E1103F000103F230330203F002030300")
                off, skip, hr = 22, set(range(104, 128)), b"\x12\x4C"
            else:
                mem[8:14] = bytes.fromhex("E1100E000300")
                off, skip, hr = 12, set(range(104, 120)), b"\x11\x48"
            put_ndef(mem, off, skip, bytes(rng.randrange(256) for _ in range(rng.choice([0, 7, 60]))), size)
            lay = {"kind": "t1d" if dyn else "t1s", "mem": mem, "off": off, "skip": skip, "end": size, "hr": hr}
            klass = "Topaz512" if dyn else "Topaz"
            # static lock bytes 112..113; Topaz-512: the first two bytes of block 0Fh as well (pinned by the test-suite)
            allowed = {11, 112, 113} | ({120, 121} if dyn else set())
        base = bytes(lay["mem"])
        args = (None, False, 0) if i % 5 else (b"secret", False, 0)
        req = "pt1 %s %s" % ({"Type1Tag": "t1", "Topaz": "topaz", "Topaz512": "topaz512"}[klass], hx(base)) if args[0] is None else None
        replay = {"op": "protect", "class": klass, "memory": base.hex(), "header_rom": lay["hr"].hex(), "request": req}
        run_protect(T1Sim(lay["hr"], base), klass, base, args, allowed, replay, lay, req)
    pt.close()


# ====================================================================== sequences on ONE tag object
SEQ_OPS = ["r", "w", "w", "f", "fw", "fv", "p"]


def all_sequences(alphabet, lo, hi):
    import itertools
    out = []
    for n in range(lo, hi + 1):
        out += list(itertools.product(alphabet, repeat=n))
    return out


def seq_capacity(lay):
    free = len([a for a in range(lay["off"], lay["end"]) if a not in lay["skip"]])
    return free - (4 if free > 256 else 2)


def seq_hdr3(lay):
    o = lay["off"]
    return o + 4 <= lay["end"] and (o + 2) not in lay["skip"] and (o + 3) not in lay["skip"]


TOPAZ_FACTORY = {
    "topaz": dict(off=12, skip=set(range(104, 120)), end=120, hdr=set(range(8, 14)), wipe=set(range(14, 104))),
    "topaz512": dict(off=22, skip=set(range(104, 128)), end=512, hdr=set(range(8, 24)),
                     wipe=set(range(24, 104)) | set(range(128, 512))),
}


def do_op(tag, op):
    """one application call on the tag object -> canonical outcome"""
    try:
        if op[0] == "r":
            nd = tag.ndef
            if nd is None:
                return "false"
            bytes(nd.octets)
            return "true"
        if op[0] == "w":
            nd = tag.ndef
            if nd is None:
                return "false"
            nd.octets = op[1]
            return "true"
        if op[0] == "f":
            r = tag.format(version=op[1], wipe=op[2])
        else:
            r = tag.protect()
        return "true" if r is True else "false" if r is False else "none"
    except Exception as e:  # noqa
        return "exc " + exc_name(e)


def seen_by(tag):
    """what the application sees through tag.ndef: message, capacity, flags"""
    nd = tag.ndef
    return "read=%s cap=%d w=%d" % (bytes(nd.octets).hex()[:64], nd.capacity, int(nd.is_writeable))


def sequences(ck, model3):
    """2..4 application calls {read, write, format, format+wipe, format(version), protect} on ONE tag object.  After
    every call: (a) the bytes changed and the commands sent are judged against the area of the layout that is on the
    tag at that moment (tracked by the harness from the generator's description: NDEF writes and the Type 2 format keep
    the layout, a Topaz format installs the factory layout), (b) the call must have behaved exactly like the same call
    on a FRESH tag object activated on the same memory (same result, same commands, same memory) - cached state of
    the object (Tag._ndef, the NDEF object's memory image, offset and skip set) must not show, (c) the whole session is
    compared with the model of the Tag._ndef cache (Model/SessC03, drv_c03 `seq`)."""
    from sims import c03_layouts as G
    from sims.c03_vendor import PRODUCTS, NxpSim, NXP_SDD
    from sims.t12_run import read_line, show_cmds
    from sims.t12_tags import activate, T2Sim, T1Sim, put_ndef
    rng = ck.rng
    st = Tie(ck, model3, "session-model-vs-nfcpy", "SessC03 model (Tag._ndef cache) vs sequences of read/write/format/protect on one tag object")
    every = all_sequences(["r", "w", "f", "fw", "fv", "p"], 2, 4)
    must = [q for q in every if len(q) == 2 or (len(q) == 3 and q[-1] == "w" and ("f" in q[:2] or "fw" in q[:2] or "fv" in q[:2] or "p" in q[:2]))]

    def make(klass):
        """(layout, simulator factory, model class name, nfcpy class name, kind for read_line)"""
        if klass == "t2":
            lay = G.gen_field_layout(rng, "t2", size=rng.choice([6, 12, 18, 32, 40, 62, 129]), aligned=True)
            lay = G.with_old(rng, lay, [0, 5, 40, lambda f: f - 4])
            if lay is None:
                return None
            return lay, (lambda m: T2Sim(m)), "t2", "Type2Tag", "t2"
        if klass in PRODUCTS:
            lay = vendor_layout(rng, G, klass, rng.choice(["factory", "field"]))
            lay = None if lay is None else G.with_old(rng, lay, [0, 5, 40, lambda f: f - 4])
            if lay is None:
                return None
            lay["sdd"] = NXP_SDD
            return lay, (lambda m: NxpSim(klass, m)), "t2", PRODUCTS[klass]["cls"], "t2"
        if klass == "t1":
            lay = G.gen_field_layout(rng, "t1d", size=rng.choice([16, 32, 64]))
            lay = G.with_old(rng, lay, [0, 5, 40, lambda f: f - 4])
            if lay is None:
                return None
            lay["hr"] = b"\x12\x4D"
            return lay, (lambda m: T1Sim(b"\x12\x4D", m)), "t1", "Type1Tag", "t1d"
        dyn = klass == "topaz512"
        which = rng.choice(["factory", "at12", "field"])
        if which == "field":
            lay = G.gen_field_layout(rng, "t1d" if dyn else "t1s", size=64 if dyn else None)
        else:
            size = 512 if dyn else 120
            mem = bytearray(rng.randrange(256) for _ in range(size))
            mem[0:8] = b"\x01\x02\x03\x04\x05\x06\x07\x00"
            if dyn and which == "factory":
                mem[8:24] = bytes.fromhex("E1103F000103F230330203F002030300")
                off, skip = 22, set(range(104, 128))
            else:
                # the NDEF TLV directly behind the capability container (legal; not what format() creates on a Topaz-512)
                mem[8:14] = bytes([0xE1, 0x10, size // 8 - 1, 0x00, 0x03, 0x00])
                off, skip = 12, set(range(104, 128 if dyn else 120))
            lay = dict(kind="t1d" if dyn else "t1s", mem=mem, off=off, skip=skip, end=size, ok=True, ctl=[], nctl=0,
                       free=len([a for a in range(off, size) if a not in skip]))
            lay["hdr3"] = True
        lay = G.with_old(rng, lay, [0, 5, 40, lambda f: f - 4])
        if lay is None:
            return None
        hr = b"\x12\x4C" if dyn else b"\x11\x48"
        lay["hr"] = hr
        return lay, (lambda m: T1Sim(hr, m)), klass, "Topaz512" if dyn else "Topaz", "t1d" if dyn else "t1s"

    classes = ["t2", "t2", "topaz", "topaz512", "topaz512", "t1"] + sorted(PRODUCTS)
    nseq = {True: 260, False: 28}[ck.thorough]
    for klass in classes:
        vendor_cls = klass in PRODUCTS
        pool = list(must) + [rng.choice(every) for _ in range(nseq)]
        if not ck.thorough:
            pool = [q for q in must if rng.random() < (0.25 if not vendor_cls else 0.08)] + [rng.choice(every) for _ in range(nseq if not vendor_cls else 6)]
            # the shape of seeded change C03-r3m4 and its neighbours are always present
            pool += [("r", "f", "w"), ("r", "fw", "w"), ("w", "f", "w"), ("r", "fv", "w"), ("f", "w"), ("r", "p", "w"), ("w", "p", "w"), ("r", "f", "r", "w")]
        if klass == "t1":
            # the generic Type 1 Tag has no format
            t1all = all_sequences(["r", "w", "p"], 2, 4)
            pool = t1all if ck.thorough else [q for q in t1all if len(q) == 2] + [rng.choice(t1all) for _ in range(12)]
        for shape in pool:
            if vendor_cls and "p" in shape:
                continue            # the vendor protect() variants are covered one call at a time (protect section)
            made = make(klass)
            if made is None:
                continue
            lay, sim_of, mk, cls, kind = made
            cur = dict(off=lay["off"], skip=set(lay["skip"]), end=lay["end"])
            ccb = 12 if kind == "t2" else 8
            base0 = bytes(lay["mem"])
            replay = {"op": "sequence", "class": cls, "memory": base0.hex(), "layout": G.describe(lay), "steps": []}
            try:
                sim = sim_of(base0)
                tag = activate(sim)
                if type(tag).__name__ != cls:
                    ck.fail("t2-vendor-class-not-selected", "activation gave %s, expected %s" % (type(tag).__name__, cls), replay)
                    continue
            except Exception as e:  # noqa
                ck.fail("t12-unexpected-exception", "%s: activation raised %s: %s" % (cls, exc_name(e), e), replay)
                continue
            steps, req_ops, aborted = [], [], False
            for x in shape:
                before = bytes(sim.mem)
                readonly = (before[ccb + 3] & 0x0F) != 0
                cap = seq_capacity(cur)
                if x == "w":
                    n = rng.choice([cap, cap, cap - 1, 1, 7, rng.randrange(0, max(1, cap + 1))])
                    if n >= 255 and not seq_hdr3(cur):
                        n = rng.choice([1, 7, 254])
                    n = max(1, min(n, max(cap, 1)))
                    op = ("w", bytes(rng.randrange(256) for _ in range(n)))
                    req_ops.append("w" + op[1].hex())
                    descr = "write %d bytes" % n
                elif x in ("f", "fw", "fv"):
                    version = rng.choice([0x10, 0x11, 0x12, 0x20, 0x0F]) if x == "fv" else None
                    wipe = rng.choice([0, 0xFF, rng.randrange(256)]) if x == "fw" or (x == "fv" and rng.random() < 0.4) else None
                    op = ("f", version, wipe)
                    req_ops.append("f%d:%d" % (-1 if version is None else version, -1 if wipe is None else wipe))
                    descr = "format(version=%r, wipe=%r)" % (version, wipe)
                elif x == "p":
                    op = ("p",)
                    req_ops.append("p")
                    descr = "protect()"
                else:
                    op = ("r",)
                    req_ops.append("r")
                    descr = "read ndef"
                replay["steps"].append(descr + ("" if op[0] != "w" else " " + op[1].hex()))
                try:
                    sim.arm(None)
                    out = do_op(tag, op)
                    seen = seen_by(tag) if op[0] == "r" and out == "true" else None
                    cmds = list(sim.writes)
                    after = bytes(sim.mem)
                    # the same call on a fresh object
                    fsim = sim_of(before)
                    ftag = activate(fsim)
                    fsim.arm(None)
                    fout = do_op(ftag, op)
                    fseen = seen_by(ftag) if op[0] == "r" and fout == "true" else None
                    fcmds, fafter = list(fsim.writes), bytes(fsim.mem)
                except Exception as e:  # noqa
                    ck.fail("t12-unexpected-exception", "%s: %s raised %s: %s" % (cls, descr, exc_name(e), e), replay)
                    aborted = True
                    break
                steps.append("%s %s" % (out, show_cmds(cmds)))
                what = "%s, step %d of [%s]: %s" % (cls, len(steps), "; ".join(replay["steps"]), descr)
                if out.startswith("exc") and out[4:] in INTERNAL and not (out == "exc AttributeError" and op[0] == "w" and readonly) \
                        and not (out == "exc ValueError" and op[0] == "w" and len(op[1]) > cap):
                    ck.fail("t12-sequence-unexpected-exception", "%s ended with %s" % (what, out), replay)
                if seen != fseen:
                    ck.fail("t12-sequence-stale-object-state", "%s: the used tag object presents %s, a fresh one activated on the same "
                            "memory %s" % (what, seen, fseen), replay)
                if (out, cmds, after) != (fout, fcmds, fafter):
                    k = next((i for i in range(min(len(after), len(fafter))) if after[i] != fafter[i]), -1)
                    ck.fail("t12-sequence-stale-object-state", "%s behaves differently on the used tag object than on a fresh one "
                            "activated on the same memory: used %s [%s], fresh %s [%s]%s" % (
                                what, out, show_cmds(cmds)[:80], fout, show_cmds(fcmds)[:80],
                                "" if k < 0 else ", first differing byte %d" % k), replay)
                changed = [a for a in range(len(before)) if before[a] != after[a]]
                # ---- what may change in this step
                if op[0] == "r":
                    allowed = set()
                elif op[0] == "w":
                    allowed = set() if readonly else set(a for a in range(cur["off"] + 1, cur["end"]) if a not in cur["skip"])
                    if not readonly and out != "true" and len(op[1]) <= cap:
                        ck.fail("t12-sequence-write-fails", "%s ended with %s (capacity of the current layout %d)" % (what, out, cap), replay)
                elif op[0] == "f":
                    if mk == "t2":
                        allowed = set() if readonly else set(a for a in range(cur["off"] + 1, cur["end"]) if a not in cur["skip"])
                    elif op[1] is not None and op[1] >> 4 != 1:
                        allowed = set()
                    else:
                        fac = TOPAZ_FACTORY[mk]
                        allowed = set(fac["hdr"]) | (fac["wipe"] if op[2] is not None else set())
                        if out == "true":
                            cur = dict(off=fac["off"], skip=set(fac["skip"]), end=fac["end"])
                else:
                    if mk == "t2":
                        allowed = {10, 11, 15}
                        locks = [(f, c) for t, d0, d1, d2, f, c, w in lay.get("ctl", []) if t == 1]
                        if not locks and before[14] > 6:
                            nbits = (before[14] * 8 - 48 + 7) // 8
                            locks = [(cur["end"], (nbits + 7) // 8)]
                        for f, c in locks:
                            allowed |= set(range(f, f + c))
                    else:
                        allowed = {11} | ({112, 113} if mk != "t1" else set()) | ({120, 121} if mk == "topaz512" else set())
                bad = [a for a in changed if a not in allowed]
                if bad:
                    a = bad[0]
                    inside = cur["off"] < a < cur["end"] and a not in cur["skip"]
                    ck.fail("t12-sequence-outside-area", "%s changed byte %d %02x -> %02x, which %s (NDEF TLV of the current layout "
                            "at %d, data area ends at %d)" % (what, a, before[a], after[a],
                                                             "must not change in this step" if inside else "lies outside the NDEF area of the layout that is on the tag now",
                                                             cur["off"], cur["end"]), replay)
                for a, d in cmds:
                    if not any(x_ in allowed for x_ in range(a, a + len(d))):
                        ck.fail("t12-sequence-command-outside-area", "%s sent a write command for bytes %d..%d, wholly outside what "
                                "this step may touch" % (what, a, a + len(d) - 1), replay)
                        break
                if out.startswith("exc TagCommandError"):
                    # a command error (here: declared lock bytes that do not exist in the physical memory) ends the
                    # session: what the object does after a failed command is outside the property's quantifier
                    ck.count("sequence ended by a TagCommandError (not continued)")
                    break
            if aborted:
                continue
            ck.case(("sequence", cls, base0, tuple(replay["steps"])), any(" -" not in s_ for s_ in steps),
                    "sequence:%s:len%d" % (cls, len(shape)),
                    sample={"op": "sequence", "class": cls, "steps": replay["steps"]} if shape == ("r", "f", "w") and klass == "topaz512" else None)
            try:
                final, _, _ = read_line(kind, T2Sim(bytes(sim.mem), sim.sdd) if kind == "t2" else T1Sim(lay["hr"], bytes(sim.mem)))
            except Exception as e:  # noqa
                final = "exc " + exc_name(e)
            replay["request"] = "seq %s %s %s" % (mk, hx(base0), ",".join(req_ops))
            st.add(replay["request"], " ; ".join(steps) + " | " + final, replay)
    st.close()


# ====================================================================== Type 2 Tags with several sectors, faults
SECT_FAULTS = [("drop",), ("corrupt", "transmission"), ("corrupt", "protocol"), ("corrupt", "nak"),
               ("lost", "timeout"), ("lost", "transmission"), ("lost", "protocol")]
# packet 2 of SECTOR SELECT: faults under which the passive acknowledgement stays faithful: the tag received a damaged
# frame, did not switch, and the reader saw something other than silence; or the tag switched and its silence was
# disturbed (damaged answer: the code forgets the sector and selects again)
SECT_FAULTS_P2 = [("corrupt", "transmission"), ("corrupt", "protocol"), ("corrupt", "nak"),
                  ("lost", "transmission"), ("lost", "protocol")]


def sector_tie(ck, model3):
    """Model/SectC03 vs Type2Tag.sector_select/read/write and Type2TagMemoryReader on a simulated tag with 1-4
    sectors: random histories of reader[a], reader[a] = v, synchronize(), sector_select, read, write with a fault
    script per exchange (any fault kind on any exchange incl. both SECTOR SELECT packets); compared: every call's
    outcome, the commands the tag executed with (real sector, believed sector), final tag/object state."""
    from sims.c03_faults import T2SectorSim, activate_sector, air_token
    import nfc.tag.tt2
    rng = ck.rng
    tie = Tie(ck, model3, "sector-model-vs-nfcpy", "SectC03 model vs Type2Tag.sector_select/read/write/transceive + "
              "Type2TagMemoryReader on multi-sector tags with a fault script per exchange (outcomes, executed commands "
              "with real and believed sector, final state)")

    def tok(op):
        return {"g": lambda: "g%d" % op[1], "s": lambda: "s%d:%d" % (op[1], op[2]), "y": lambda: "y",
                "S": lambda: "S%d" % op[1], "R": lambda: "R%d" % op[1], "W": lambda: "W%d:%s" % (op[1], hx(op[2]))}[op[0]]()

    def run_ops(mem, script, ops):
        sim = T2SectorSim(mem)
        tag = activate_sector(sim)
        sim.arm({i: f for i, f in enumerate(script) if f is not None})
        mr = nfc.tag.tt2.Type2TagMemoryReader(tag)
        out = []
        for op in ops:
            try:
                if op[0] == "g":
                    out.append("ok %d" % mr[op[1]])
                elif op[0] == "s":
                    mr[op[1]] = op[2]
                    out.append("ok")
                elif op[0] == "y":
                    mr.synchronize()
                    out.append("ok")
                elif op[0] == "S":
                    out.append("ok %d" % tag.sector_select(op[1]))
                elif op[0] == "R":
                    out.append("ok " + hx(tag.read(op[1])))
                else:
                    tag.write(op[1], op[2])
                    out.append("ok")
            except Exception as e:  # noqa
                out.append("exc " + exc_name(e))
        tr = ",".join("%s:%d:%d:%d:%s" % (k[0], real, -1 if bel is None else bel, page, hx(d)) for k, real, bel, page, d in sim.trace) or "-"
        line = "; ".join(out) + " | " + tr + " | %d %d %d %d %d" % (
            sim.sector, -1 if tag._current_sector is None else tag._current_sector, int(sim.pend), int(sim.amb_ack), len(mr))
        return line, sim

    n = 2500 if ck.thorough else 260
    for i in range(n):
        size = rng.choice([1024 + 64, 1024 + 256, 2048, 2048 + 48, 3072, 4096, 1024, 512, 1024 + 20])
        mem = bytes(rng.randrange(256) for _ in range(size))
        ops = []
        for _ in range(rng.randrange(2, 9)):
            r = rng.random()
            if r < 0.35:
                ops.append(("g", rng.choice([rng.randrange(0, size), 1008 + rng.randrange(0, 40), min(size - 1, 2040 + rng.randrange(0, 20)),
                                             size - 1, size, size + 20])))
            elif r < 0.6:
                ops.append(("s", rng.choice([rng.randrange(0, size), 1020 + rng.randrange(0, 10), rng.randrange(0, 64)]), rng.randrange(256)))
            elif r < 0.8:
                ops.append(("y",))
            elif r < 0.88:
                ops.append(("S", rng.randrange(0, 5)))
            elif r < 0.94:
                ops.append(("R", rng.choice([rng.randrange(0, 1100), 255, 256, 0, size // 4 - 1, size // 4 - 2])))
            else:
                ops.append(("W", rng.choice([rng.randrange(0, 1100), 255, 256, 300]),
                            bytes(rng.randrange(256) for _ in range(rng.choice([4, 4, 4, 3])))))
        replay = {"op": "sector-history", "memory": mem.hex(), "ops": [tok(o) for o in ops]}
        try:
            _, sim0 = run_ops(mem, [], ops)
            script = [None] * (sim0.n + 6)
            for _ in range(rng.choice([0, 1, 1, 2, 3, 6])):
                script[rng.randrange(0, len(script))] = rng.choice(SECT_FAULTS + [("corrupt", "timeout"), ("lost", "nak")])
            idx = [j for j, k in enumerate(sim0.kinds) if k in ("ss1", "ss2")]
            if idx and rng.random() < 0.6:
                j = rng.choice(idx)
                for jj in range(j, min(len(script), j + rng.choice([1, 1, 2, 3]))):
                    script[jj] = rng.choice(SECT_FAULTS)
            line, sim = run_ops(mem, script, ops)
        except Exception as e:  # noqa
            ck.fail("t2-sector-unexpected-exception", "history of reader / tag calls raised %s: %s" % (exc_name(e), e), replay)
            continue
        while script and script[-1] is None:
            script.pop()
        replay["script"] = [air_token(f) for f in script]
        req = "sect %s %s %s" % (hx(mem), ",".join(replay["script"]) or "-", ",".join(replay["ops"]))
        nsel = sum(1 for t in sim.trace if t[0] == "select")
        ck.case(("sector-history", mem, tuple(replay["ops"]), tuple(replay["script"])), len(sim.trace) > 0,
                "sector-history:%d sectors:%s" % ((size + 1023) // 1024, "faults" if script else "clean"),
                sample={"op": "sector-history", "ops": replay["ops"], "script": replay["script"]} if i < 2 else None)
        ck.count("sector-history: SECTOR SELECTs executed by the tag: %s" % ("0" if nsel == 0 else "1-2" if nsel < 3 else "3+"))
        tie.add(req, line, replay)
    tie.close()


def sectors(ck, model3):
    """NDEF writes on Type 2 Tags with 2-4 sectors, a fault on ANY exchange of an assignment (READ, WRITE, SECTOR
    SELECT packet 1 and 2; lost frame, damaged frame, lost / damaged answer), the TagCommandError reaches the
    application, which assigns again through the SAME tag / ndef object.  After every assignment: every WRITE the
    tag executed must cover a byte of the NDEF area (absolute address: sector the tag really was in), no byte outside
    the area may have changed, and no WRITE may have been executed while the object believed another sector than the
    tag was in (an unknown belief, _current_sector None, is legal: the next access selects its sector again).  Histories in which the passive acknowledgement of packet 2 was not faithful (no reader can handle
    that) are counted and not judged."""
    from sims.c03_faults import T2SectorSim, activate_sector, sector_layout, KindFaults
    import nfc.tag
    rng = ck.rng
    ck.rule += ("; sector part: case = (memory of 1-4 sectors, history of reader / tag calls or of 2-4 NDEF assignments through one "
                "object, fault script: any of frame dropped / frame damaged / answer lost or damaged / clean NAK on any exchange "
                "incl. SECTOR SELECT packet 1 and 2); non-trivial = the tag executed a command resp. an assignment failed or was "
                "repeated")
    ck.assumptions += [
        "several sectors: the passive acknowledgement of SECTOR SELECT packet 2 is faithful (silence within 1 ms <=> the tag "
        "switched); histories in which it is not are counted, not judged (no reader can tell them from the normal cases)",
        "a re-activated Type 2 Tag has sector 0 selected; clf.sense() finds the tag again; after a damaged answer to "
        "packet 2 the tag may be in either sector (the code forgets the sector: _current_sector None is a legal state)",
    ]
    ck.trusted += ["hand-written Lean model NfcVerif.Model.SectC03 tied to Type2Tag.sector_select/read/write/transceive and "
                   "Type2TagMemoryReader by differential runs with fault scripts", "harness/sims/c03_faults.py"]
    sector_tie(ck, model3)

    def history(lay, old, steps, what, session2=False):
        """steps: [(data, plan)] - plan = [(kind, ordinal, fault)] for KindFaults, [] for a clean assignment"""
        mem = bytearray(lay["mem"])
        if not lay["put"](mem, old):
            return
        base = bytes(mem)
        replay = {"op": "sector-ndef-history", "memory": base.hex(), "ndef_tlv": lay["off"], "area_end": lay["end"],
                  "reserved": sorted(lay["skip"]), "steps": []}
        try:
            sim = T2SectorSim(base)
            tag = activate_sector(sim)
            nd = tag.ndef
        except Exception as e:  # noqa
            ck.fail("t2-sector-unexpected-exception", "%s: activation / first read raised %s: %s" % (what, exc_name(e), e), replay)
            return
        if nd is None or nd.capacity != lay["cap"]:
            ck.fail("t12-wellformed-layout-not-read", "%s: %d-sector tag read as %s (layout capacity %d)" % (
                what, lay["sectors"], None if nd is None else nd.capacity, lay["cap"]), replay)
            return
        amb_ack = amb_sense = False
        outs = []
        for data, plan in steps:
            replay["steps"].append({"data": data.hex(), "faults": [[k, o, list(f)] for k, o, f in plan]})
            try:
                sim.arm({})
                kf = KindFaults(sim, plan)
                sim.script = kf
                try:
                    nd = tag.ndef
                    if nd is None:
                        out = "no-ndef"
                    else:
                        nd.octets = data
                        out = "ok"
                except nfc.tag.TagCommandError as e:
                    out = "exc " + exc_name(e)
                writes, trace, final = list(sim.writes), list(sim.trace), bytes(sim.mem)
            except Exception as e:  # noqa
                ck.fail("t2-sector-unexpected-exception", "%s, assignment %d raised %s: %s" % (what, len(outs) + 1, exc_name(e), e), replay)
                return
            outs.append(out)
            replay["steps"][-1]["fired"] = [[k, n_, list(f)] for k, n_, f in kf.fired]
            replay["steps"][-1]["outcome"] = out
            amb_ack = amb_ack or sim.amb_ack
            amb_sense = amb_sense or sim.amb_sense
            if amb_ack:
                ck.count("sector histories not judged further: passive acknowledgement of packet 2 not faithful")
                break
            where = "%s, assignment %d of %d (%d bytes, outcomes so far %s)" % (what, len(outs), len(steps), len(data), outs)
            key_sfx = None
            bad_w = [(a, d) for a, d in writes if not any(in_area(lay, x) and x != lay["off"] for x in range(a, a + 4))]
            bad_b = [a for a in range(len(base)) if base[a] != final[a] and not (in_area(lay, a) and a != lay["off"])]
            stale = [t for t in trace if t[0] == "write" and t[2] is not None and t[1] != t[2]]
            if bad_w:
                a, d = bad_w[0]
                key_sfx, msg = "write-outside-area", "WRITE of %s executed at byte %d (sector %d page %d), wholly outside the NDEF area %d..%d" % (
                    d.hex(), a, a >> 10, (a >> 2) & 255, lay["off"] + 1, lay["end"] - 1)
            elif bad_b:
                a = bad_b[0]
                key_sfx, msg = "byte-outside-area", "byte %d (%s) changed %02x -> %02x" % (a, where_of(lay, a), base[a], final[a])
            elif stale:
                t = stale[0]
                key_sfx, msg = "write-in-wrong-sector", "WRITE page %d executed in sector %d while the tag object believed sector %d" % (t[3], t[1], t[2])
            if key_sfx:
                ck.fail("t2-sector-" + key_sfx, "%s: %s" % (where, msg), replay)
                break
            if out not in ("ok",) and not out.startswith("exc TagCommandError"):
                ck.fail("t2-sector-unexpected-exception", "%s ended with %s" % (where, out), replay)
                break
            if out == "ok" and not plan and not kf.fired and len(outs) == len(steps) and not amb_sense:
                # last, clean assignment succeeded: what a fresh reader finds (not a confinement claim; recorded)
                ck.count("sector histories: final clean assignment succeeded")
        ck.case(("sector-ndef", base, tuple((d, tuple(map(tuple, p))) for d, p in steps)), any(o != "ok" for o in outs) or len(outs) > 1,
                "sector-ndef:%d sectors:%s" % (lay["sectors"], what.split(":")[0]),
                sample={"op": "sector-ndef-history", "what": what, "outcomes": outs} if rng.random() < 0.004 else None)

    def msg(n):
        return bytes(rng.randrange(256) for _ in range(max(1, n)))

    # (a) the shape of seeded change C03-r5m1 and its neighbourhood: every SECTOR SELECT of the assignment (ordinal 0..5),
    #     packet 1 and packet 2, every fault under which the acknowledgement stays faithful; then the SAME data again
    for sectors_ in ((2, 3) if not ck.thorough else (2, 3, 4)):
        for rep in range(2 if ck.thorough else 1):
            lay = sector_layout(rng, sectors_)
            for pkt, faults in (("ss2", SECT_FAULTS_P2), ("ss1", [("lost", "transmission"), ("corrupt", "nak"), ("lost", "timeout")])):
                for ordinal in range(6):
                    for f in faults:
                        data = msg(rng.choice([lay["cap"], lay["cap"] - 1, 1100, 1500]) if lay["cap"] > 1500 else lay["cap"])
                        plan = [(pkt, ordinal, f)] * (3 if pkt == "ss1" else 1)
                        if pkt == "ss1":
                            plan = [(pkt, ordinal + j, f) for j in range(3)]      # all three attempts of transceive
                        history(lay, msg(rng.choice([0, 5, 300])), [(data, plan), (data, [])], "select-fault-then-retry:%s" % pkt)
    # (b) random histories: 2-4 assignments, same or new data, faults on any exchange kind
    for i in range(1500 if ck.thorough else 150):
        lay = sector_layout(rng, rng.choice([2, 2, 3, 4]))
        cap = lay["cap"]
        steps, data = [], None
        nst = rng.choice([2, 3, 4])
        for s_ in range(nst):
            if data is None or rng.random() < 0.4:
                data = msg(rng.choice([cap, cap - 1, 1100, 1010, 1020, 1030, 300, rng.randrange(900, cap)]))
            plan = []
            if s_ < nst - 1:
                for _ in range(rng.choice([1, 1, 2])):
                    kind = rng.choice(["ss2", "ss2", "ss1", "read", "write", "any"])
                    f = rng.choice(SECT_FAULTS_P2 if kind in ("ss2", "any") and rng.random() < 0.93 else SECT_FAULTS)
                    plan.append((kind, rng.randrange(0, 5) if kind != "any" else rng.randrange(0, 400), f))
            steps.append((data, plan))
        history(lay, msg(rng.choice([0, 5, 300, 1000, cap])), steps, "random")
    # (c) a NAK answer to a READ in an upper sector (the tag got a damaged frame): the code re-activates the tag.  Shape:
    #     a message that ends near the sector boundary is extended (new session), the first READ behind the boundary is
    #     answered with NAK, the application assigns again
    for i in range(60 if ck.thorough else 10):
        lay = sector_layout(rng, rng.choice([2, 2, 3]), ctl_in_upper=False)
        first = lay["off"] + 4
        skip_lo = len([a for a in lay["skip"] if first <= a < 1024])
        n_old = 1024 - first - skip_lo - rng.choice([0, 1, 2, 3, 8, 17])
        old = msg(n_old)
        data = old + msg(rng.choice([40, 200, lay["cap"] - n_old]))
        history(lay, old, [(data, [("read", rng.choice([0, 0, 0, 1, 2]), ("corrupt", "nak"))]), (data, []), (data, [])], "nak-on-read-then-retry")
