"""C03 - NDEF writes touch nothing outside the NDEF message area (Type 1 / Type 2 Tag part;
Type 3/4 are the plug-in part c03_t34).

L1: theorems of NfcVerif.Props.C03: for every well-formed image and every message up to the
    capacity, every byte outside Area = {a | off < a < areaEnd, a not reserved} keeps its
    value in all images that reach the tag, and every write command contains a byte of Area;
    the same for Type2Tag.format and for Topaz / Topaz-512 format on NDEF formatted tags, with
    and without wipe.
L2: model vs nfcpy: write commands of NDEF writes, of Type2Tag.format(wipe) and of
    Topaz/Topaz512.format(wipe).
L3: real code: byte-wise diff of the simulated memory before/after a write / format against
    the area computed by the layout generator (not by nfcpy); address ranges of all commands.
"""
import logging
import os

from common import Model, hx, exc_name

logging.disable(logging.CRITICAL)

LEAN_TARGETS = ["NfcVerif.Props.C03", "drv_t12"]
PARTS = ["t34"] if os.path.exists(os.path.join(os.path.dirname(os.path.abspath(__file__)), "c03_t34.py")) else []

THEOREMS = [
    "NfcVerif.C03.t12_write_confined",
    "NfcVerif.C03.t12_commands_confined",
    "NfcVerif.C03.t2_format_confined",
    "NfcVerif.C03.t1_format_confined",
    "NfcVerif.C03.t12_long_length_counterexample",   # documents that hypothesis Hdr3 is necessary
]


def in_area(lay, a):
    return lay["off"] <= a < lay["end"] and a not in lay["skip"]


def judge(ck, lay, kind, base, final, cmds, what, replay, prefix):
    """confinement of one operation, judged against the generator's own layout description"""
    bad = [a for a in range(len(base)) if base[a] != final[a] and not (in_area(lay, a) and a != lay["off"])]
    if bad:
        a = bad[0]
        where = ("reserved by a control TLV" if a in lay["skip"] and a < lay["end"] else
                 "behind the data area" if a >= lay["end"] else "in front of the NDEF TLV length field")
        ck.fail(prefix + "-outside-area", "%s %s: byte %d (%s) changed %02x -> %02x (NDEF TLV at %d, area end %d)"
                % (kind, what, a, where, base[a], final[a], lay["off"], lay["end"]), replay)
    for a, d in cmds:
        if not any(in_area(lay, x) for x in range(a, a + len(d))):
            ck.fail(prefix + "-command-outside-area", "%s %s: write command for bytes %d..%d lies wholly outside the "
                    "NDEF area" % (kind, what, a, a + len(d) - 1), replay)
            break
    return not bad


def run(ck):
    from sims.t12_run import Run, layout_with_old, read_line, show_cmds
    from sims.t12_tags import make_sim, clone, activate, T1Sim, f1_present
    rng = ck.rng
    ck.rule = ("case = (operation write|format|format+wipe, tag kind, memory image, message/wipe byte); layouts as in "
               "C01 with emphasis on reserved ranges right after the length field, at the last bytes of the data area "
               "and behind it; non-trivial = the operation issued at least one write command; distinct by hash")
    ck.assumptions += [
        "the tag is plain memory ('keep their values' is judged on stored bytes; real lock bits are one-way)",
        "well-formed layouts as in C01 (NfcVerif.Tlv.WF); format() is judged only on tags that already carry NDEF "
        "management data (erase semantics), Topaz format only on factory-formatted Topaz/Topaz-512 layouts",
        "the model equals the Python functions outside the compared inputs (the tie is a sample)",
    ]
    ck.trusted += ["hand-written Lean model NfcVerif.Model.Tlv tied to tt1.py/tt2.py by differential runs",
                   "harness/sims/t12_tags.py, harness/sims/t12_run.py, harness/props/c03.py"]
    ck.lean("NfcVerif.Props.C03", THEOREMS)
    if ck.thorough:
        ck.leanchecker(["NfcVerif.Props.C03"])
    model = Model("drv_t12")

    # ------------------------------------------------------------------ NDEF writes
    nlay = 12000 if ck.thorough else 400
    f1 = f1_present()
    if f1:
        ck.notes.append("this tree still has defect F1 (empty message -> UnboundLocalError, reported by C01): "
                        "empty messages are left out of this run")
    runs = []
    from sims.t12_run import BOUNDARY_FREE
    targets = [(k, t) for t in BOUNDARY_FREE for k in ("t2", "t1d") if not (k == "t1d" and t < 10)]
    targets = targets * (8 if ck.thorough else 2)
    for i in range(nlay + len(targets)):
        if i >= nlay:
            # exactly 2..5 / 253..261 free bytes behind the NDEF TLV: both sides of every capacity threshold
            kind, tf = targets[i - nlay]
            lay = layout_with_old(rng, kind, False, [0, 5, 254, lambda f: f - 4], target_free=tf)
            ck.count("boundary layouts (free bytes 2..5, 253..261)")
        else:
            kind = ("t2", "t2", "t1d", "t1s")[i % 4]
            lay = layout_with_old(rng, kind, ck.thorough and rng.random() < 0.1, [0, 5, 200, 255, 300, lambda f: f - 4])
        # the capacity REPORTED by the code decides what the longest accepted message is: that one must stay inside
        _, _, nd0 = read_line(kind, make_sim(lay))
        cap = nd0.capacity if nd0 is not None else lay["free"] - (4 if lay["free"] > 256 else 2)
        if i >= nlay:
            n = rng.choice([cap, cap, cap - 1])
        else:
            n = rng.choice([0, 1, 2, 3, 254, 255, cap - 1, cap, cap, cap + 1, rng.randrange(0, max(1, cap + 1))])
        n = max(1 if f1 else 0, n)
        edge = n >= 255 and not lay["hdr3"]
        data = bytes(rng.randrange(256) for _ in range(n))
        r = Run(lay, data)
        runs.append(r)
        if edge:
            # outside the quantifier: the new message needs the 3-byte length field FF hi lo and byte off+2 or
            # off+3 is reserved, i.e. a reserved range on the NDEF TLV's length-field bytes.  No confinement claim
            # here (theorem hypothesis Hdr3); the case still takes part in the model-vs-code comparison.
            ck.case(("write-excluded", kind, r.base, data), False, "write:%s:length-field-on-reserved(excluded)" % kind)
            continue
        if r.nd is None:
            ck.fail("t12-wellformed-layout-not-read", "%s: %s" % (kind, r.before), r.replay())
            continue
        ck.case(("write", kind, r.base, data), len(r.cmds) > 0,
                "write:%s:%s" % (kind, "rejected" if r.wrote != "ok" else "ok"),
                sample={"op": "write", "kind": kind, "off": r.off, "len": n, "commands": len(r.cmds)} if i < 3 else None)
        judge(ck, lay, kind, r.base, r.final, r.cmds, "write of %d bytes" % n, r.replay(), "t12-write")
    replies = model.ask_many([r.request() for r in runs])
    dis = 0
    for r, rep in zip(runs, replies):
        if rep != r.line:
            dis += 1
            ck.fail("tie:t12-write-model-vs-nfcpy", "model %r, implementation %r" % (rep[:300], r.line[:300]),
                    dict(r.replay(), model=rep, impl=r.line))
    ck.tie("Tlv model vs tt1/tt2 NDEF write: ordered write commands and resulting memory", cases=len(runs), disagreements=dis)

    # ------------------------------------------------------------------ Type 2 format
    nfmt = 12000 if ck.thorough else 400
    reqs = []
    for i in range(nfmt):
        lay = layout_with_old(rng, "t2", False, [0, 5, 40, 255, lambda f: f - 4, lambda f: f - 2])
        if i % 5 == 0:
            lay["sdd"] = b"\x04\x02\x03\x04\x05\x06\x07"     # NXP: activates as MifareUltralight (tt2_nxp)
        wipe = rng.choice([None, None, 0, 0xFF, rng.randrange(256), 256 + rng.randrange(256)])
        base = bytes(lay["mem"])
        sim = make_sim(lay, base)
        tag = activate(sim)
        sim.arm(None)
        try:
            res = tag.format(wipe=wipe)
            out = "true" if res is True else "false" if res is False else "none"
        except Exception as e:  # noqa
            out = "exc " + exc_name(e)
        final = bytes(sim.mem)
        cmds = list(sim.writes)
        after, _, nd = read_line("t2", clone(sim))
        line = out if out != "true" else "true | %s | %s" % (show_cmds(cmds), after)
        replay = {"op": "format", "kind": "t2", "memory": base.hex(), "wipe": wipe,
                  "request": "f %s %d" % (hx(base), -1 if wipe is None else wipe)}
        reqs.append((replay["request"], line, replay))
        ck.case(("format", base, wipe), len(cmds) > 0, "format:t2:%s" % ("wipe" if wipe is not None else "plain"),
                sample={"op": "format", "wipe": wipe, "off": lay["off"], "commands": len(cmds)} if i < 2 else None)
        what = "format(wipe=%r)" % (wipe,)
        if out != "true":
            ck.fail("t2-format-fails", "t2 %s on an NDEF formatted writeable tag returned %s" % (what, out), replay)
            continue
        bad = [a for a in range(len(base)) if base[a] != final[a] and not (in_area(lay, a) and a != lay["off"])]
        if bad:
            a = bad[0]
            key = "t2-format-terminator-outside-area" if final[a] == 0xFE and a == lay["off"] + 2 else "t2-format-outside-area"
            ck.fail(key, "t2 %s: byte %d (%s) changed %02x -> %02x (NDEF TLV at %d, area end %d)"
                    % (what, a, "reserved" if a in lay["skip"] else "outside the data area", base[a], final[a],
                       lay["off"], lay["end"]), replay)
        for a, d in cmds:
            if not any(in_area(lay, x) for x in range(a, a + len(d))):
                ck.fail("t2-format-command-outside-area", "t2 %s: command for bytes %d..%d wholly outside" % (what, a, a + 3), replay)
                break
        if nd is None or bytes(nd.octets) != b"":
            ck.fail("t2-format-not-empty", "t2 %s: fresh reader sees %s" % (what, after[:80]), replay)
        if wipe is not None and not bad:
            t = lay["off"] + 2
            while t in lay["skip"]:
                t += 1
            left = [a for a in range(t + 1, lay["end"]) if a not in lay["skip"] and final[a] != wipe & 0xFF]
            if left:
                ck.fail("t2-format-wipe-incomplete", "t2 %s: byte %d not wiped" % (what, left[0]), replay)
    replies = model.ask_many([q[0] for q in reqs])
    dis = 0
    for (req, line, replay), rep in zip(reqs, replies):
        if rep != line:
            dis += 1
            ck.fail("tie:t2-format-model-vs-nfcpy", "model %r, implementation %r" % (rep[:300], line[:300]),
                    dict(replay, model=rep, impl=line))
    ck.tie("Tlv model vs Type2Tag.format (commands, resulting memory)", cases=len(reqs), disagreements=dis)

    # ------------------------------------------------------------------ Topaz / Topaz-512 format
    t1reqs = []
    for i in range(600 if ck.thorough else 60):
        dyn = i % 2 == 1
        size = 512 if dyn else 120
        mem = bytearray(rng.randrange(256) for _ in range(size))
        mem[0:8] = b"\x01\x02\x03\x04\x05\x06\x07\x00"
        if dyn:
            mem[8:24] = bytes.fromhex("E1103F000103F230330203F002030300")
            off, skip, hr = 22, set(range(104, 128)), b"\x12\x4C"
        else:
            mem[8:14] = bytes.fromhex("E1100E000300")
            off, skip, hr = 12, set(range(104, 120)), b"\x11\x48"
        lay = {"kind": "t1d" if dyn else "t1s", "mem": mem, "off": off, "skip": skip, "end": size, "hr": hr}
        from sims.t12_tags import put_ndef
        put_ndef(mem, off, skip, bytes(rng.randrange(256) for _ in range(rng.choice([0, 7, 60]))), size)
        wipe = rng.choice([None, 0, rng.randrange(256), 256 + rng.randrange(256)])
        base = bytes(mem)
        sim = T1Sim(hr, base)
        tag = activate(sim)
        sim.arm(None)
        try:
            res = tag.format(wipe=wipe)
        except Exception as e:  # noqa
            res = "exc " + exc_name(e)
        replay = {"op": "format", "kind": lay["kind"], "memory": base.hex(), "wipe": wipe, "header_rom": hr.hex()}
        ck.case(("format", lay["kind"], base, wipe), len(sim.writes) > 0, "format:%s" % lay["kind"])
        if res is not True:
            ck.fail("t1-format-fails", "%s format(wipe=%r) returned %s" % (tag, wipe, res), replay)
            continue
        judge(ck, lay, lay["kind"], base, bytes(sim.mem), sim.writes, "format(wipe=%r)" % (wipe,), replay, "t1-format")
        after, _, nd = read_line(lay["kind"], clone(sim))
        t1reqs.append(("ft1 %s %s %d" % (lay["kind"], hx(base), -1 if wipe is None else wipe),
                       "true | %s | %s" % (show_cmds(sim.writes), after), replay))
        if nd is None or bytes(nd.octets) != b"":
            ck.fail("t1-format-not-empty", "%s format: fresh reader sees %s" % (lay["kind"], after[:80]), replay)
    replies = model.ask_many([q[0] for q in t1reqs])
    dis = 0
    for (req, line, replay), rep in zip(t1reqs, replies):
        if rep != line:
            dis += 1
            ck.fail("tie:t1-format-model-vs-nfcpy", "model %r, implementation %r" % (rep[:300], line[:300]),
                    dict(replay, request=req, model=rep, impl=line))
    ck.tie("T1Format model vs Topaz/Topaz512.format (commands, resulting memory)", cases=len(t1reqs), disagreements=dis)
