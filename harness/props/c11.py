"""C11 - LLCP PDU encoding and decoding are mutually consistent.

L1: theorems of NfcVerif.Props.C11 about the executable models NfcVerif.Model.Pdu
    (transcription of nfc/llcp/pdu.py) and NfcVerif.Model.PduObj (the PDU classes
    as mutable objects): round trip for all PDU types, length, decode raises
    nothing but DecodeError for any octet string (including aggregates), the
    decoder equals an independent reading of the frame formats on every octet
    string and that reading reads every valid encoding back, a decoded PDU
    re-encodes to its normal form, an aggregated PDU is decoded from its own
    octets; round trip / length / == at every point of every history of attribute
    assignments, appends and observations on one object; PAX property setters
    and getters; FrameReject.from_pdu.
L2: the model is compared with the real nfc.llcp.pdu: decode() on every octet
    string of <= 2 (thorough: <= 3) octets, every 2-octet header with tails,
    products of a TLV pool and a swept TLV for the parameter-list types, products
    of aggregated elements, mutated encodings, random strings up to 2200 octets,
    decode with offset/size; encode()/len() on the exhaustive default / zero /
    maximum / absent grid of every PDU type plus type-directed random PDUs with
    boundary and out-of-range field values; operation sequences (construct,
    observe, assign, observe, compare) on one object for every class and every
    attribute.  Fields and exception classes are compared.
L3: oracles on the real code alone: field-wise round trip, len, no internal
    exception, termination, re-encode fixpoint, an independent Python reading of
    the LLCP formats (harness/sims/pdu_ref.py), locality of aggregated PDUs;
    on objects: an observer changes no field, the encoding / length of an object
    equals that of a new object with the same fields, == is field equality.
"""
import itertools
import logging
import signal
import time

from common import Model, hx, exc_name, INTERNAL
from sims import pdu_ref as R
from sims import pdu_obj as O

logging.disable(logging.CRITICAL)


class NonTermination(Exception):
    """a call into nfcpy used more than CPU_BUDGET seconds of processor time"""


# user-mode CPU seconds of THIS process (ITIMER_VIRTUAL) granted to one call into nfcpy: independent of the load of
# the machine.  A call normally needs microseconds; after a first overrun the budget shrinks so that a code change
# that loops on many inputs cannot stall the check.
CPU_BUDGET = [20.0]


def _on_vtalrm(signum, frame):
    spent = CPU_BUDGET[0]
    CPU_BUDGET[0] = max(0.5, spent / 4)
    raise NonTermination("no result after %.1f s of processor time" % spent)


def guarded(fn, *args):
    """fn(*args) under a processor-time budget; a loop in nfcpy that does not terminate becomes an exception
    (class NonTermination) that is reported like any other unexpected exception"""
    signal.setitimer(signal.ITIMER_VIRTUAL, CPU_BUDGET[0])
    try:
        return fn(*args)
    finally:
        signal.setitimer(signal.ITIMER_VIRTUAL, 0)

LEAN_TARGETS = ["NfcVerif.Props.C11", "drv_c11", "NfcVerif.Props.TablesPdu"]

THEOREMS = [
    "NfcVerif.C11.pdu_roundtrip",
    "NfcVerif.C11.pdu_len",
    "NfcVerif.C11.pdu_len_valid",
    "NfcVerif.C11.pdu_decode_total",
    "NfcVerif.C11.pdu_decode_at_total",
    "NfcVerif.C11.agf_locality",
    "NfcVerif.C11.decode_at_locality",
    "NfcVerif.C11.nested_eq_decode",
    "NfcVerif.C11.pdu_impl_refines_spec",
    "NfcVerif.C11.pdu_impl_refines_spec_iff",
    "NfcVerif.C11.pdu_decode_reencode",
    "NfcVerif.C11.pdu_norm_idem",
    "NfcVerif.C11.pdu_norm_valid",
    # PDU objects (NfcVerif.Pdu.Obj): the property after any history of assignments and observations
    "NfcVerif.C11.obj_observers_pure",
    "NfcVerif.C11.obj_reply_at",
    "NfcVerif.C11.obj_history_roundtrip",
    "NfcVerif.C11.obj_assign_valid",
    "NfcVerif.C11.obj_apply_valid",
    "NfcVerif.C11.obj_valid_history_roundtrip",
    "NfcVerif.C11.pdu_eq_iff_fields",
    "NfcVerif.C11.pdu_encode_injective",
    "NfcVerif.C11.pax_property_set_get",
    "NfcVerif.C11.pax_lto_exact",
    "NfcVerif.C11.pax_setters_valid",
    "NfcVerif.C11.frmr_from_pdu_valid",
    "NfcVerif.C11.pdu_encoding_is_octets",
    "NfcVerif.C11.pdu_encoding_read_by_spec",
]

SIMPLE = ["symm", "pax", "ui", "connect", "disc", "cc", "dm", "frmr", "snl", "dps", "i", "rr", "rnr", "unknown"]
PTYPE = {"symm": 0, "pax": 1, "agf": 2, "ui": 3, "connect": 4, "disc": 5, "cc": 6, "dm": 7, "frmr": 8, "snl": 9,
         "dps": 10, "i": 12, "rr": 13, "rnr": 14}


# ---------------------------------------------------------------- generators
def rbytes(rng, n):
    return bytes(rng.randrange(256) for _ in range(n))


def pick_len(rng, limit):
    return rng.choice([0, 1, 2, 3, limit - 1, limit, rng.randrange(limit + 1), rng.randrange(min(limit, 20) + 1)])


def gen_valid(rng, kind=None, small=False):
    """a PDU description with valid field values (the quantifier of the round trip)"""
    k = kind or rng.choice(SIMPLE + ["agf"])
    sap = lambda: rng.choice([0, 1, 2, 15, 16, 31, 32, 62, 63, rng.randrange(64)])
    nib = lambda: rng.choice([0, 1, 14, 15, rng.randrange(16)])
    octet = lambda: rng.choice([0, 1, 127, 128, 254, 255, rng.randrange(256)])
    miu = lambda: 128 + rng.choice([0, 1, 2, 0x7FE, 0x7FF, rng.randrange(0x800)])
    paylen = lambda: pick_len(rng, 40 if small else rng.choice([10, 128, 300, 2175]))
    name = lambda limit: rbytes(rng, max(0, pick_len(rng, limit)))
    oname = lambda: rng.choice([None, name(255) or b"x", name(20) or b"urn:nfc:sn:x"])
    if k == "symm":
        return ("symm", 0, 0)
    if k == "pax":
        o = lambda f: f() if rng.random() < 0.6 else None
        return ("pax", 0, 0, o(octet), o(lambda: miu() - 128), o(lambda: rng.choice([0, 1, 65535, rng.randrange(65536)])),
                o(octet), o(lambda: rng.randrange(8)))
    if k == "agf":
        n = rng.choice([0, 1, 2, 3, rng.randrange(1, 9)])
        return ("agf", 0, 0, [gen_valid(rng, rng.choice(SIMPLE), small=True) for _ in range(n)])
    if k == "ui":
        return ("ui", sap(), sap(), rbytes(rng, paylen()))
    if k == "connect":
        return ("connect", sap(), sap(), miu(), nib(), oname())
    if k == "disc":
        return ("disc", sap(), sap())
    if k == "cc":
        return ("cc", sap(), sap(), miu(), nib())
    if k == "dm":
        return ("dm", sap(), sap(), octet())
    if k == "frmr":
        return ("frmr", sap(), sap()) + tuple(nib() for _ in range(8))
    if k == "snl":
        nq, nr = rng.choice([0, 1, 2, rng.randrange(6)]), rng.choice([0, 1, 2, rng.randrange(6)])
        return ("snl", 1, 1, [(octet(), name(rng.choice([254, 30]))) for _ in range(nq)],
                [(octet(), octet()) for _ in range(nr)])
    if k == "dps":
        return ("dps", 0, 0, oname(), oname())
    if k == "i":
        return ("i", sap(), sap(), nib(), nib(), rbytes(rng, paylen()))
    if k in ("rr", "rnr"):
        return (k, sap(), sap(), nib())
    return ("unknown", rng.choice([11, 15]), sap(), sap(), rbytes(rng, paylen()))


def gen_any(rng, kind=None):
    """type-directed PDU with boundary and out-of-range values (encode/len tie)"""
    p = list(gen_valid(rng, kind, small=rng.random() < 0.7))
    k = p[0]
    big = lambda lim: rng.choice([lim, lim + 1, lim + 2, 2 * lim + 1, lim * 16 + 5, 65535, 65536, 70000, 10 ** 6])
    n = rng.choice([0, 1, 1, 2])
    for _ in range(n):
        if k in ("symm", "pax", "agf", "dps", "snl") and rng.random() < 0.3:
            p[rng.choice([1, 2])] = rng.choice([0, 1, 2, 63, 64])
        elif rng.random() < 0.3:
            p[1 + (k == "unknown")] = rng.choice([63, 64, 65, 255, 1000])
            if rng.random() < 0.5:
                p[2 + (k == "unknown")] = rng.choice([63, 64, 200])
        elif k == "pax":
            i = rng.randrange(3, 8)
            p[i] = rng.choice([None, 0, 255, 256, 0x7FF, 0x800, 65535, 65536, 8, big(255)])
        elif k in ("connect", "cc"):
            i = rng.choice([3, 4])
            if i == 3:
                p[3] = rng.choice([0, 1, 127, 128, 129, 128 + 0x7FF, 128 + 0x800, 128 + 65535, 128 + 65536, 10 ** 6])
            else:
                p[4] = rng.choice([0, 1, 2, 15, 16, 17, 255, 256, 1000])
            if k == "connect" and rng.random() < 0.4:
                p[5] = rng.choice([None, b"", b"a", rbytes(rng, 255), rbytes(rng, 256), rbytes(rng, 300)])
        elif k == "dm":
            p[3] = rng.choice([0, 255, 256, 1000])
        elif k == "frmr":
            p[rng.randrange(3, 11)] = rng.choice([0, 15, 16, 17, 31, 255, 256, 4096])
        elif k == "snl":
            if rng.random() < 0.5:
                p[3] = list(p[3]) + [(rng.choice([0, 255, 256]), rbytes(rng, rng.choice([0, 1, 253, 254, 255, 300])))]
            else:
                p[4] = list(p[4]) + [(rng.choice([0, 255, 256]), rng.choice([0, 63, 255, 256]))]
        elif k == "dps":
            p[rng.choice([3, 4])] = rng.choice([None, b"", b"\x00", rbytes(rng, 255), rbytes(rng, 256)])
        elif k == "i":
            p[rng.choice([3, 4])] = rng.choice([0, 15, 16, 255, 256])
        elif k in ("rr", "rnr"):
            p[3] = rng.choice([0, 15, 16, 255])
        elif k == "unknown":
            p[1] = rng.choice([0, 2, 11, 15, 16, 17, 64, 1023, 1024, 2000])
        elif k == "agf":
            items = list(p[3])
            r = rng.random()
            if r < 0.4:
                items.append(tuple(gen_any(rng, rng.choice(SIMPLE))))
            elif r < 0.5:
                items.append(("ui", 1, 1, bytes(rng.choice([65533, 65534, 65535]) - 2)))
            elif r < 0.6:
                items.append(("i", 1, 1, 0, 0, bytes(rng.choice([65533, 65532, 65531]))))
            p[3] = items
    return tuple(p)


def tails(rng, ptype):
    """information fields aimed at the grammar of the PDU type"""
    def tlv():
        t = rng.choice([0, 1, 2, 3, 4, 5, 6, 7, 8, 9, 10, 11, 12, 255, rng.randrange(256)])
        want = {1: 1, 2: 2, 3: 2, 4: 1, 5: 1, 7: 1, 9: 2}.get(t, rng.randrange(0, 6))
        n = want if rng.random() < 0.75 else rng.choice([0, 1, 2, 3, 255, rng.randrange(256)])
        v = rbytes(rng, n if rng.random() < 0.85 else max(0, n - rng.randrange(1, 3)))
        return bytes([t, n]) + v
    r = rng.random()
    if r < 0.15:
        return rbytes(rng, rng.choice([0, 1, 2, 3, 4, 5]))
    if ptype == 2:
        out = b""
        for _ in range(rng.randrange(0, 4)):
            e = bytes([rng.randrange(256), rng.randrange(256)]) + tails(rng, rng.randrange(16))[:rng.choice([0, 3, 8, 40])]
            n = len(e) if rng.random() < 0.8 else rng.choice([0, 1, 2, len(e) + 1, max(0, len(e) - 1), 0xFFFF])
            out += bytes([n >> 8, n & 255]) + e
        return out + rbytes(rng, rng.choice([0, 0, 0, 1, 2]))
    if ptype in (1, 4, 6, 9, 10) or r < 0.3:
        return b"".join(tlv() for _ in range(rng.randrange(0, 5))) + rbytes(rng, rng.choice([0, 0, 0, 1]))
    return rbytes(rng, rng.choice([0, 1, 2, 3, 4, 5, 6, 7, 30, rng.randrange(300)]))


def mutate(rng, b):
    b = bytearray(b)
    r = rng.random()
    if r < 0.25 and b:
        b[rng.randrange(len(b))] ^= 1 << rng.randrange(8)
    elif r < 0.4 and b:
        del b[rng.randrange(len(b)):]
    elif r < 0.5:
        b += rbytes(rng, rng.randrange(1, 4))
    elif r < 0.65 and b:
        b[rng.randrange(len(b))] = rng.choice([0, 1, 2, 3, 255, rng.randrange(256)])
    elif r < 0.75 and b:
        i = rng.randrange(len(b))
        del b[i:i + rng.randrange(1, 4)]
    elif r < 0.85 and b:
        i = rng.randrange(len(b))
        b[i:i] = rbytes(rng, rng.randrange(1, 4))
    elif len(b) > 2:
        i = rng.randrange(2, len(b))
        b[i] = (b[i] + rng.choice([1, -1, 2, -2])) & 255
    return bytes(b)


# ---------------------------------------------------------------- check
def run(ck):
    ck.tables("TablesPdu")   # T-tie for constants: source tables re-extracted, bridge theorems re-proved
    import nfc.llcp.pdu as P
    rng = ck.rng
    T = ck.thorough
    ck.rule = ("decode cases: one octet string (+ offset/size); non-trivial = at least 2 octets. encode/len cases: "
               "one PDU description; non-trivial = not a bare header-only PDU. object cases: one initial PDU plus a "
               "sequence of operations (set / append / encode / len / encode_header / == / str / property read / field "
               "read) on the same object; non-trivial = the sequence assigns or appends at least once. "
               "FrameReject.from_pdu cases: PDU, flags, four counters. oracle cases are counted with the same canonical "
               "form; distinct by hash of the canonical case")
    ck.assumptions += [
        "integer PDU fields hold non-negative ints (None/negative ints in integer fields are outside the model); "
        "octet-string fields hold bytes or None",
        "the model functions equal the Python functions outside the compared inputs (the D-tie is exhaustive only "
        "where stated: octet strings of <= 2 octets, thorough <= 3 octets)",
        "LLCP 1.3 frame formats as transcribed in NfcVerif.Pdu.Spec and, independently, harness/sims/pdu_ref.py; "
        "receiver leniencies of the library (masking reserved bits, skipping unknown TLVs, ignoring surplus octets "
        "of DISC/RR/RNR and a single trailing octet after a TLV list) are part of both readings",
        "an aggregate holds non-aggregate PDUs (model type SPdu); encoding an AGF object that holds another AGF "
        "object is outside the model and is refused by decode",
        "objects: assigning `ns` of an RR/RNR PDU (a hidden attribute that encode_header packs into the reserved N(S) bits "
        "and decode resets), `ptype` of the 14 fixed classes and None in integer attributes are outside the model and are "
        "not generated; str() is only required to change nothing and not to raise on valid fields",
    ]
    ck.trusted += ["hand-written Lean models NfcVerif.Model.Pdu and NfcVerif.Model.PduObj, tied by differential runs",
                   "harness/props/c11.py, harness/sims/pdu_ref.py, harness/sims/pdu_obj.py (generators, field extraction, "
                   "reference decoder, validity predicate, operations on real objects)"]
    ck.lean("NfcVerif.Props.C11", THEOREMS)
    if T:
        ck.leanchecker(["NfcVerif.Props.C11"])
    model = Model("drv_c11")
    signal.signal(signal.SIGVTALRM, _on_vtalrm)

    def real_decode(b, off=None, size=None):
        """-> (canonical line, description|None)"""
        try:
            o = guarded(P.decode, b) if off is None else guarded(P.decode, b, off, size)
            if type(o) is P.AggregatedFrame and len(o._aggregate) > max(8, len(b)):
                # more aggregated PDUs than octets: do not build the text of a runaway result, report it as it is
                return "ok agf with %d aggregated PDUs decoded from %d octets" % (len(o._aggregate), len(b)), None
            d = R.from_obj(P, o)
            return "ok " + R.text(d), d
        except Exception as e:  # noqa
            return "exc " + exc_name(e), None

    def real_encode(desc):
        try:
            return "ok " + hx(guarded(P.encode, R.to_obj(P, desc)))
        except Exception as e:  # noqa
            return "exc " + exc_name(e)

    def real_len(desc):
        try:
            return "ok %d" % guarded(len, R.to_obj(P, desc))
        except Exception as e:  # noqa
            return "exc " + exc_name(e)

    pending = []   # (request, real line, replay dict)
    stats = {"cases": 0, "dis": 0, "spec": 0, "specdis": 0}
    perkey = {}
    ck_fail = ck.fail

    def fail(key, what, replay):
        """at most 3 reports per key, so that one kind of failure does not hide the others"""
        perkey[key] = perkey.get(key, 0) + 1
        if perkey[key] <= 3:
            ck_fail(key, what, replay)
    ck.fail = fail

    def flush(name="pdu model vs nfc.llcp.pdu"):
        if not pending:
            return
        replies = model.ask_many([r[0] for r in pending])
        for (line, real, rp), rep in zip(pending, replies):
            if rep != real:
                if line.startswith("spec "):
                    stats["specdis"] += 1
                    key = "tie:c11-spec-vs-pdu.py"
                else:
                    stats["dis"] += 1
                    key = "tie:c11-model-vs-pdu.py"
                rp = dict(rp, request=line[:4000], model=rep[:2000], impl=real[:2000])
                ck.fail(key, "model %r, implementation %r on %r" % (rep[:300], real[:300], line[:300]), rp)
        stats["spec"] += sum(1 for r in pending if r[0].startswith("spec "))
        stats["cases"] += sum(1 for r in pending if not r[0].startswith("spec "))
        pending.clear()

    # ------------------------------------------------------------ decode: oracle + tie on one octet string
    seen_dec = set()

    def dec_case(b, bucket, tie=True, oracle=True):
        b = bytes(b)
        real, d = real_decode(b)
        if tie:
            pending.append(("dec " + hx(b), real, {"octets": b.hex()}))
            # the Lean reading of the frame formats (NfcVerif.Pdu.Spec.decode) against the real decoder
            if not real.startswith("exc") or real == "exc DecodeError":
                pending.append(("spec " + hx(b), real, {"octets": b.hex()}))
        ck.case(("dec", b), len(b) >= 2, bucket,
                sample={"request": "dec " + hx(b)[:80], "impl": real[:120]} if len(ck.samples) < 2 or rng.random() < 2e-5 else None)
        if not oracle:
            return d
        rp = {"octets": b.hex() if len(b) < 3000 else b[:3000].hex() + "...", "len": len(b), "impl": real[:500]}
        name = real[4:] if real.startswith("exc") else None
        if name is not None and name != "DecodeError":
            if name == "RecursionError":
                ck.fail("agf-nested-recursion-error", "decode of %d octets of nested AGF headers raised RecursionError" % len(b), rp)
            elif name == "NonTermination":
                ck.fail("decode-does-not-terminate", "decode(%s) did not return within the processor-time budget" % b.hex()[:200], rp)
            else:
                ck.fail("decode-internal-exception", "decode(%s) raised %s" % (b.hex()[:200], name), rp)
            return None
        ref = R.ref_decode(b)
        reft = "exc DecodeError" if ref is None else "ok " + R.text(ref)
        if reft != real:
            if d is not None and R.contains_nested_agf(d):
                ck.fail("agf-nested-accepted", "decode accepted an AGF PDU inside an AGF PDU: %s" % b.hex()[:200], rp)
            elif ref is None and d is not None and overread(b):
                ck.fail("tlv-read-beyond-pdu", "decode(%s): an aggregated PDU was decoded with octets behind its end -> %s"
                        % (b.hex()[:200], real[:200]), rp)
            else:
                ck.fail("decode-differs-from-format", "decode(%s) = %s, LLCP frame format reading gives %s"
                        % (b.hex()[:200], real[:200], reft[:200]), dict(rp, reference=reft[:500]))
        if d is not None and not R.contains_nested_agf(d):
            # re-encoding decodes to the same PDU (normal form), length is the encoding's length
            try:
                o = R.to_obj(P, d)
                e = P.encode(o)
                if len(o) != len(e):
                    ck.fail("len-differs-from-encoding", "len = %d, encoding has %d octets: %s" % (len(o), len(e), R.text(d)[:200]), rp)
                d2 = R.from_obj(P, P.decode(e))
                if d2 != R.norm(d):
                    ck.fail("reencode-changes-pdu" if not rw0(R.norm(d), d2) else "connect-rw0-not-encoded",
                            "decode(%s) = %s, but decode(encode(.)) = %s" % (b.hex()[:200], R.text(d)[:200], R.text(d2)[:200]), rp)
            except Exception as ex:  # noqa
                ck.fail("reencode-raises", "decode(%s) = %s, encode raised %s" % (b.hex()[:200], R.text(d)[:200], exc_name(ex)), rp)
        return d

    def rw_default(d):
        """the PDU with every RW = 0 replaced by the default 1"""
        if d[0] in ("connect", "cc") and d[4] == 0:
            return d[:4] + (1,) + d[5:]
        if d[0] == "agf":
            return d[:3] + ([rw_default(q) for q in d[3]],)
        return d

    def rw0(d, got=None):
        """the F4 pattern: `got` is `d` with RW = 0 turned into RW = 1 and nothing else changed"""
        return got is not None and rw_default(d) != d and rw_default(d) == got

    def overread(b):
        """some aggregated PDU decodes differently inside the aggregate than from its own octets"""
        try:
            i, k = 2, 0
            agf = P.decode(b)
            while i < len(b):
                n = b[i] << 8 | b[i + 1]
                own, _ = real_decode(b[i + 2:i + 2 + n])
                if own != "ok " + R.text(R.from_obj(P, agf._aggregate[k])):
                    return True
                i, k = i + 2 + n, k + 1
        except Exception:  # noqa
            pass
        return False

    # ------------------------------------------------------------ encode / len
    def enc_case(desc, valid, bucket):
        t = R.text(desc)
        if len(t) > 400000:
            return
        real = real_encode(desc)
        ln = real_len(desc)
        pending.append(("enc " + t, real, {"pdu": t[:3000]}))
        pending.append(("len " + t, ln, {"pdu": t[:3000]}))
        nontrivial = len(desc) > 3 or desc[0] == "agf"
        ck.case(("enc", t), nontrivial, bucket,
                sample={"request": "enc " + t[:100], "impl": real[:100]} if rng.random() < 1e-4 or len(ck.samples) < 4 else None)
        rp = {"pdu": t[:3000], "encode": real[:3000], "len": ln}
        # oracles on the real code
        if real.startswith("ok"):
            e = bytes.fromhex(real[3:]) if real[3:] != "-" else b""
            if ln != "ok %d" % len(e):
                ck.fail("len-differs-from-encoding", "len(%s) = %s, encoding has %d octets" % (t[:200], ln, len(e)), rp)
        if not valid:
            return
        if not real.startswith("ok"):
            ck.fail("valid-pdu-not-encodable", "encode(%s) raised %s" % (t[:200], real), rp)
            return
        back, d = real_decode(e)
        if d != desc:
            key = "connect-rw0-not-encoded" if rw0(desc, d) else "roundtrip-field-mismatch"
            ck.fail(key, "decode(encode(%s)) = %s" % (t[:200], back[:200]), dict(rp, decoded=back[:3000]))
        ref = R.ref_decode(e)
        if ref != desc:
            ck.fail("connect-rw0-not-encoded" if rw0(desc, ref) else "encoding-differs-from-format", "encode(%s) = %s which the LLCP frame format reading takes as %s"
                    % (t[:200], e.hex()[:200], "malformed" if ref is None else R.text(ref)[:200]), rp)

    # ------------------------------------------------------------ witnesses of the defects seen at design time, first
    def witnesses():
        enc_case(("connect", 4, 32, 128, 0, None), True, "enc:witness")           # F4
        enc_case(("cc", 32, 4, 128, 0), True, "enc:witness")
        dec_case(bytes.fromhex("0080" "0004" "11200202" "0002" "0540"), "dec:witness")   # F5: cut MIUX TLV, then DISC
        w2 = bytes.fromhex("112006044142" "4344")                                  # F5: SN TLV longer than size
        real, _ = real_decode(w2, 0, 4)
        pending.append(("decat %s 0 4" % hx(w2), real, {"octets": w2.hex(), "offset": 0, "size": 4}))
        ck.case(("decat", w2, 0, 4), True, "decat")
        if real != real_decode(w2[:4])[0]:
            ck.fail("tlv-read-beyond-pdu", "decode(%s, 0, 4) = %s: service name taken from outside the 4 octets" % (w2.hex(), real),
                    {"octets": w2.hex(), "offset": 0, "size": 4})
        e = b"\x00\x80"                                                            # F6: 520 nested AGF headers
        for _ in range(520):
            e = b"\x00\x80" + len(e).to_bytes(2, "big") + e
        dec_case(e, "dec:witness")
        flush()

    witnesses()
    phases = []
    t_mark = [time.time(), time.process_time()]

    def phase(name):
        now = [time.time(), time.process_time()]
        phases.append("%s %.1f/%.1f" % (name, now[0] - t_mark[0], now[1] - t_mark[1]))
        t_mark[:] = now

    # exhaustive short strings
    dec_case(b"", "dec:exhaustive")
    for a in range(256):
        dec_case(bytes([a]), "dec:exhaustive")
    for a in range(256):
        for c in range(256):
            dec_case(bytes([a, c]), "dec:exhaustive")
        flush()
    n3 = 0
    if T:
        # all 2^24 strings of three octets: lean loop (real decode + reference reading + model), counted in bulk
        spec_x = set([0, 1, 2, 3, 5, 0x0F, 0x10, 0x40, 0x41, 0x7F, 0x80, 0xFF] + [rng.randrange(256) for _ in range(20)])
        for a in range(256):
            for c in range(256):
                h = bytes([a, c])
                for x in range(256):
                    b3 = h + bytes([x])
                    try:
                        real = "ok " + R.text(R.from_obj(P, P.decode(b3)))
                    except P.DecodeError:
                        real = "exc DecodeError"
                    except Exception as e:  # noqa
                        real = "exc " + exc_name(e)
                        ck.fail("decode-internal-exception", "decode(%s) raised %s" % (b3.hex(), real[4:]), {"octets": b3.hex()})
                    ref = R.ref_decode(b3)
                    if ("exc DecodeError" if ref is None else "ok " + R.text(ref)) != real and real[4:] not in INTERNAL:
                        ck.fail("decode-differs-from-format", "decode(%s) = %s, LLCP frame format reading gives %s"
                                % (b3.hex(), real, "exc DecodeError" if ref is None else R.text(ref)), {"octets": b3.hex()})
                    hexs = b3.hex()
                    pending.append(("dec " + hexs, real, {"octets": hexs}))
                    if x in spec_x and real[4:] not in INTERNAL:
                        pending.append(("spec " + hexs, real, {"octets": hexs}))
            n3 += 65536
            flush()
        ck.evals += n3
        ck.count("dec:exhaustive3", n3)
        ck.notes.append("the %d three-octet strings are counted in evaluations but not hashed into distinct_nontrivial" % n3)
    else:
        for _ in range(30000):
            dec_case(rbytes(rng, 3), "dec:3-octets")
        flush()
    ck.notes.append("decode compared on ALL octet strings of length <= %d (%d strings)" % (3 if T else 2, 65793 + n3))

    # every header x tails
    per = 4 if T else 1
    for a in range(256):
        for c in range(256):
            pt = (a << 8 | c) >> 6 & 15
            for _ in range(per):
                dec_case(bytes([a, c]) + tails(rng, pt), "dec:header-x-tail:%d" % pt)
        flush()

    # focus: headers that pass the SAP constraints, many tails
    for _ in range(60000 if T else 12000):
        pt = rng.choice([0, 1, 2, 3, 4, 5, 6, 7, 8, 9, 10, 11, 12, 13, 14, 15, 1, 2, 4, 6, 9, 10])
        d, s = {0: (0, 0), 1: (0, 0), 2: (0, 0), 9: (1, 1), 10: (0, 0)}.get(pt, (rng.randrange(64), rng.randrange(64)))
        w = d << 10 | pt << 6 | s
        dec_case(bytes([w >> 8, w & 255]) + tails(rng, pt), "dec:typed-tail:%d" % pt)
    flush()

    # grammar-aware mutation of real encodings
    for _ in range(40000 if T else 8000):
        desc = gen_valid(rng, small=rng.random() < 0.8)
        try:
            b = P.encode(R.to_obj(P, desc))
        except Exception:  # noqa
            continue
        for _ in range(rng.choice([0, 1, 1, 2, 3])):
            b = mutate(rng, b)
        dec_case(b, "dec:mutated:" + desc[0])
    flush()

    # random strings up to 2200 octets
    for _ in range(3000 if T else 500):
        n = rng.choice([rng.randrange(4, 40), rng.randrange(4, 300), rng.randrange(300, 2201), 2200])
        b = bytearray(rbytes(rng, n))
        if rng.random() < 0.7:
            pt = rng.randrange(16)
            d, s = {0: (0, 0), 1: (0, 0), 2: (0, 0), 9: (1, 1), 10: (0, 0)}.get(pt, (rng.randrange(64), rng.randrange(64)))
            w = d << 10 | pt << 6 | s
            b[0:2] = bytes([w >> 8, w & 255])
        dec_case(bytes(b), "dec:random-long")
    flush()

    # nested aggregates (F6): k AGF headers inside each other
    for k in ([1, 2, 3, 10, 100, 400, 520, 545] if T else [1, 2, 3, 10, 520]):
        inner = rng.choice([b"", b"\x00\x02\x00\x00", b"\x00\x02\x05\x41"])
        # build from the inside: AGF( len AGF( len AGF(...)))
        e = b"\x00\x80" + inner
        for _ in range(k):
            e = b"\x00\x80" + len(e).to_bytes(2, "big") + e
        if len(e) <= 2200:
            dec_case(e, "dec:nested-agf")
    flush()

    phase("decode")
    # ------------------------------------------------------------ locality / decode with offset and size
    for _ in range(20000 if T else 4000):
        desc = gen_valid(rng, rng.choice(SIMPLE), small=True)
        try:
            e = P.encode(R.to_obj(P, desc))
        except Exception:  # noqa
            continue
        if rng.random() < 0.6:
            e = mutate(rng, e)
        if rng.random() < 0.3:
            # cut a TLV so that its value would have to come from the octets behind the PDU
            e = e[:max(2, len(e) - rng.randrange(1, 4))]
        pre, post = rbytes(rng, rng.choice([0, 1, 2, 5])), tails(rng, rng.choice([1, 4, 9]))[:rng.choice([0, 1, 4, 12])]
        buf = pre + e + post
        real, d = real_decode(buf, len(pre), len(e))
        own, d_own = real_decode(e)
        pending.append(("decat %s %d %d" % (hx(buf), len(pre), len(e)), real, {"octets": buf.hex(), "offset": len(pre), "size": len(e)}))
        ck.case(("decat", buf, len(pre), len(e)), True, "decat")
        rp = {"octets": buf.hex(), "offset": len(pre), "size": len(e), "impl": real[:300], "alone": own[:300]}
        if real != own:
            if real.startswith("exc") and real[4:] in INTERNAL:
                ck.fail("decode-internal-exception", "decode(%s, %d, %d) raised %s" % (buf.hex()[:200], len(pre), len(e), real), rp)
            else:
                ck.fail("tlv-read-beyond-pdu", "decode(%s, %d, %d) = %s but the %d octets alone decode to %s"
                        % (buf.hex()[:120], len(pre), len(e), real[:160], len(e), own[:160]), rp)
        # the same PDU as an element of an aggregate, followed by a neighbour
        if len(e) >= 2 and (e[0] << 8 | e[1]) >> 6 & 15 != 2:
            nb = tails(rng, 2)[:rng.choice([0, 4, 9])] if rng.random() < 0.5 else b"\x00\x02\x05\x41"
            agf = b"\x00\x80" + len(e).to_bytes(2, "big") + e + nb
            d_agf = dec_case(agf, "dec:agf-neighbour")
            if d_agf is not None and d_agf[0] == "agf" and d_agf[3] and (d_own is None or d_agf[3][0] != d_own):
                ck.fail("tlv-read-beyond-pdu", "first PDU of aggregate %s decoded as %s, its own octets decode to %s"
                        % (agf.hex()[:160], R.text(d_agf[3][0])[:160], own[:160]), {"octets": agf.hex(), "alone": own[:300]})
    # out-of-range offset/size arguments
    for _ in range(2000 if T else 400):
        buf = rbytes(rng, rng.randrange(0, 12))
        off, size = rng.randrange(0, 14), rng.randrange(0, 14)
        real, _ = real_decode(buf, off, size)
        pending.append(("decat %s %d %d" % (hx(buf), off, size), real, {"octets": buf.hex(), "offset": off, "size": size}))
        ck.case(("decat", buf, off, size), True, "decat:any-bounds")
        if real.startswith("exc") and real[4:] in INTERNAL:
            ck.fail("decode-internal-exception", "decode(%s, %d, %d) raised %s" % (buf.hex(), off, size, real),
                    {"octets": buf.hex(), "offset": off, "size": size})
    flush()
    # ------------------------------------------------------------ encode / len: exploration
    # boundary sweep of the small integer fields, all values
    for rw in range(16):
        for miu in (128, 129, 128 + 0x7FF):
            enc_case(("connect", 4, 32, miu, rw, b"urn:nfc:sn:snep"), True, "enc:valid:sweep")
            enc_case(("connect", 4, 32, miu, rw, None), True, "enc:valid:sweep")
            enc_case(("cc", 32, 4, miu, rw), True, "enc:valid:sweep")
    for v in range(16):
        enc_case(("i", 16, 32, v, 15 - v, b"\x01"), True, "enc:valid:sweep")
        enc_case(("rr", 16, 32, v), True, "enc:valid:sweep")
        enc_case(("rnr", 16, 32, v), True, "enc:valid:sweep")
        enc_case(("frmr", 16, 32, v, 15 - v, v, v ^ 5, v ^ 10, 15 - v, v, v ^ 3), True, "enc:valid:sweep")
    for d in range(64):
        enc_case(("disc", d, 63 - d), True, "enc:valid:sweep")
        enc_case(("ui", 63 - d, d, b"ab"), True, "enc:valid:sweep")
        enc_case(("dm", d, d, d * 4), True, "enc:valid:sweep")
    for miux in ([0, 1, 255, 256, 0x7FE, 0x7FF] + [rng.randrange(0x800) for _ in range(200 if T else 40)]):
        enc_case(("pax", 0, 0, 0x13, miux, 0x13, 100, 3), True, "enc:valid:sweep")
        enc_case(("cc", 1, 2, 128 + miux, 2), True, "enc:valid:sweep")
    for n in (1, 2, 254, 255):
        enc_case(("connect", 1, 32, 128, 1, bytes(n)), True, "enc:valid:sweep")
        enc_case(("dps", 0, 0, bytes([1]) * n, None), True, "enc:valid:sweep")
        enc_case(("snl", 1, 1, [(1, bytes([65]) * (n - 1))], []), True, "enc:valid:sweep")
    # empty optional fields: b"" is "false" like None for SN/ECPK/RN in encode() AND in __len__();
    # SDREQ names, payloads and parameter lists may be empty.  len must follow encode in every combination.
    for d_, s_ in ((1, 32), (0, 0), (63, 63)):
        for miu in (128, 200):
            for rw in (0, 1, 2):
                for sn in (b"", None, b"x"):
                    enc_case(("connect", d_, s_, miu, rw, sn), sn != b"", "enc:empty-optional")
    for ecpk in (b"", None, b"\x01", bytes(64)):
        for rn in (b"", None, b"\x02", bytes(8)):
            enc_case(("dps", 0, 0, ecpk, rn), ecpk != b"" and rn != b"", "enc:empty-optional")
    for q in ([], [(1, b"")], [(1, b""), (2, b"")], [(0, b""), (255, b"urn:nfc:sn:snep")], [(7, b"a"), (8, b"")]):
        for r in ([], [(1, 16)], [(0, 0), (255, 63)]):
            enc_case(("snl", 1, 1, q, r), True, "enc:empty-optional")
    enc_case(("ui", 1, 1, b""), True, "enc:empty-optional")
    enc_case(("i", 1, 1, 0, 0, b""), True, "enc:empty-optional")
    enc_case(("unknown", 11, 1, 1, b""), True, "enc:empty-optional")
    enc_case(("pax", 0, 0, None, None, None, None, None), True, "enc:empty-optional")
    enc_case(("agf", 0, 0, []), True, "enc:empty-optional")
    enc_case(("agf", 0, 0, [("connect", 1, 32, 128, 1, b""), ("dps", 0, 0, b"", b""), ("snl", 1, 1, [(1, b"")], [])]),
             False, "enc:empty-optional")
    # ... and the decoded form of an empty name (SN TLV with L = 0) re-encodes consistently
    for e in (bytes.fromhex("11200600"), bytes.fromhex("02800a000b00"), bytes.fromhex("024108010508010609020110"),
              bytes.fromhex("0080" "0004" "11200600" "0006" "02800a000b00")):
        dec_case(e, "dec:empty-optional")
    flush()
    for _ in range(60000 if T else 9000):
        desc = gen_valid(rng)
        enc_case(desc, True, "enc:valid:" + desc[0])
        if len(pending) > 40000:
            flush()
    flush()
    for _ in range(60000 if T else 9000):
        desc = gen_any(rng)
        enc_case(desc, False, "enc:any:" + desc[0])
        if len(pending) > 40000:
            flush()
    flush()


    phase("decode-at+encode")
    # ------------------------------------------------------------ encode / len: exhaustive boundary grids
    # every optional parameter of every PDU type at its default, at zero, at its maximum and absent (product per
    # type), every value of every one-octet / nibble field, every DSAP x SSAP: deterministic, not drawn
    simple_sample = []
    for n, desc in enumerate(O.grid(T)):
        enc_case(desc, True, "enc:grid:" + desc[0])
        if n % 97 == 0 or (desc[0] in ("pax", "connect", "cc", "snl", "dps") and n % 13 == 0):
            simple_sample.append(desc)
        if len(pending) > 40000:
            flush()
    for desc in O.agf_grid(simple_sample):
        enc_case(desc, True, "enc:grid:agf")
    flush()

    phase("grid")
    # ------------------------------------------------------------ decode: products of a TLV pool for PAX/CONNECT/CC/SNL/DPS
    # (the classes whose decode/encode/len are not regenerated by the function translator), alone and aggregated
    pool_depth = 2
    for body in O.tlv_bodies(pool_depth):
        for hdr in (b"\x00\x40", b"\x11\x20", b"\x81\x84", b"\x06\x41", b"\x02\x80"):
            e = hdr + body
            dec_case(e, "dec:tlv-product")
            if len(body) % 3 != 1:
                dec_case(b"\x00\x80\x00\x02\x00\x00" + len(e).to_bytes(2, "big") + e, "dec:tlv-product-agf")
            else:
                dec_case(b"\x00\x80" + len(e).to_bytes(2, "big") + e + b"\x00\x02\x05\x41", "dec:tlv-product-agf")
        if len(pending) > 40000:
            flush()
    if T:
        for combo in itertools.product(O.TLV_POOL, repeat=3):
            body = b"".join(combo)
            for hdr in (b"\x00\x40", b"\x11\x20", b"\x81\x84", b"\x06\x41", b"\x02\x80"):
                dec_case(hdr + body, "dec:tlv-product3")
            if len(pending) > 40000:
                flush()
    flush()

    # one TLV swept over its type, length and value: T (all 256) x L 0..3 (quick: 0..1 away from the assigned types)
    # x V over {00, 01, ff}^L, alone and followed by a well-formed parameter, in each parameter-list PDU type
    near = set(range(17)) | {127, 128, 254, 255}
    for t_ in range(256):
        for l_ in (range(4) if T or t_ in near else range(2)):
            for v_ in itertools.product((0, 1, 255), repeat=l_):
                tlv = bytes([t_, l_]) + bytes(v_)
                for hdr, nxt in ((b"\x00\x40", b"\x04\x01\x64"), (b"\x11\x20", b"\x05\x01\x02"), (b"\x81\x84", b"\x02\x02\x00\x78"),
                                 (b"\x06\x41", b"\x09\x02\x01\x10"), (b"\x02\x80", b"\x0b\x01\x07")):
                    dec_case(hdr + tlv, "dec:tlv-sweep")
                    dec_case(hdr + tlv + nxt, "dec:tlv-sweep")
        if len(pending) > 40000:
            flush()
    flush()

    # aggregates: every pair of length-prefixed elements from a pool (well-formed and malformed elements, length field
    # exact / one more / one less / 0 / 0xFFFF), with 0..2 surplus octets
    for body in O.agf_bodies(2):
        dec_case(b"\x00\x80" + body, "dec:agf-product")
        if len(body) % 5 == 0:
            dec_case(b"\x00\x80" + body + b"\x00", "dec:agf-product")
            dec_case(b"\x00\x81" + body, "dec:agf-product")
        if len(pending) > 40000:
            flush()
    flush()

    phase("tlv+agf products")
    # ------------------------------------------------------------ PDU objects: assignments and repeated observation
    # PDU objects are mutable (tco assigns ns / nr after construction, llc fills PAX through its properties and appends
    # to the SNL lists, == encodes both sides).  The round trip and the length must hold for the field values an object
    # has when it is observed, whatever was assigned and observed before.  Model: NfcVerif.Pdu.Obj (reply = function
    # of the current fields, observers change nothing).
    def fields(obj):
        try:
            return R.from_obj(P, obj)
        except Exception:  # noqa
            return None

    def item_len(q):
        try:
            return len(P.encode(R.to_obj(P, q)))
        except Exception:  # noqa
            return 1 << 30

    def valid(desc):
        try:
            return O.is_valid(desc, item_len)
        except Exception:  # noqa
            return False

    def pax_props(obj):
        out = {}
        for g in ("version", "miu", "wks", "lto", "lsc", "dpc"):
            try:
                v = getattr(obj, g)
                out[g] = tuple(v) if g == "version" else v
            except Exception as e:  # noqa
                out[g] = "exc " + exc_name(e)
        return out

    def seq_case(desc, ops, bucket, via_decode=False):
        rp = {"pdu": R.text(desc)[:2000], "operations": [O.op_text(o)[:300] for o in ops]}
        try:
            obj = R.to_obj(P, desc)
            if via_decode:
                obj = P.decode(P.encode(obj))
                rp["object"] = "decode(encode(pdu))"
        except Exception as e:  # noqa
            if valid(desc):
                ck.fail("valid-pdu-not-encodable", "constructing / decoding %s raised %s" % (R.text(desc)[:200], exc_name(e)), rp)
            return
        replies = []
        mutated = False
        for i, op in enumerate(ops):
            k = op[0]
            before = fields(obj) if k in O.OBSERVERS else None
            props0 = pax_props(obj) if k == "set" and op[1] in O.PAX_PROPS and type(obj) is P.ParameterExchange else None
            rep = guarded(O.apply_real, P, obj, op, exc_name, i)
            replies.append(rep)
            if k not in O.OBSERVERS:
                mutated = True
                if props0 is not None:
                    # the public PAX properties (what llc.activate writes and reads) obey get-after-set, and a setter
                    # touches no other property - judged on the real object alone
                    want = O.pax_expect(op[1], op[2], props0)
                    got = pax_props(obj)
                    if want is not None and got != want:
                        ck.fail("pax-property-setter-getter", "pax.%s = %r on a PAX PDU with the properties %s gives %s, expected %s"
                                % (op[1], op[2], props0, got, want),
                                dict(rp, step=i, properties_before=str(props0), properties_after=str(got), expected=str(want)))
                continue
            cur = fields(obj)
            hist = " ; ".join(O.op_text(o)[:60] for o in ops[:i + 1])
            rq = dict(rp, step=i, reply=rep[:600], fields=None if cur is None else R.text(cur)[:600])
            if cur != before or cur is None:
                ck.fail("observer-changes-fields", "%s on %s: the fields were %s and are %s afterwards"
                        % (hist[-300:], R.text(desc)[:120], None if before is None else R.text(before)[:160],
                           None if cur is None else R.text(cur)[:160]), rq)
                continue
            ok = valid(cur)
            try:
                fresh = R.to_obj(P, cur)
            except Exception:  # noqa
                continue
            if k == "enc":
                try:
                    want = "ok " + hx(P.encode(fresh))
                except Exception as e:  # noqa
                    want = "exc " + exc_name(e)
                if rep != want:
                    ck.fail("encoding-depends-on-history", "after %s the object has the fields %s and encodes to %s, "
                            "a new object with the same fields encodes to %s" % (hist[-300:], R.text(cur)[:160], rep[:160], want[:160]),
                            dict(rq, fresh=want[:600]))
                if not rep.startswith("ok"):
                    if ok:
                        ck.fail("valid-pdu-not-encodable", "after %s: encode of %s raised %s" % (hist[-300:], R.text(cur)[:160], rep), rq)
                    continue
                e = bytes.fromhex(rep[3:]) if rep[3:] != "-" else b""
                try:
                    n = len(obj)
                except Exception as ex:  # noqa
                    n = "exc " + exc_name(ex)
                if n != len(e):
                    ck.fail("len-differs-from-encoding", "after %s: len = %s, encoding %s has %d octets" % (hist[-300:], n, rep[3:160], len(e)), rq)
                if ok:
                    back, d = real_decode(e)
                    if d != cur:
                        ck.fail("roundtrip-field-mismatch", "after %s the object has the fields %s, decode(encode(.)) = %s"
                                % (hist[-300:], R.text(cur)[:160], back[:160]), dict(rq, decoded=back[:600]))
            elif k == "len":
                try:
                    want = "ok %d" % len(fresh)
                except Exception as e:  # noqa
                    want = "exc " + exc_name(e)
                if rep != want:
                    ck.fail("len-depends-on-history", "after %s: len = %s, a new object with the same fields %s has len %s"
                            % (hist[-300:], rep, R.text(cur)[:160], want), dict(rq, fresh=want))
            elif k == "eq":
                if ok and valid(op[1]):
                    want = "ok T" if R.norm(cur) == R.norm(op[1]) else "ok F"
                    if rep != want:
                        ck.fail("eq-differs-from-fields", "after %s: (%s == %s) gave %s" % (hist[-300:], R.text(cur)[:120], R.text(op[1])[:120], rep), rq)
            elif k in ("str", "state", "hdr", "get"):
                if ok and rep.startswith("exc"):
                    ck.fail("observer-raises", "after %s: %s of %s raised %s" % (hist[-300:], k, R.text(cur)[:160], rep), rq)
        line = O.seq_text(desc, ops)
        if len(line) < 300000:
            pending.append((line, " | ".join(replies), rp))
            stats["seq"] = stats.get("seq", 0) + 1
        ck.case(("seq", line), mutated, bucket,
                sample={"request": line[:160], "impl": " | ".join(replies)[:160]} if rng.random() < 3e-4 else None)
        if len(pending) > 20000:
            flush()

    after = lambda base: [("enc",), ("len",), ("hdr",), ("state",), ("eq", base)]
    # (1) observe, assign one attribute, observe: every class x every attribute x every boundary value x every observer
    for kind in O.KINDS:
        for base, attr, v in O.assign_neighbourhood(kind):
            for pre in O.pre_observers(base):
                seq_case(base, ([pre] if pre else []) + [("set", attr, v)] + after(base), "seq:assign:" + kind)
        for base, attr, v in O.assign_neighbourhood(kind, with_invalid=True):
            if v in O.values(kind, attr)[1]:
                for pre in (None, ("enc",), ("len",)):
                    seq_case(base, ([pre] if pre else []) + [("set", attr, v), ("enc",), ("len",), ("state",)], "seq:assign-invalid:" + kind)
        for attr in O.STRAY.get(kind, []):
            if attr in O.VALUES or attr == "miu":
                v = O.values(kind, attr)[0][-1]
                seq_case(O.BASES[kind][-1], [("enc",), ("set", attr, v), ("enc",), ("len",), ("state",)], "seq:stray-attribute")
    # (2) the send path of a data link connection: N(S) at send(), comparison in the queue, N(R) at dequeue
    for ns in range(16):
        for nr in range(16):
            seq_case(("i", 32, 16, (ns + 1) % 16, (nr + 5) % 16, b"x"),
                     [("enc",), ("set", "ns", ns), ("eq", ("i", 32, 16, ns, (nr + 5) % 16, b"x")), ("set", "nr", nr), ("enc",), ("len",),
                      ("hdr",), ("state",), ("eq", ("i", 32, 16, ns, nr, b"x"))], "seq:send-path")
            seq_case(("frmr", 32, 16, 1, 12, 0, 0, 0, 0, 0, 0),
                     [("len",), ("enc",), ("set", "ns", ns), ("set", "nr", nr), ("set", "vs", nr), ("set", "vra", ns), ("enc",), ("state",)],
                     "seq:send-path")
    for k in ("rr", "rnr"):
        for a in range(16):
            for b_ in range(16):
                seq_case((k, 16, 32, a), [("eq", (k, 16, 32, a)), ("set", "nr", b_), ("enc",), ("len",), ("state",), ("eq", (k, 16, 32, b_))],
                         "seq:send-path")
    # (3) PAX properties (llc.activate fills the PAX PDU through them): setters and getters, exhaustive where finite
    for o_ in [None] + list(range(256)):
        for v in (0, 1, 2, 3, 4, 7, 255):
            seq_case(("pax", 0, 0, None, None, None, None, None),
                     [("set", "_opt", o_), ("set", "lsc", v), ("state",), ("get", "lsc"), ("get", "dpc"), ("enc",)], "seq:pax-property")
        for v in (0, 1, 2):
            seq_case(("pax", 0, 0, None, None, None, None, None),
                     [("set", "_opt", o_), ("enc",), ("set", "dpc", v), ("state",), ("get", "lsc"), ("get", "dpc"), ("enc",), ("len",)],
                     "seq:pax-property")
    for v in list(range(0, 2600 if T else 300)) + [2549, 2550, 2559, 2560, 2561, 5000, 65535, 10 ** 6]:
        seq_case(("pax", 0, 0, None, None, None, None, None), [("len",), ("set", "lto", v), ("state",), ("get", "lto"), ("enc",), ("len",)],
                 "seq:pax-property")
    for v in range(256):
        seq_case(("pax", 0, 0, 0x13, 120, 0x13, 100, 3), [("enc",), ("set", "_lto", v), ("get", "lto"), ("enc",), ("len",), ("state",)],
                 "seq:pax-property")
        seq_case(("pax", 0, 0, 0x13, 120, 0x13, 100, 3), [("set", "_version", v), ("get", "version"), ("enc",), ("len",)], "seq:pax-property")
    for a in (0, 1, 2, 15, 16, 17, 255):
        for b_ in (0, 1, 3, 15, 16, 255):
            seq_case(("pax", 0, 0, None, None, None, None, None), [("set", "version", (a, b_)), ("state",), ("get", "version"), ("enc",), ("len",)],
                     "seq:pax-property")
    for v in [0, 1, 127, 128, 129, 255, 256, 2174, 2175, 2176, 128 + 0x800, 128 + 65535, 128 + 65536]:
        seq_case(("pax", 0, 0, None, 5, None, None, None), [("enc",), ("set", "miu", v), ("state",), ("get", "miu"), ("enc",), ("len",)], "seq:pax-property")
    for v in [0, 1, 0x13, 0x8000, 0xFFFF, 0x10000, 0x1FFFF, 0x12345]:
        seq_case(("pax", 0, 0, None, None, 7, None, None), [("enc",), ("set", "wks", v), ("state",), ("get", "wks"), ("enc",), ("len",)], "seq:pax-property")
    for base in O.BASES["pax"]:
        seq_case(base, [("get", g) for g in ("version", "miu", "wks", "lto", "lsc", "dpc")] + [("enc",), ("state",)], "seq:pax-property", via_decode=True)
    # the PAX PDU as nfc.llcp.llc builds it
    for lto, lsc, dpc, miu in itertools.product((100, 500, 1000, 2550), (0, 1, 2, 3), (None, 1), (128, 248, 2175)):
        ops = [("set", "version", (1, 3)), ("set", "wks", 0x13), ("set", "miu", miu)]
        ops += [("set", "lto", lto)] if lto != 100 else []
        ops += [("set", "lsc", lsc), ("str",)] + ([("set", "dpc", dpc)] if dpc else []) + [("enc",), ("len",), ("state",), ("get", "lto"), ("get", "lsc")]
        seq_case(("pax", 0, 0, None, None, None, None, None), ops, "seq:pax-property")
    # (4) aggregates: append, assignment to an aggregated PDU (the aggregate holds references)
    for base in O.AGF_BASES:
        for pre in (None, ("enc",), ("len",), ("str",)):
            for q in (("disc", 1, 2), ("i", 32, 16, 3, 4, b"abc"), ("snl", 1, 1, [(1, b"a")], []), ("symm", 0, 0)):
                seq_case(base, ([pre] if pre else []) + [("app", q), ("enc",), ("len",), ("state",)], "seq:agf")
            for i, item in enumerate(base[3]):
                for attr in O.ATTRS[item[0]]:
                    for v in O.values(item[0], attr)[0][:3]:
                        seq_case(base, ([pre] if pre else []) + [("seti", i, attr, v), ("enc",), ("len",), ("state",), ("eq", base)], "seq:agf")
            for attr, v in (("dsap", 1), ("ssap", 63), ("dsap", 0)):
                seq_case(base, ([pre] if pre else []) + [("set", attr, v), ("enc",), ("len",), ("hdr",), ("state",)], "seq:agf")
    # (4b) FrameReject.from_pdu: the FRMR PDU tco answers with is built from the rejected PDU and the counters
    class Dlc(object):
        pass

    def frmr_case(desc, flags, cnt, bucket):
        dlc = Dlc()
        dlc.send_cnt, dlc.send_ack, dlc.recv_cnt, dlc.recv_ack = cnt
        rp = {"pdu": R.text(desc)[:600], "flags": flags, "send_cnt, send_ack, recv_cnt, recv_ack": list(cnt)}
        try:
            f = guarded(P.FrameReject.from_pdu, R.to_obj(P, desc), flags, dlc)
            fd = R.from_obj(P, f)
            real = "ok " + R.text(fd)
        except Exception as e:  # noqa
            fd, real = None, "exc " + exc_name(e)
        pending.append(("frmr %s %d %d %d %d %s" % ((flags or "-",) + tuple(cnt) + (R.text(desc),)), real, rp))
        ck.case(("frmr", R.text(desc), flags, cnt), True, bucket)
        if valid(desc) and len(set(flags)) == len(flags) and max(cnt) <= 15:
            # LLCP 1.3 4.3.9: W R I S flags, PTYPE and sequence field of the rejected PDU, V(S) V(R) V(SA) V(RA) of the
            # connection; the FRMR PDU travels in the opposite direction
            k_, d_, s_ = desc[0], desc[1 + (desc[0] == "unknown")], desc[2 + (desc[0] == "unknown")]
            seqf = (desc[3], desc[4]) if k_ == "i" else (0, desc[3]) if k_ in ("rr", "rnr") else (0, 0)
            expect = ("frmr", s_, d_, sum(1 << "SRIW".index(c) for c in flags), desc[1] if k_ == "unknown" else PTYPE[k_]) + seqf + \
                (cnt[0], cnt[2], cnt[1], cnt[3])
            if fd != expect:
                ck.fail("frmr-from-pdu-fields", "FrameReject.from_pdu(%s, %r, V(S)=%d V(SA)=%d V(R)=%d V(RA)=%d) = %s, expected %s"
                        % ((R.text(desc)[:160], flags) + tuple(cnt) + (real[:200], R.text(expect))), rp)
            if fd is None or not valid(fd):
                ck.fail("frmr-from-pdu-invalid", "FrameReject.from_pdu(%s, %r, counters %s) = %s" % (R.text(desc)[:160], flags, cnt, real[:200]), rp)
            else:
                try:
                    e = P.encode(f)
                    back, d = real_decode(e)
                    if d != fd or len(f) != len(e):
                        ck.fail("roundtrip-field-mismatch", "FrameReject.from_pdu(%s, %r, %s) = %s, decode(encode(.)) = %s, len %d / %d octets"
                                % (R.text(desc)[:120], flags, cnt, real[:160], back[:160], len(f), len(e)), rp)
                except Exception as e:  # noqa
                    ck.fail("valid-pdu-not-encodable", "encode(FrameReject.from_pdu(%s, %r, %s)) raised %s" % (R.text(desc)[:160], flags, cnt, exc_name(e)), rp)

    subsets = ["".join(c for c, k in zip("SRIW", bits) if k) for bits in itertools.product((0, 1), repeat=4)]
    for kind in O.KINDS:
        for base in O.BASES[kind]:
            for flags in subsets:
                frmr_case(base, flags, (1, 2, 3, 4), "frmr-from-pdu")
            for cnt in ((0, 0, 0, 0), (15, 15, 15, 15), (15, 0, 7, 8)):
                frmr_case(base, "W", cnt, "frmr-from-pdu")
    for ns in range(16):
        for nr in range(16):
            frmr_case(("i", 32, 16, ns, nr, b"x"), "SRIW"[(ns + nr) % 4], (nr, ns, 15 - nr, 15 - ns), "frmr-from-pdu")
        frmr_case(("rr", 1, 63, ns), "S", (ns, ns, ns, ns), "frmr-from-pdu")
        frmr_case(("rnr", 63, 1, ns), "I", (0, ns, 0, ns), "frmr-from-pdu")
    for _ in range(3000 if T else 400):
        flags = "".join(rng.choice("SRIW") for _ in range(rng.choice([0, 1, 1, 2, 3, 5])))
        frmr_case(gen_valid(rng, rng.choice(SIMPLE), small=True), flags, tuple(rng.choice([0, 1, 15, 16, rng.randrange(16)]) for _ in range(4)),
                  "frmr-from-pdu")
    flush()
    # (5) random histories on every class
    for _ in range(80000 if T else 4000):
        kind = rng.choice(O.KINDS + ["agf"])
        if kind == "agf":
            base = rng.choice(O.AGF_BASES) if rng.random() < 0.5 else gen_valid(rng, "agf")
        else:
            base = rng.choice(O.BASES[kind]) if rng.random() < 0.5 else gen_valid(rng, kind, small=True)
        ops, nitems = [], len(base[3]) if kind == "agf" else 0
        kinds_in = [q[0] for q in base[3]] if kind == "agf" else []
        for _ in range(rng.randrange(3, 15)):
            r = rng.random()
            if r < 0.45:
                if kind == "agf" and rng.random() < 0.8:
                    if nitems and rng.random() < 0.6:
                        i = rng.randrange(nitems)
                        attr = rng.choice(O.ATTRS[kinds_in[i]])
                        good, bad = O.values(kinds_in[i], attr)
                        ops.append(("seti", i, attr, rng.choice(good if rng.random() < 0.85 or not bad else bad)))
                    else:
                        q = gen_valid(rng, rng.choice(SIMPLE), small=True)
                        ops.append(("app", q))
                        nitems += 1
                        kinds_in.append(q[0])
                else:
                    attr = rng.choice(O.ATTRS[kind])
                    good, bad = O.values(kind, attr)
                    ops.append(("set", attr, rng.choice(good if rng.random() < 0.85 or not bad else bad)))
            else:
                other = base if rng.random() < 0.5 else gen_valid(rng, kind if rng.random() < 0.8 else None, small=True)
                ops.append(O.observer(rng, other, kind))
        ops += [("enc",), ("len",), ("state",)]
        seq_case(base, ops, "seq:random:" + kind, via_decode=kind != "agf" and rng.random() < 0.25 and valid(base))
    flush()

    phase("objects")
    ck.notes.append("phases (wall s / cpu s of the harness process, model driver excluded): " + ", ".join(phases))
    ck.tie("pdu model vs nfc.llcp.pdu", cases=stats["cases"], disagreements=stats["dis"], exhaustive=False)
    ck.tie("Spec.decode (Lean reading of the LLCP formats) vs nfc.llcp.pdu.decode", cases=stats["spec"],
           disagreements=stats["specdis"], exhaustive=False)
    ck.notes.append("tie requests: %d (decode, decode-at, encode, len, of which %d operation sequences on one PDU object); "
                    "every decode request below 3 octets (thorough: below 4) is part of an exhaustive enumeration"
                    % (stats["cases"], stats.get("seq", 0)))
