"""C17 - LLCP addressing: binding, discovery and delivery reach the right socket.

L1: theorems of NfcVerif.Props.C17 about the executable model of the address
    table of one link controller (Model/Sap.lean) and of two coupled
    controllers with the socket API (Model/SapLink.lean).
L2: random and bounded-exhaustive operation histories run on two REAL
    LogicalLinkController objects (sims/sap_pair.py: single-threaded, real
    collect/encode/decode/dispatch) and on the Lean model driver; compared per
    operation: returned address / errno / exception class, accepted
    connection (address, peer), received datagram (payload, source), resolve()
    result, every PDU that crossed the link, and full state dumps.
L3: a reference address table written from the property statement (RefTable)
    judges the same runs of the real code, independent of the Lean model; service
    discovery is judged on the wire: every SNL PDU that crosses the link is checked
    (requests only for waiting resolve() calls, every request answered with the
    address bound under ITS name at that moment or 0, answers in the order owed) and
    every resolve() must return what the peer answered for its name.
Operations QQ (several resolve() calls waiting at the same time -> several SDREQ in
one SNL PDU) and N (a raw access point sends an SNL PDU with arbitrary SDREQ/SDRES
lists) are in the model, the theorems' alphabet, the tie and the oracle.
"""
import logging

from common import Model, hx

logging.disable(logging.CRITICAL)

LEAN_TARGETS = ["NfcVerif.Props.C17", "drv_c17", "NfcVerif.Props.TablesSap", "NfcVerif.Props.TablesPdu"]

THEOREMS = ["NfcVerif.C17." + t for t in [
    "bind_refines_spec", "errno_exact", "bound_socket_refused", "errno_table_partial",
    "named_exhaustion_witness", "named_exhaustion_counterexample",
    "wks_fixed", "named_range_16_31", "anon_range_32_63",
    "reachable_invariant", "addr_unique", "link_keeps_table",
    "close_frees", "close_keeps_shared", "names_live",
    "resolve_exact", "connect_by_name_exact", "connect_by_name_absent", "datagram_delivery",
    "simulation_step", "simulation", "spec_keeps_invariant", "spec_reachable_invariant",
    "spec_addr_unique", "spec_names_live", "spec_bind_rule", "api_bind_rule",
    "spec_close_frees", "api_close_frees",
    "queued_datagram_source", "datagram_end_to_end", "recvfrom_returns", "connect_peer_is_cc_source",
    "resolve_answers_pointwise", "resolve_answer_independent", "answers_cached_pointwise", "answers_cached_exact",
    "snl_packing_exact", "snl_requests_one_pdu", "concurrent_requests_queued", "resolve_many_single",
    "resolve_many_end_to_end_partial", "datagram_peer_filter",
    "overlong_request_stuck", "resolve_overlong_witness", "resolve_overlong_counterexample",
]]

SN = b"urn:nfc:sn:"
NAMES_VALID = [SN + b"a", SN + b"b", b"urn:nfc:xsn:c.d", SN + b"snep", SN + b"a\n"]
NAMES_SPECIAL = [SN + b"sdp"]
NAMES_INVALID = [b"urn:nfc:snep", b"", SN + b"1x", SN, b"urn:nfc:sn:a b", b"URN:nfc:sn:a", SN + b"a\n\n", b"urn:nfc:xxsn:a"]
PROFILES = ["table", "named", "datagram", "connect", "resolve", "discover", "mixed"]


def pick_name(rng, wide=False):
    r = rng.random()
    if wide and r < 0.7:
        return SN + b"s%d" % rng.randrange(24)
    if r < 0.80:
        return rng.choice(NAMES_VALID)
    if r < 0.88:
        return rng.choice(NAMES_SPECIAL)
    return rng.choice(NAMES_INVALID)


def gen_op(rng, prof, pair):
    """next operation of a history, chosen with the current sockets in view"""
    x = rng.choice("AB") if prof not in ("table", "named") or rng.random() < 0.1 else "A"
    y = "B" if x == "A" else "A"
    socks = pair.socks[x]
    n = len(socks)
    w = {
        "table":    dict(S=7, B=9, X=2.5, L=0, C=0, A=0, T=0, P=0, R=0, Q=0, M=0, D=0.2, K=0, Y=0, N=0),
        "named":    dict(S=7, B=9, X=2.5, L=1, C=0, A=0, T=0, P=0, R=0, Q=1, M=0, D=0.2, K=0, Y=1, N=0),
        "datagram": dict(S=3, B=4, X=1, L=0, C=1, A=0, T=7, P=2, R=6, Q=0, M=5, D=0.2, K=0, Y=0, N=0),
        "connect":  dict(S=3, B=4, X=2, L=3, C=5, A=5, T=0.3, P=0.3, R=1, Q=1, M=2, D=0.2, K=5, Y=0.5, N=0),
        "resolve":  dict(S=3, B=5, X=3, L=1, C=2, A=1, T=0, P=0, R=0, Q=3, M=2, D=0.2, K=1, Y=4, N=2.5),
        "discover": dict(S=2, B=6, X=2.5, L=0, C=0, A=0, T=0, P=0, R=0, Q=2, M=3, D=0.2, K=0, Y=6, N=4),
        "mixed":    dict(S=4, B=5, X=2, L=2, C=3, A=3, T=3, P=1, R=3, Q=1.5, M=3, D=0.2, K=2, Y=1.5, N=1),
    }[prof]
    if n == 0:
        k = "S"
    else:
        ks = list(w)
        k = rng.choices(ks, [w[q] for q in ks])[0]
    wide = prof == "named" or (prof == "discover" and rng.random() < 0.5)

    def pick(pred, p=0.85):
        """index of a socket satisfying pred (with probability p when one exists), else any"""
        good = [i for i, s in enumerate(socks) if pred(s)]
        if good and rng.random() < p:
            return rng.choice(good[-4:]) if rng.random() < 0.5 else rng.choice(good)
        return rng.randrange(n)

    kd = pair.kind
    if k == "D":
        return "D"
    if k == "B" and not any(s.addr is None for s in socks) and rng.random() < 0.8:
        k = "S"
    if k == "S":
        kinds = {"table": ["raw", "ldl", "dlc"], "named": ["raw", "ldl", "dlc"], "datagram": ["ldl", "ldl", "raw", "dlc"],
                 "connect": ["dlc", "dlc", "dlc", "ldl", "raw"], "resolve": ["dlc", "ldl", "raw"],
                 "discover": ["dlc", "ldl", "raw", "raw"], "mixed": ["raw", "ldl", "dlc", "dlc"]}[prof]
        return "S %s %s" % (x, rng.choice(kinds))
    if k == "M":
        return "M %s" % x
    if k == "Q":
        return "Q %s %s" % (x, hx(pick_name(rng, wide)))
    if k in ("Y", "N"):
        # names for a multi-request service name lookup: what the peer has bound (so that bound names precede and
        # follow unbound ones in every order), well-known names, duplicates, unknown and malformed names
        bound = list(pair.ctl[y].snl) if k == "Y" else list(pair.ctl[y].snl)

        def nm():
            r = rng.random()
            if bound and r < 0.45:
                return rng.choice(bound)
            if r < 0.6:
                return rng.choice([SN + b"snep", SN + b"sdp"])
            return pick_name(rng, wide)
        r = rng.random()
        cnt = rng.randrange(2, 6) if r < 0.8 else rng.randrange(9, 15) if r < 0.93 else rng.randrange(0, 2)
        if k == "Y":
            names = [nm() for _ in range(cnt)]
            if names and rng.random() < 0.25:
                names.append(rng.choice(names))      # two threads ask for the same name
            return "QQ %s %s" % (x, ",".join(hx(n) for n in names) if names else ".")
        raws = [i for i, s in enumerate(socks) if kd(s) == "raw" and not s.state.SHUTDOWN]
        if not raws:
            return "S %s raw" % x
        if rng.random() < 0.08:
            cnt = rng.randrange(30, 45)                  # the answers do not fit one SNL PDU
        tidpool = rng.choice([[0, 1, 2, 3], [0, 1, 254, 255], list(range(256))])
        rq = ["%d:%s" % (rng.choice(tidpool), hx(nm())) for _ in range(cnt)]
        sent = list(pair.ctl[y].sap[1].sent)
        rs = []
        for _ in range(rng.choice([0, 0, 0, 1, 2, 3])):
            t_ = rng.choice(sent) if sent and rng.random() < 0.6 else rng.choice(tidpool)
            rs.append("%d:%d" % (t_, rng.choice([0, 1, 4, 16, 17, 31, 32, 63, 64, 65, 80, 127, 128, 255, rng.randrange(256)])))
        return "N %s %d %s %s" % (x, rng.choice(raws), ",".join(rq) if rq else ".", ",".join(rs) if rs else ".")
    if k == "B":
        i = pick(lambda s: s.addr is None, 0.9)
        r = rng.random()
        if prof == "table":
            r = r * 0.7
        if prof == "named":
            r = 0.55 + r * 0.45 if rng.random() < 0.85 else r
        if r < 0.35:
            return "B %s %d -" % (x, i)
        if r < 0.55:
            a = rng.choice([rng.randrange(32, 64), rng.randrange(32, 36), rng.randrange(0, 32), 4, 4, 1, 0, 16, 31, 32, 63, 64, -1, 100])
            return "B %s %d a %d" % (x, i, a)
        return "B %s %d n %s" % (x, i, hx(pick_name(rng, wide)))
    if k == "K":
        cl = [i for i, s in enumerate(socks) if kd(s) == "dlc" and s.state.CLOSED]
        ls = [i for i, s in enumerate(pair.socks[y]) if kd(s) == "dlc" and s.state.LISTEN]
        if not cl:
            return "S %s dlc" % x
        if not ls:
            return "S %s dlc" % y if not any(kd(s) == "dlc" and s.state.CLOSED for s in pair.socks[y]) else \
                "L %s %d %d" % (y, rng.choice([i for i, s in enumerate(pair.socks[y]) if kd(s) == "dlc" and s.state.CLOSED]), rng.choice([1, 2]))
        i, lid = rng.choice(cl), rng.choice(ls)
        la = pair.socks[y][lid].addr
        names = [n for n, a in pair.ctl[y].snl.items() if a == la]
        r = rng.random()
        if r < 0.12:
            lid = rng.choice(ls)                     # possibly another listener than the one addressed
        if r < 0.6 and names:
            return "K %s %d n %s %d" % (x, i, hx(names[0]), lid)
        if r < 0.75:
            return "K %s %d n %s %d" % (x, i, hx(pick_name(rng, wide)), lid)
        return "K %s %d a %d %d" % (x, i, la if la is not None else 33, lid)
    if k == "X":
        return "X %s %d" % (x, pick(lambda s: not s.state.SHUTDOWN, 0.8))
    if k == "L":
        return "L %s %d %d" % (x, pick(lambda s: kd(s) == "dlc" and s.state.CLOSED), rng.choice([0, 1, 1, 2, 20]))
    if k == "A":
        i = pick(lambda s: kd(s) == "dlc" and s.state.LISTEN and len(s.recv_queue) > 0, 0.7)
        if not (kd(socks[i]) == "dlc" and socks[i].state.LISTEN):
            i = pick(lambda s: kd(s) == "dlc" and s.state.LISTEN, 0.8)
        return "A %s %d" % (x, i)
    if k == "R":
        i = pick(lambda s: len(s.recv_queue) > 0, 0.6)
        if len(socks[i].recv_queue) == 0:
            i = pick(lambda s: s.addr is not None and not s.state.SHUTDOWN and kd(s) != "dlc", 0.8)
        return "R %s %d" % (x, i)
    peer_addrs = [s.addr for s in pair.socks[y] if s.addr is not None and not s.state.SHUTDOWN]
    if k == "C":
        i = pick(lambda s: (kd(s) == "dlc" and s.state.CLOSED) or (kd(s) == "ldl" and not s.state.SHUTDOWN), 0.85)
        if kd(socks[i]) != "ldl" and rng.random() < 0.55:
            return "C %s %d n %s" % (x, i, hx(pick_name(rng, wide)))
        a = rng.choice(peer_addrs) if peer_addrs and rng.random() < 0.7 else rng.choice([0, 1, 4, 16, 17, 32, 33, 63])
        return "C %s %d a %d" % (x, i, a)
    if k == "T":
        i = pick(lambda s: kd(s) == "ldl" and not s.state.SHUTDOWN, 0.9)
        d = rng.choice(peer_addrs) if peer_addrs and rng.random() < 0.8 else rng.choice([0, 1, 4, 16, 32, 33, 34, 63])
        ln = rng.choice([0, 1, 2, 3, 5, 128, 129]) if rng.random() < 0.2 else rng.randrange(1, 6)
        return "T %s %d %s %d" % (x, i, hx(bytes(rng.randrange(256) for _ in range(ln))), d)
    if k == "P":
        raws = [i for i, s in enumerate(socks) if kd(s) == "raw"]
        if not raws:
            return "S %s raw" % x
        i = rng.choice(raws)
        d = rng.choice(peer_addrs) if peer_addrs and rng.random() < 0.75 else rng.randrange(64)
        own = [s.addr for s in socks if s.addr is not None]
        s_ = rng.choice(own) if own and rng.random() < 0.6 else rng.randrange(64)
        ln = rng.choice([0, 1, 4, 248, 249]) if rng.random() < 0.2 else rng.randrange(1, 5)
        return "P %s %d %d %d %s" % (x, i, d, s_, hx(bytes(rng.randrange(256) for _ in range(ln))))
    raise AssertionError(k)


def gen_history(rng, prof, length):
    from sims.sap_pair import Pair
    pair = Pair()
    ops, outs = [], []
    for _ in range(length):
        op = gen_op(rng, prof, pair)
        r = pair.do(op)
        ops.append(op)
        outs.append(r)
        if r == "abort":
            break
    ops.append("D")
    outs.append(pair.do("D") if outs[-1] != "abort" else "skip")
    return ops, outs, pair


# ------------------------------------------------------------------ L3: reference address table
ERR = {"EADDRINUSE": 98, "EACCES": 13, "EFAULT": 14, "EAGAIN": 11, "EINVAL": 22}
FOUR = {98, 13, 14, 11}
WKS = {SN + b"sdp": 1, SN + b"snep": 4}
TAIL = set(b"abcdefghijklmnopqrstuvwxyzABCDEFGHIJKLMNOPQRSTUVWXYZ0123456789-_:.")


def ref_valid(name):
    """service name format of the LLCP specification: urn:nfc:[x]sn:<letter><letters, digits, - _ : .>*
    (one final newline is tolerated like Python's `$` does; compared with the model, not judged)"""
    if name.endswith(b"\n"):
        name = name[:-1]
    for p in (SN, b"urn:nfc:xsn:"):
        if name.startswith(p):
            body = name[len(p):]
            return len(body) >= 1 and body[:1].isalpha() and body[:1].isascii() and all(c in TAIL for c in body[1:])
    return False


class RefTable(object):
    """address table of one controller, written from the property statement"""

    def __init__(self):
        self.owner = {0: set(), 1: set()}      # address -> sockets (0 and 1 belong to the link / service discovery)
        self.names = {SN + b"sdp": 1}          # service name -> address
        self.addr = {}                         # socket -> address (kept after close: a socket binds at most once)
        self.kind = []

    def free(self, lo, hi):
        return [a for a in range(lo, hi + 1) if a not in self.owner]

    def expect_bind(self, sock, arg):
        """-> ("ok", set of acceptable addresses) | ("err", errno) | ("err4", None) any of the four codes"""
        if sock in self.addr:
            return ("err", ERR["EINVAL"])
        if arg is None:
            f = self.free(32, 63)
            return ("ok", set(f)) if f else ("err", ERR["EAGAIN"])
        if isinstance(arg, int):
            if arg < 0 or arg > 63:
                return ("err", ERR["EFAULT"])
            if arg >= 32 or self.kind[sock] == "raw":
                return ("ok", {arg}) if arg not in self.owner else ("err", ERR["EADDRINUSE"])
            return ("err", ERR["EACCES"])
        if not ref_valid(arg):
            return ("err", ERR["EFAULT"])
        if arg in self.names:
            return ("err", ERR["EADDRINUSE"])
        if arg in WKS:
            return ("ok", {WKS[arg]}) if WKS[arg] not in self.owner else ("err", ERR["EADDRINUSE"])
        f = self.free(16, 31)
        return ("ok", set(f)) if f else ("err4", None)

    def bound(self, sock, a, name=None):
        self.addr[sock] = a
        self.owner.setdefault(a, set()).add(sock)
        if name is not None:
            self.names[name] = a

    def closed(self, sock):
        a = self.addr.get(sock)
        if a is not None and sock in self.owner.get(a, ()):
            self.owner[a].discard(sock)
            if not self.owner[a]:
                del self.owner[a]
                for n in [n for n, b in self.names.items() if b == a]:
                    del self.names[n]


class Oracle(object):
    """judges one history of the real code against two RefTables; stops at the first failure"""

    def __init__(self, pair):
        self.pair = pair
        self.ref = {"A": RefTable(), "B": RefTable()}
        self.fail = None           # (key, what)
        self.open = []             # known-open findings seen (key, what)
        self.inflight = {"A": [], "B": []}   # datagrams sent by that side: (dest, src, data)
        self.resolved = {"A": {}, "B": {}}     # name -> address, as the answers seen on the wire tell it (cached for the link lifetime)
        self.sent = {"A": {}, "B": {}}         # transaction identifier -> name of the requests that side put on the wire
        self.owed = {"A": [], "B": []}         # answers that side owes for the requests it received, oldest first
        self.raw_snl = {"A": [], "B": []}      # SNL PDUs queued by raw access points of that side (arbitrary content)
        self.asked = {"A": [], "B": []}        # names of resolve() calls whose request has not been seen on the wire yet
        self.stats = dict(binds=0, closes=0, datagrams=0, by_name=0, resolves=0, frees=0, connected=0, probes=0,
                          sdreq=0, sdres=0, snl_multi=0, snl_bound_then_unbound=0, conc_resolves=0)
        self.pending = {}          # (side, listening socket) -> client sockets whose CONNECT waits there, oldest first
        self.conns = []            # connections made: (client side, client socket, server side, accepted socket, how)
        self.orphan = {"A": set(), "B": set()}   # addresses at that side a CC is on its way to although the socket that asked is gone
        pair.observer = self.observe

    def bad(self, key, what):
        if self.fail is None:
            self.fail = (key, what)

    # service name lookup PDUs crossing the link
    def observe_snl(self, x, y, q):
        """x sent the SNL PDU q, y has just dispatched it"""
        ref, sd = self.ref[y], self.pair.ctl[y].sap[1]
        rq, rs = [(t, bytes(n)) for t, n in q.sdreq], list(q.sdres)
        from_raw = (rq, rs) in self.raw_snl[x]
        if from_raw:
            self.raw_snl[x].remove((rq, rs))
        else:
            # requests of the service discovery component: one per waiting resolve(), identifiers not in use
            for t, n in rq:
                if n in self.asked[x]:
                    self.asked[x].remove(n)
                else:
                    self.bad("sdreq-not-asked", "%s sent SDREQ(%d, %r) but no resolve(%r) is waiting" % (x, t, n, n))
                self.sent[x][t] = n
            # answers: exactly the ones owed, oldest first
            k = len(rs)
            if rs != self.owed[x][:k]:
                self.bad("sdres-not-owed", "%s sent SDRES %r, the requests it received call for %r (in this order)"
                         % (x, rs, self.owed[x][:max(k, 1)]))
            del self.owed[x][:k]
        # every request is answered with the address bound under ITS name at y, or 0
        want = [(t, ref.names.get(n, 0)) for t, n in rq]
        before = self.pair.sdres_before
        got = list(sd.sdres)
        if got[:len(before)] != before or got[len(before):] != want:
            i = next((i for i, (a, b) in enumerate(zip(got[len(before):], want)) if a != b), min(len(got) - len(before), len(want)))
            self.bad("sdreq-answer-wrong", "SNL with requests %r received at %s: answers queued %r, the names are bound at %r "
                     "(request %d: %r)" % (rq, y, got[len(before):], want, i, rq[i] if i < len(rq) else None))
        self.owed[y] += want
        self.stats["sdreq"] += len(rq)
        self.stats["sdres"] += len(rs)
        if len(rq) >= 2:
            self.stats["snl_multi"] += 1
            hit = [ref.names.get(n, 0) != 0 for t, n in rq]
            if any(hit[i] and not all(hit[i + 1:]) for i in range(len(hit))):
                self.stats["snl_bound_then_unbound"] += 1
        # the requester stores the answered address under the name it asked with that identifier
        for t, a in rs:
            n = self.sent[y].get(t)
            if n is not None:
                self.resolved[y][n] = 1 if (a >> 6) & 1 else a & 63

    # PDUs crossing the link
    def observe(self, x, y, q, grown):
        ref = self.ref[y]
        if q.name == "SNL":
            self.observe_snl(x, y, q)
        elif q.name == "UI":
            allowed = ref.owner.get(q.dsap, set())
            for i in grown:
                if i not in allowed:
                    self.bad("datagram-wrong-socket", "UI %d<-%d delivered to socket %s%d which is not bound at %d"
                             % (q.dsap, q.ssap, y, i, q.dsap))
                s = self.pair.socks[y][i]
                if s.peer is not None and s.peer != q.ssap:
                    self.bad("datagram-from-foreign-peer", "socket %s%d is connected to peer %s but took a UI from %d"
                             % (y, i, s.peer, q.ssap))
                got = s.recv_queue[-1]
                if bytes(got.data) != bytes(q.data) or got.ssap != q.ssap:
                    self.bad("datagram-altered", "UI payload/source changed on delivery")
        elif q.name == "CC":
            if (q.dsap, q.ssap) in self.orphan[y] and not grown:
                self.orphan[y].discard((q.dsap, q.ssap))      # nobody was waiting at that address: the answer is gone
        elif q.name == "CONNECT":
            origin = [j for j, c in enumerate(self.pair.socks[x]) if c.addr == q.ssap and c.state.CONNECT]
            for i in grown:
                self.pending.setdefault((y, i), []).append(origin[-1] if origin else None)
            if q.dsap == 1:
                self.stats["by_name"] += 1
                a = ref.names.get(bytes(q.sn)) if q.sn is not None else None
                allowed = ref.owner.get(a, set()) if a not in (None, 1) else set()
                for i in grown:
                    if i not in allowed:
                        self.bad("connect-by-name-wrong-socket",
                                 "CONNECT sn=%r reached socket %s%d (bound at %s) but the name is %s"
                                 % (q.sn, y, i, self.pair.socks[y][i].addr, "bound at %s" % a if a is not None else "not bound"))
                if a not in (None, 1) and not grown:
                    ready = [i for i in allowed if self.pair.socks[y][i].state.LISTEN
                             and len(self.pair.socks[y][i].recv_queue) < self.pair.socks[y][i].recv_buf]
                    if ready:
                        self.bad("connect-by-name-missed", "CONNECT sn=%r did not reach the listening socket bound under that name" % (q.sn,))
            else:
                allowed = ref.owner.get(q.dsap, set()) if q.dsap > 1 else set()
                for i in grown:
                    if i not in allowed:
                        self.bad("connect-wrong-socket", "CONNECT to %d reached socket %s%d" % (q.dsap, y, i))
                if not grown:
                    ready = [i for i in allowed if self.pair.socks[y][i].state.LISTEN
                             and len(self.pair.socks[y][i].recv_queue) < self.pair.socks[y][i].recv_buf]
                    if ready:
                        self.bad("connect-missed", "CONNECT to %d did not reach the listening socket %s%d bound there"
                                 % (q.dsap, y, ready[0]))

    def before(self, op):
        """called before the operation runs: which names will resolve() have to ask the peer for"""
        t = op.split(" ")
        if t[0] in ("Q", "QQ"):
            hs = [t[2]] if t[0] == "Q" else ([] if t[2] == "." else t[2].split(","))
            self.cached = []        # a call that finds its name in the cache returns that value without waiting
            for h in hs:
                n = bytes.fromhex(h) if h != "-" else b""
                self.cached.append(self.resolved[t[1]].get(n))
                if n not in self.resolved[t[1]]:
                    self.asked[t[1]].append(n)

    def judge(self, op, out):
        """op: protocol string, out: canonical outcome of the real code (without wire log)"""
        if self.fail is not None:
            return
        t = op.split(" ")
        k = t[0]
        if k in ("D", "M"):
            return
        x = t[1]
        ref = self.ref[x]
        pair = self.pair
        if k == "S":
            ref.kind.append(t[2])
            return
        if k in ("Q", "QQ"):
            # the requests were checked when they crossed the link (observe_snl: asked for, answered from the
            # table of the peer); here: every call returns what the peer answered for ITS name
            names = [bytes.fromhex(t[2]) if t[2] != "-" else b""] if k == "Q" else \
                [] if t[2] == "." else [bytes.fromhex(h) if h != "-" else b"" for h in t[2].split(",")]
            self.stats["resolves"] += len(names)
            if k == "QQ":
                self.stats["conc_resolves"] += len(names)
            if out.startswith("exc "):
                self.bad("resolve-raises", "resolve of %r at %s raised %s (transaction identifiers free: %d)"
                         % (names, x, out[4:], len(pair.ctl[x].sap[1].tids)))
                return
            sd_ = pair.ctl[x].sap[1]
            if len(sd_.tids) < 256 and not sd_.sdreq:
                self.bad("sd-tid-not-returned", "after resolve of %r at %s returned, only %d of the 256 transaction identifiers are "
                         "free although no request is outstanding" % (names, x, len(sd_.tids)))
            if self.asked[x]:
                self.bad("resolve-request-not-sent", "resolve() returned but the request for %r never went out" % (self.asked[x],))
            want = [c if c is not None else self.resolved[x].get(n) for n, c in zip(names, self.cached)]
            exp = "ok %d" % want[0] if k == "Q" and want[0] is not None else \
                "ok [%s]" % ",".join(str(a) for a in want) if k == "QQ" else None
            if out != exp:
                y = "B" if x == "A" else "A"
                self.bad("resolve-wrong", "resolve of %r at %s gave %r, the answers of the peer say %r (its table now: %r)"
                         % (names, x, out, want, [self.ref[y].names.get(n, 0) for n in names]))
            return
        if k == "N" and out == "ok true":
            self.raw_snl[x].append(([(int(e.split(":")[0]), bytes.fromhex(e.split(":")[1]) if e.split(":")[1] != "-" else b"")
                                     for e in (t[3].split(",") if t[3] != "." else [])],
                                    [(int(e.split(":")[0]), int(e.split(":")[1])) for e in (t[4].split(",") if t[4] != "." else [])]))
        i = int(t[2])
        sock = pair.socks[x][i]
        was_bound = i in ref.addr
        if k == "B":
            self.stats["binds"] += 1
            arg = None if t[3] == "-" else int(t[4]) if t[3] == "a" else (bytes.fromhex(t[4]) if t[4] != "-" else b"")
            exp = ref.expect_bind(i, arg)
            if out.startswith("ok "):
                a = int(out[3:]) if out[3:] != "None" else None
                if was_bound:
                    self.bad("socket-rebound", "bind on the bound socket %s%d succeeded (%s)" % (x, i, out))
                elif a is None:
                    self.bad("bind-no-address", "bind succeeded without an address")
                elif a in ref.owner:
                    key = "wks-bind-over-occupied" if isinstance(arg, bytes) and arg in WKS else "addr-handed-out-twice"
                    self.bad(key, "bind(%r) returned address %d which is in use by %s" % (arg, a, sorted(ref.owner[a])))
                elif exp[0] != "ok" or a not in exp[1]:
                    self.bad("bind-wrong-result", "bind(%r) on %s socket returned %d, reference expects %r" % (arg, ref.kind[i], a, exp))
                else:
                    ref.bound(i, a, arg if isinstance(arg, bytes) else None)
            else:
                if sock.addr is not None and not was_bound:
                    self.bad("failed-bind-left-address", "bind raised %s but the socket has address %s" % (out, sock.addr))
                m = out.replace("exc llcp.Error(", "").rstrip(")")
                code = int(m) if m.isdigit() else None
                if exp[0] == "ok":
                    key = "name-not-freed" if isinstance(arg, bytes) and code == 98 else "bind-refused"
                    self.bad(key, "bind(%r) raised %s although %s is free" % (arg, out, sorted(exp[1])[:3]))
                elif exp[0] == "err4":
                    if code not in FOUR:
                        self.open.append(("named-exhaustion-errno", "bind(%r) with 16..31 exhausted raised %s, "
                                          "not EADDRINUSE/EACCES/EFAULT/EAGAIN" % (arg, out)))
                elif code != exp[1]:
                    self.bad("bind-wrong-errno", "bind(%r) raised %s, reference expects errno %d" % (arg, out, exp[1]))
            return
        if k == "X":
            self.stats["closes"] += 1
            if out.startswith("exc ") and out[4:] in ("AttributeError", "IndexError", "KeyError", "TypeError", "ValueError",
                                                      "AssertionError", "RuntimeError"):
                self.bad("close-internal-error", "close() of socket %s%d (address %s) raised %s"
                         % (x, i, sock.addr, out[4:]))
            if out == "ok":
                before = set(ref.owner)
                ref.closed(i)
                self.stats["frees"] += len(before - set(ref.owner))
            self.check_table(x)
            return
        acc = None
        if k == "K":
            out, acc = out.split(" & ")
        # operations with an implicit bind
        if not was_bound and sock.addr is not None and k in ("L", "C", "T", "P", "K", "N"):
            a = sock.addr
            if a in ref.owner or not (32 <= a <= 63):
                self.bad("addr-handed-out-twice", "implicit bind of %s%d returned %d (in use or outside 32..63)" % (x, i, a))
            else:
                ref.bound(i, a)
        if k == "A" and out.startswith("ok sock "):
            _, _, nid, a, peer = out.split(" ")
            y = "B" if x == "A" else "A"
            j = self.pending[(x, i)].pop(0) if self.pending.get((x, i)) else None
            if (j is None or not pair.socks[y][j].state.CONNECT) and peer.isdigit():
                self.orphan[y].add((int(peer), int(a)))       # the socket that sent this CONNECT no longer waits for the answer
            la = ref.addr.get(i)
            if la is None or int(a) != la:
                self.bad("accept-wrong-address", "accepted socket has address %s, listener is bound at %s" % (a, la))
            else:
                ref.kind.append("dlc")
                ref.bound(int(nid), la)
        if k == "K":
            y = "B" if x == "A" else "A"
            ry, lid, nid = self.ref[y], int(t[5]), None
            served = None
            if acc.startswith("ok sock "):
                if self.pending.get((y, lid)):
                    served = self.pending[(y, lid)].pop(0)
                _, _, nid, a, peer = acc.split(" ")
                nid, la = int(nid), ry.addr.get(lid)
                if la is None or int(a) != la:
                    self.bad("accept-wrong-address", "accepted socket has address %s, listener is bound at %s" % (a, la))
                    return
                ry.kind.append("dlc")
                ry.bound(nid, la)
                if peer != str(ref.addr.get(i)):
                    nid = None      # the listener had an older request pending: this accept served another client
                if served != i and (served is None or not pair.socks[x][served].state.CONNECT) and peer.isdigit():
                    self.orphan[x].add((int(peer), int(a)))
            if out == "ok":
                self.stats["connected"] += 1
                how = "name %r" % bytes.fromhex(t[4]) if t[3] == "n" else "address %s" % t[4]
                want = ry.names.get(bytes.fromhex(t[4]) if t[4] != "-" else b"") if t[3] == "n" else int(t[4])
                got, got2 = sock.peer, pair.ctl[x].getpeername(sock)
                stale = any(e[0] == sock.addr for e in self.orphan[x])
                self.orphan[x] = set(e for e in self.orphan[x] if e[0] != sock.addr)
                if nid is None or served != i or stale:
                    # the CC that completed this connect answers an older request sent from the same address
                    if want is None or got != want:
                        self.open.append(("stale-connect-answer", "connect by %s at %s%d (address %s) was completed by the answer to an "
                                          "earlier request from that address; peer is %s, the service is at %s" % (how, x, i, sock.addr, got, want)))
                elif want is None or got != want or got2 != want:
                    self.bad("connect-peer-wrong", "connect by %s succeeded, the peer of the socket is %s (getpeername %s) but "
                             "the service is bound at %s on the other controller" % (how, got, got2, want))
                elif nid is not None:
                    self.conns.append((x, i, y, nid, how))
        if k == "C" and out == "ok":
            self.orphan[x] = set(e for e in self.orphan[x] if e[0] != sock.addr)
        if k in ("T", "P") and out == "ok true":
            if k == "T":
                self.inflight[x].append((int(t[4]), ref.addr.get(i), bytes.fromhex(t[3]) if t[3] != "-" else b""))
            else:
                self.inflight[x].append((int(t[3]), int(t[4]), bytes.fromhex(t[5]) if t[5] != "-" else b""))
        if k == "R" and (out.startswith("ok data ") or out.startswith("ok pdu UI.")):
            y = "B" if x == "A" else "A"
            if out.startswith("ok data "):
                _, _, d, src = out.split(" ")
                if d == "None":
                    return
                data, src, dst = (bytes.fromhex(d) if d != "-" else b""), int(src), ref.addr.get(i)
            else:
                _, dst, src, d = out[7:].split(".")
                data, src, dst = (bytes.fromhex(d) if d != "-" else b""), int(src), int(dst)
                if dst != ref.addr.get(i):
                    self.bad("datagram-wrong-socket", "raw socket bound at %s received a UI for %d" % (ref.addr.get(i), dst))
            self.stats["datagrams"] += 1
            ent = (dst, src, data)
            if ent in self.inflight[y]:
                self.inflight[y].remove(ent)
            elif any(e[0] == dst and e[2] == data for e in self.inflight[y]):
                real = sorted(set(e[1] for e in self.inflight[y] if e[0] == dst and e[2] == data))
                self.bad("datagram-source-altered", "socket %s%d (bound at %s, peer %s) received %r and reports source %d; the peer sent this "
                         "datagram to %s only from %s" % (x, i, dst, sock.peer, data, src, dst, real))
            else:
                self.bad("datagram-not-sent", "socket %s%d (bound at %s) received %r from %d which the peer never sent there "
                         "(or received it twice)" % (x, i, dst, data, src))
        self.check_table(x)

    def probe(self):
        """after the history: one I PDU over every connection made must arrive at the accepted socket"""
        import nfc.llcp
        from sims.sap_pair import Unmodelled
        pair = self.pair
        for n, (x, i, y, nid, how) in enumerate(self.conns):
            if self.fail is not None:
                return
            cl, sv = pair.socks[x][i], pair.socks[y][nid]
            if not (cl.state.ESTABLISHED and sv.state.ESTABLISHED and cl.send_window_slots > 0 and not sv.recv_queue):
                continue
            data = b"probe-%d" % n
            try:
                pair.ctl[x].send(cl, data, nfc.llcp.MSG_DONTWAIT)
                quiet = pair.pump()
            except Unmodelled:
                return
            except Exception as e:  # noqa
                self.bad("connection-send-raises", "send on the connection made by connect to %s raised %r" % (how, e))
                return
            self.stats["probes"] += 1
            got = [bytes(q.data) for q in sv.recv_queue if q.name == "I"]
            if quiet and got != [data]:
                self.bad("connection-data-misrouted", "data sent on the connection made by connect to %s (client %s%d, peer %s) did not "
                         "arrive at the accepted socket %s%d bound at %s (its queue: %r)" % (how, x, i, cl.peer, y, nid, sv.addr, got))

    def check_table(self, x):
        """the real table against the reference: same addresses in use, each socket in at most one SAP"""
        if self.fail is not None:
            return
        c, ref = self.pair.ctl[x], self.ref[x]
        ids = {id(s): i for i, s in enumerate(self.pair.socks[x])}
        seen = {}
        for a in range(64):
            e = c.sap[a]
            real = None if e is None else set(ids.get(id(s)) for s in getattr(e, "sock_list", ()))
            want = ref.owner.get(a)
            if (real is None) != (want is None):
                self.bad("table-differs", "address %d at %s: real %s, reference %s" % (a, x, real, want))
            elif real is not None and real != want:
                self.bad("table-differs", "address %d at %s: real sockets %s, reference %s" % (a, x, sorted(real), sorted(want)))
            for i in (real or ()):
                if i in seen:
                    self.bad("socket-in-two-saps", "socket %s%d is in SAP %d and %d" % (x, i, seen[i], a))
                seen[i] = a
        real_names = dict(c.snl)
        if real_names != ref.names:
            extra = sorted(set(real_names) - set(ref.names))
            key = "name-survives-socket" if extra else "names-differ"
            self.bad(key, "service names at %s: real %s, reference %s" % (x, real_names, ref.names))


def judged_history(ops_or_gen, rng=None, prof=None, length=0):
    """run a history on the real code with the oracle attached.
    ops_or_gen: list of operations, or None to generate `length` operations of profile `prof`.
    Never raises: an exception inside the oracle / generator code (e.g. an outcome of nfcpy it cannot parse) becomes
    the failure `harness-unexpected-exception` of this history."""
    from sims.sap_pair import Pair
    pair = Pair()
    orc = Oracle(pair)
    ops, outs = [], []
    n = len(ops_or_gen) if ops_or_gen is not None else length
    try:
        for j in range(n):
            op = ops_or_gen[j] if ops_or_gen is not None else gen_op(rng, prof, pair)
            orc.before(op)
            ops.append(op)
            r = pair.do(op)
            outs.append(r)
            if pair.observer_exc is not None:
                raise pair.observer_exc
            if r == "abort":
                break
            orc.judge(op, r.split(" | ")[0])
    except Exception as e:  # noqa
        import traceback
        where = traceback.extract_tb(e.__traceback__)[-1]
        orc.bad("harness-unexpected-exception", "%s: %s at %s:%d while handling operation %r (outcome %r)"
                % (type(e).__name__, e, where.filename.rsplit("/", 1)[-1], where.lineno, ops[-1] if ops else None,
                   outs[-1] if len(outs) == len(ops) and outs else None))
        if len(outs) < len(ops):
            outs.append("exc-in-harness")
    try:
        if not ops or ops[-1] != "D":
            ops.append("D")
            outs.append(pair.do("D") if (len(outs) < len(ops) and (not outs or outs[-1] != "abort")) else "skip")
        if outs[-1] != "skip" and "abort" not in outs and orc.fail is None:
            orc.probe()
    except Exception as e:  # noqa
        orc.bad("harness-unexpected-exception", "%s: %s in the final dump / probe" % (type(e).__name__, e))
        if len(outs) < len(ops):
            outs.append("exc-in-harness")
    return ops, outs, orc


# ------------------------------------------------------------------ bounded-exhaustive alphabet
EX_PREFIX = ["S A dlc", "S A raw", "S A ldl", "S A dlc", "S B dlc", "S B ldl", "S B dlc"]
NA, NB, NSNEP = hx(SN + b"a"), hx(SN + b"b"), hx(SN + b"snep")
EX_ALPHA = [
    "QQ B %s,%s" % (NA, NB), "QQ B %s,%s,%s" % (NB, NSNEP, NA),
    "B A 0 n " + NA, "B A 3 n " + NA, "B A 3 n " + NB, "B A 0 n " + NSNEP, "B A 1 a 4", "B A 1 a 16", "B A 2 -",
    "B A 2 a 32", "X A 0", "X A 1", "X A 3", "L A 0 1", "L A 3 1", "A A 0", "A A 3",
    "C B 0 n " + NA, "C B 2 n " + NA, "K B 0 n " + NA + " 0", "K B 2 n " + NA + " 3", "K B 0 a 16 0", "C B 0 n " + NSNEP, "C B 0 a 16", "Q B " + NA, "T B 1 aa 4", "T B 1 bb 32", "R A 1", "R A 2",
]


def shrink(ops, failing):
    """delta-debugging on the operation list; `failing(ops) -> bool`"""
    cur = list(ops)
    step = max(1, len(cur) // 2)
    while step >= 1:
        i = 0
        while i < len(cur):
            cand = cur[:i] + cur[i + step:]
            if cand and failing(cand):
                cur = cand
            else:
                i += step
        step //= 2
    return cur


def renumber_ok(ops):
    """a candidate history is usable only if every socket index exists when used"""
    n = {"A": 0, "B": 0}
    for op in ops:
        t = op.split(" ")
        if t[0] == "S":
            n[t[1]] += 1
        elif t[0] in ("B", "L", "C", "A", "T", "P", "R", "X", "K", "N"):
            if int(t[2]) >= n[t[1]] + 8:      # accepted sockets may add a few
                return False
    return True


def run(ck):
    ck.tables("TablesSap", "TablesPdu")   # T-tie for constants: source tables re-extracted, bridge theorems re-proved
    import itertools
    rng = ck.rng
    ck.rule = ("case = one operation history on two coupled real link controllers (socket/bind/listen/connect/accept/"
               "sendto/raw-send/recvfrom/resolve/concurrent resolves/raw SNL PDU/close/xfer + state dumps); non-trivial = at "
               "least one successful bind and one of: close that frees an address, datagram received, CONNECT dispatched, "
               "resolve answered, errno raised by bind; distinct by hash of the operation list")
    ck.assumptions += [
        "single-threaded execution: a blocking wait of the real API is replaced by running the link until nothing moves "
        "(threads and lock discipline are properties C09/C15)",
        "PDU encode/decode round trip (C11) and aggregation/MIU (C10) are outside: send-agf off, all PDUs fit the MIU",
        "resolve() answers are cached for the lifetime of the link (documented in socket.resolve); the oracle requires "
        "every request on the wire to be answered from the peer's table at that moment and every call to return what the wire "
        "said for its name (a forged SDRES from a raw access point of the peer overwrites the cache: by design of raw sockets)",
        "several resolve() calls 'at the same time' = the schedule in which every call reaches its wait() before the run loop "
        "sends the next PDU, executed on one thread (the wait of call i starts call i+1, the last wait runs the link); other "
        "schedules are sequences of single resolve operations",
        "a connect can only complete when the peer application accepts while the call waits: operation K = connect with the peer "
        "calling accept() inside the wait (model: apiConnectServed, in the driver and the tie, not in the history alphabet of the theorems); "
        "after each history one I PDU is sent over every connection made and must arrive at the accepted socket (real code only)",
        "histories that reach F39 (non-connection PDU routed to an established data link connection: the real dispatch "
        "never returns) or I-PDU traffic are cut at that operation (reported as 'abort' by model and harness alike)",
        "the model is of the code with fixes/C17/*.patch (F8, F9) and the double-close repair (repo commit ed1b4fb) applied; F22 is modelled as found",
    ]
    ck.trusted += ["hand-written Lean models NfcVerif.Model.Sap / NfcVerif.Model.SapLink, tied by differential runs",
                   "harness/sims/sap_pair.py (wait() -> pump, first-free transaction id), harness/props/c17.py (RefTable oracle)"]
    ck.lean("NfcVerif.Props.C17", THEOREMS)
    if ck.thorough:
        ck.leanchecker(["NfcVerif.Props.C17"])
    model = Model("drv_c17")

    runs = []    # (bucket, ops, outs, oracle)

    # regression corpus: witnesses of F8, F9, F22 and the allocation boundaries
    corpus = [
        # F8: name survives its socket; re-bind; address reuse; connect-by-name / resolve
        ["S A dlc", "B A 0 n " + NA, "X A 0", "S A dlc", "B A 1 n " + NA, "D"],
        ["S A dlc", "B A 0 n " + NA, "X A 0", "S A dlc", "B A 1 n " + NB, "L A 1 1", "S B dlc", "Q B " + NA, "Q B " + NB,
         "C B 0 n " + NA, "A A 1", "D"],
        # F9: well-known name over a raw socket
        ["S A raw", "B A 0 a 4", "S A dlc", "B A 1 n " + NSNEP, "S B ldl", "T B 0 aa 4", "M B", "R A 0", "X A 1", "X A 0", "D"],
        # F22: 17th name
        sum([["S A dlc", "B A %d n %s" % (i, hx(SN + b"s%d" % i))] for i in range(17)], []) + ["D"],
        # second connection request while an accepted connection shares the SAP of the listener
        ["S A dlc", "B A 0 n " + NA, "L A 0 2", "S B dlc", "C B 0 n " + NA, "A A 0", "S B dlc", "C B 1 n " + NA, "A A 0",
         "S B dlc", "C B 2 a 16", "A A 0", "X A 0", "S B dlc", "C B 3 n " + NA, "D"],
        # connect-by-name completes: peer of the client = address of the named service; data reaches the accepted socket
        ["S A dlc", "B A 0 n " + NB, "L A 0 1", "S A dlc", "B A 1 n " + NA, "L A 1 1", "S B dlc", "K B 0 n " + NA + " 1", "S B dlc",
         "K B 1 a 16 0", "D"],
        # closing twice, closing a stale socket whose address was reused
        ["S A ldl", "B A 0 -", "X A 0", "X A 0", "S A dlc", "B A 1 a 32", "X A 0", "X A 1", "X A 1", "X A 0", "D"],
        # dynamic exhaustion and reuse
        sum([["S A ldl", "B A %d -" % i] for i in range(33)], []) + ["X A 5", "S A raw", "B A 33 -", "D"],
        # datagram to the right socket among neighbours, connected ldl filter, raw spoofed source
        ["S A ldl", "S A ldl", "B A 0 a 40", "B A 1 a 41", "S B ldl", "T B 0 0102 41", "T B 0 03 40", "M B", "M B", "R A 1",
         "R A 0", "R A 0", "D"],
    ]
    NC, NSDP = hx(SN + b"c"), hx(SN + b"sdp")
    corpus += [
        # several resolve() calls waiting at the same time: bound name before unbound ones, well-known names, duplicates
        ["S B dlc", "B B 0 n " + NA, "L B 0 1", "QQ A %s,%s" % (NA, NB), "QQ A %s,%s,%s" % (NC, NSDP, NSNEP), "D"],
        ["S B dlc", "B B 0 n " + NA, "S B dlc", "B B 1 n " + NSNEP, "QQ A %s,%s,%s,%s,%s,%s" % (NB, NA, NC, NSNEP, NC, NA),
         "X B 0", "QQ A %s,%s" % (NA, NB), "QQ B %s,%s" % (NSDP, NA), "D"],
        # raw access point injects a lookup PDU: repeated identifiers, identifier 255, a bound name between unbound ones
        ["S B ldl", "B B 0 n " + NB, "S A raw", "N A 0 7:%s,7:%s,255:%s,0:-,1:%s ." % (NB, NA, NB, NSDP), "M A", "M B", "D"],
        # answers spread over two SNL PDUs (more than 32 answers), requests spread over several PDUs (MIU)
        ["S B dlc", "B B 0 n " + NA, "S A raw",
         "N A 0 %s ." % ",".join("%d:%s" % (i, [NA, NB, NSNEP][i % 3]) for i in range(40)), "M A", "M B", "M B", "M B", "D"],
        ["S B dlc", "B B 0 n " + hx(SN + b"s7")] + ["QQ A " + ",".join(hx(SN + b"s%d" % i) for i in range(14)),
                                                    "QQ A " + ",".join(hx(SN + b"s%d" % i) for i in range(5, 20)), "D"],
        # an unsolicited / repeated answer for a transaction identifier used before (raw access point at the peer)
        ["S B dlc", "B B 0 n " + NA, "Q A " + NA, "S B raw", "N B 1 . 0:33,0:80,9:5", "M B", "Q A " + NA, "Q A " + NB, "D"],
        # transaction identifiers wrap around after 256 lookups
        ["S B dlc", "B B 0 n " + hx(SN + b"w100"), "S B ldl", "B B 1 n " + hx(SN + b"w258")]
        + ["Q A " + hx(SN + b"w%d" % i) for i in range(255)]
        + ["QQ A " + ",".join(hx(SN + b"w%d" % i) for i in range(255, 262)), "D"],
        ["S B ldl", "B B 0 n " + hx(SN + b"w257")] + ["Q A " + hx(SN + b"w%d" % i) for i in range(259)] + ["D"],
        # datagram queued before the logical data link socket is connected to another peer: the source stays
        ["S A ldl", "B A 0 a 40", "S B ldl", "B B 0 a 41", "S B ldl", "B B 1 a 42", "T B 0 aa 40", "M B", "C A 0 a 42", "R A 0",
         "T B 1 bb 40", "T B 0 cc 40", "M B", "M B", "R A 0", "C A 0 a 41", "D"],
    ]
    for ops in corpus:
        runs.append(("corpus",) + judged_history(ops))

    # service name lookup with several requests in one PDU: every list of <= 3 (thorough: 4) names over
    # {bound, bound well-known, sdp, unbound x2, unbound well-known, malformed}, (a) as concurrent resolve()
    # calls, (b) injected by a raw access point with ascending / repeated transaction identifiers
    snl_names = [SN + b"a", SN + b"snep", SN + b"sdp", SN + b"b", SN + b"c", b"urn:nfc:xsn:c.d", b"x"]
    snl_setup = ["S B dlc", "B B 0 n " + hx(snl_names[0]), "S B ldl", "B B 1 n " + hx(snl_names[1]), "S A raw", "B A 0 -"]
    for d in range(1, (4 if ck.thorough else 3) + 1):
        for seq in itertools.product(snl_names[:6] if d == 4 else snl_names, repeat=d):
            hs = [hx(n) for n in seq]
            runs.append(("snl-lists<=%d" % (4 if ck.thorough else 3),) + judged_history(snl_setup + ["QQ A " + ",".join(hs), "D"]))
            tids = list(range(d)) if (len(runs) % 3) else [5] * d
            runs.append(("snl-lists<=%d" % (4 if ck.thorough else 3),) + judged_history(
                snl_setup + ["N A 0 %s ." % ",".join("%d:%s" % (t_, h) for t_, h in zip(tids, hs)), "M A", "M B", "D"]))

    # bounded-exhaustive short histories over a tiny alphabet
    depth = 3 if ck.thorough else 2
    sample4 = 20000 if ck.thorough else 4000
    for d in range(1, depth + 1):
        for seq in itertools.product(EX_ALPHA, repeat=d):
            runs.append(("exhaustive<=%d" % depth,) + judged_history(EX_PREFIX + list(seq)))
    for _ in range(sample4):
        seq = [rng.choice(EX_ALPHA) for _ in range(rng.randrange(depth + 1, 9))]
        runs.append(("alphabet-random",) + judged_history(EX_PREFIX + seq))

    # random histories
    nrand = 12000 if ck.thorough else 1300
    for j in range(nrand):
        prof = PROFILES[j % len(PROFILES)]
        length = rng.choice([rng.randrange(5, 60), rng.randrange(60, 200), rng.randrange(100, 260) if prof in ("table", "named") else 40])
        runs.append(("random:" + prof,) + judged_history(None, rng, prof, length))

    replies = model.ask_many([";".join(r[1]) for r in runs])
    dis = 0
    nops = 0
    tot = dict(binds=0, closes=0, datagrams=0, by_name=0, resolves=0, frees=0, connected=0, probes=0,
               sdreq=0, sdres=0, snl_multi=0, snl_bound_then_unbound=0, conc_resolves=0)
    for (bucket, ops, outs, orc), rep in zip(runs, replies):
        mo = rep.split(";")
        nops += len(ops)
        for kk in tot:
            tot[kk] += orc.stats[kk]
        st = orc.stats
        nontrivial = st["binds"] > 0 and (st["frees"] or st["datagrams"] or st["by_name"] or st["resolves"]
                                          or any(o.startswith("exc llcp") and p[0] == "B" for o, p in zip(outs, ops)))
        ck.case(tuple(ops), bool(nontrivial), bucket,
                sample={"history": ";".join(ops[:40]), "impl": outs[:40]} if len(ck.samples) < 3 and nontrivial and len(ops) < 40 else None)
        for key, what in orc.open:
            ck.fail(key, what, {"history": ";".join(ops)})
        if orc.fail is not None:
            key, what = orc.fail
            small = ops
            if key not in ck.known and len(ops) > 8 and sum(1 for f in ck.fails if f[0] == key) == 0:
                def failing(cand, key=key):
                    if not renumber_ok(cand):
                        return False
                    try:
                        o = judged_history([c for c in cand if c != "D"])[2]
                    except Exception:  # noqa
                        return False
                    return o.fail is not None and o.fail[0] == key
                small = shrink([o for o in ops if o != "D"], failing)
                o2 = judged_history(small)[2]
                what = o2.fail[1] if o2.fail else what
            ck.fail(key, what, {"history": ";".join(small), "seed": ck.seed})
        if mo != outs:
            dis += 1
            j = next((j for j, (a, b) in enumerate(zip(outs, mo)) if a != b), min(len(outs), len(mo)))
            ck.fail("tie:c17-model-vs-llc", "operation %d (%s): model %r, implementation %r"
                    % (j, ops[j] if j < len(ops) else "?", mo[j] if j < len(mo) else None, outs[j] if j < len(outs) else None),
                    {"history": ";".join(ops[:j + 1]), "model": mo[j] if j < len(mo) else None,
                     "impl": outs[j] if j < len(outs) else None})
    ck.tie("address table + link model vs two real LogicalLinkControllers", cases=len(runs), disagreements=dis, exhaustive=False)
    ck.count("operations", nops)
    for kk, v in tot.items():
        ck.count("oracle:" + kk, v)
    ck.notes.append("bounded-exhaustive: all %d-operation histories (depth <= %d) over %d operations after a fixed prefix"
                    % (depth, depth, len(EX_ALPHA)))
    ck.notes.append("service name lookup: every request list of length <= %d over %d names (bound / well-known bound / sdp / "
                    "unbound / malformed), once as concurrent resolve() calls and once as an SNL PDU injected by a raw access "
                    "point; %d SNL PDUs with >= 2 requests crossed the link, %d of them with a bound name before an unbound one"
                    % (4 if ck.thorough else 3, len(snl_names), tot["snl_multi"], tot["snl_bound_then_unbound"]))

    # a service name whose SDREQ does not fit the link MIU (open finding resolve-overlong-name-hangs): lengths around the
    # boundary 3 + len(name) <= 128, on the real code; the model agrees (both cut the history: the wait never ends)
    from sims.sap_pair import Pair
    for ln in ([124, 125, 126, 127, 200, 255] if ck.thorough else [125, 126, 200]):
        name = SN + b"x" * (ln - len(SN))
        ops = ["S B dlc", "B B 0 n " + hx(name), "Q A " + hx(name)]
        try:
            pair = Pair()
            outs = pair.run(ops)
            sd = pair.ctl["A"].sap[1]
            stuck = [(t_, n) for t_, n in sd.sdreq if n == name]
            empty = [w for w in pair.wire if w == "A>SNL.[].[]"]
            mo = model.ask_many([";".join(ops)])[0].split(";")
            ck.case(("overlong", ln), True, "overlong-name")
            if mo != outs:
                ck.fail("tie:c17-model-vs-llc", "resolve of a %d byte name: model %r, implementation %r" % (ln, mo, outs),
                        {"history": ";".join(ops)})
            if outs[1] == "ok 16" and outs[2].split(" | ")[0] != "ok 16":
                what = ("resolve(%d byte service name) at A does not return although B has the name bound at 16: the request "
                        "(3 + %d bytes) exceeds the link MIU of 128, ServiceDiscovery.dequeue() rotates it for ever (still queued: %r) "
                        "and every collect() sends an empty SNL PDU (%d seen); outcome of the single-threaded run: %r"
                        % (ln, ln, [(t_, len(n)) for t_, n in stuck], len(empty), outs[2][:40]))
                ck.fail("resolve-overlong-name-hangs" if stuck and outs[2] == "abort" else "resolve-wrong", what,
                        {"history": ";".join(ops), "name_length": ln})
        except Exception as e:  # noqa
            ck.fail("harness-unexpected-exception", "%s: %s in the overlong-name scenario (%d bytes)" % (type(e).__name__, e, ln),
                    {"history": ";".join(ops)})

    # service name format: model predicate vs the real regular expression vs the reference
    import nfc.llcp.llc as llc
    names = list(NAMES_VALID + NAMES_SPECIAL + NAMES_INVALID)
    alpha = b"urn:fcsx.aZ09-_ \n"
    for _ in range(4000 if ck.thorough else 800):
        base = bytearray(rng.choice([SN, b"urn:nfc:xsn:", b"urn:nfc:sn:", b"urn:nfc:"]) + bytes(rng.choice(alpha) for _ in range(rng.randrange(0, 5))))
        if rng.random() < 0.3 and base:
            base[rng.randrange(len(base))] = rng.randrange(256)
        names.append(bytes(base))
    rep = model.ask_many(["name " + hx(n) for n in names])
    nd = 0
    for n, r in zip(names, rep):
        real = "ok %s %s" % ("true" if llc.service_name_format.match(n) else "false", llc.wks_map.get(n))
        ck.case(("name", n), True, "name-format")
        if r != real:
            nd += 1
            ck.fail("tie:c17-name-format", "name %r: model %r, implementation %r" % (n, r, real), {"name": n.hex()})
    ck.tie("service name format / well-known map", cases=len(names), disagreements=nd, exhaustive=False)
