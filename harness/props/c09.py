"""C09 - when the LLCP link ends no application thread is left waiting.

L1: theorems of NfcVerif.Props.C09 about the executable model of the wait
    structures of every blocking socket call (NfcVerif.Model.Term): what is
    checked before waiting, which condition variable is waited on, what is
    re-checked after a wake-up; the effect of terminate(); the run loops'
    try/except structure; the SNEP / handover service loops.
L2: real socket objects are driven SINGLE-THREADED through every (kind, state,
    call) into the point of waiting with a Condition/RLock double that records
    instead of blocking (sims/term_llc.py); at every scheduling point (outermost
    lock acquisition, wait) the next action of a script happens (the link
    terminates, a PDU arrives, a wake-up without change, nothing).  The sequence
    of scheduling points, the result / errno and the final socket state are
    compared with the Lean model - the action tree is enumerated exhaustively
    (this is also the enumeration of schedules with one preemption by the link
    thread at lock acquisitions).  The run loop table is compared with the real
    loops for every cause x role, and with the except clauses read by `ast`.
L3: the property itself on the real code with REAL threads: a thread is blocked
    in every kind of call, the link ends by every cause at several points of the
    conversation (clf.connect() on a scripted NFC-DEP MAC), every thread must
    finish within a hard time limit with a return value or nfc.llcp.Error;
    connect() must return; later calls must return; SNEP / handover server
    threads must exit.  Threads are daemons and every join has a timeout.  2-3 threads are blocked in the same call on
    the same socket (and three resolvers on the one controller): notify() vs notify_all().

Parts (run after this module, same evidence file):
  props/c09_multi.py  several threads on one socket under a deterministic scheduler, tied to NfcVerif.TermMulti; the
                      SNEP / handover service threads and application threads against the real run loop
  props/c09_races.py  terminate() placed in front of every source line a call executes without holding a lock
"""
import ast
import errno
import logging
import os
import threading
import time

from common import Model, exc_name, REPO

logging.disable(logging.CRITICAL)

LEAN_TARGETS = ["NfcVerif.Props.C09", "drv_c09"]
PARTS = ["multi", "races", "deact"]  # props/c09_deact.py: the real nfc.dep deactivation under a virtual clock (Model.Deact);
# props/c09_multi.py: several threads on one socket, service / application threads against the real
#                             run loop under a deterministic scheduler; props/c09_races.py: terminate() at every unlocked line

THEOREMS = [
    "NfcVerif.C09.terminate_notifies_every_waiter",
    "NfcVerif.C09.blocked_calls_return",
    "NfcVerif.C09.no_lost_wakeup",
    "NfcVerif.C09.later_calls_return",
    "NfcVerif.C09.terminated_stable",
    "NfcVerif.C09.wait_points_closed",
    "NfcVerif.C09.terminate_reached",
    "NfcVerif.C09.late_bind_never_leaks",
    "NfcVerif.C09.late_bind_order_counterexample",
    "NfcVerif.C09.connect_returns_partial",
    "NfcVerif.C09.connect_returns_counterexample",
    "NfcVerif.C09.service_threads_exit",
    "NfcVerif.C09.all_threads_return",
    "NfcVerif.C09.notify_one_counterexample",
    "NfcVerif.C09.schedule_after_terminate",
    "NfcVerif.C09.service_threads_exit_any_point",
    "NfcVerif.C09.target_deactivate_time",
    "NfcVerif.C09.target_deactivate_bounded",
    "NfcVerif.C09.target_deactivate_bounded_partial",
    "NfcVerif.C09.target_deactivate_unbounded_counterexample",
    "NfcVerif.C09.renewed_deadline_counterexample",
    "NfcVerif.C09.initiator_deactivate_bounded",
]

HANG_TIMEOUT = 6.0        # hard limit for one thread to come back (a healthy one needs < 1 ms)
MAX_HANG_REPORTS = 4      # stop paying the time limit once a defect has been shown often enough


# =========================================================================== L3: real threads
class Runner:
    """one daemon thread running one call, result captured"""

    def __init__(self, name, fn):
        import nfc.llcp
        self.name, self.fn, self.result = name, fn, None
        self.thread = threading.Thread(target=self._run, name=name, daemon=True)

    def _run(self):
        import nfc.llcp
        try:
            self.result = ("ret", self.fn())
        except nfc.llcp.Error as e:
            self.result = ("llcp", e.errno)
        except BaseException as e:  # noqa
            self.result = ("exc", exc_name(e), str(e)[:80])

    def start(self):
        self.thread.start()
        return self

    def show(self):
        r = self.result
        if r is None:
            return "STUCK"
        if r[0] == "ret":
            v = r[1]
            return "ret " + (type(v).__name__ if not isinstance(v, (bool, type(None), int)) else repr(v))
        if r[0] == "llcp":
            return "llcp.Error(%s)" % errno.errorcode.get(r[1], r[1])
        return "EXC %s" % r[1]


def blocked_kinds(llc):
    """(name, callable) for every kind of blocking call; sockets are prepared here (link thread)"""
    import nfc.llcp
    from sims import term_llc as T
    DLC, LDL, RAW = nfc.llcp.DATA_LINK_CONNECTION, nfc.llcp.LOGICAL_DATA_LINK, nfc.llcp.llc.RAW_ACCESS_POINT
    DW = nfc.llcp.MSG_DONTWAIT

    def sock(t, addr=None):
        s = nfc.llcp.Socket(llc, t)
        if addr is not None:
            s.bind(addr)
        T.name_conditions(s._tco)
        return s

    def est(addr, **kw):
        s = sock(DLC, addr)
        T.establish(s._tco, **kw)
        return s

    out = []
    s = est(32); out.append(("dlc.recv", s.recv, s))
    s = est(33); s._tco.state.CLOSE_WAIT = True; out.append(("dlc.recv(close-wait)", s.recv, s))
    s = est(34); s._tco.send_cnt = 1; out.append(("dlc.send(window-closed)", lambda s=s: s.send(b"x"), s))
    s = est(35); out.append(("dlc.send(queued)", lambda s=s: s.send(b"y"), s))
    s = sock(DLC, b"urn:nfc:sn:svc"); s.listen(1); out.append(("dlc.accept", s.accept, s))
    s = sock(DLC); out.append(("dlc.connect", lambda s=s: s.connect(b"urn:nfc:sn:peer"), s))
    s = est(36); out.append(("dlc.close(wait-dm)", s.close, s))
    s = est(37); out.append(("dlc.poll(recv)", lambda s=s: s.poll("recv"), s))
    s = est(38); s.send(b"q", DW); out.append(("dlc.poll(send)", lambda s=s: s.poll("send"), s))
    s = est(39); out.append(("dlc.poll(acks)", lambda s=s: s.poll("acks"), s))
    s = sock(LDL, 40); out.append(("ldl.recvfrom", s.recvfrom, s))
    s = sock(LDL, 41); out.append(("ldl.sendto", lambda s=s: s.sendto(b"hi", 36), s))
    s = sock(LDL, 42); out.append(("ldl.poll(recv)", lambda s=s: s.poll("recv"), s))
    s = sock(LDL, 43); s.sendto(b"q", 36, DW); out.append(("ldl.poll(send)", lambda s=s: s.poll("send"), s))
    s = sock(RAW, 44); out.append(("raw.recv", s.recv, s))
    s = sock(RAW, 45); out.append(("raw.send", lambda s=s: s.send(nfc.llcp.pdu.UnnumberedInformation(9, 45, b"r")), s))
    s = sock(RAW, 46); out.append(("raw.poll(recv)", lambda s=s: s.poll("recv"), s))
    s = sock(DLC); out.append(("resolve", lambda s=s: s.resolve(b"urn:nfc:sn:what"), s))
    # MORE THAN ONE waiter on the same condition variable (notify vs notify_all): further threads in the same call on
    # the same socket; every resolve() of a controller waits on the one `resp` condition of its service discovery SAP
    byname = {n: (f, s) for n, f, s in out}
    for name in ("dlc.recv", "dlc.send(window-closed)", "dlc.accept", "dlc.poll(recv)", "dlc.poll(acks)", "ldl.recvfrom",
                 "ldl.poll(recv)", "raw.recv"):
        f, s = byname[name]
        out.append((name + "#2", f, s))
    f, s = byname["dlc.recv"]
    out.append(("dlc.recv#3", f, s))
    s2, s3 = sock(DLC), sock(LDL)
    out.append(("resolve#2", lambda s=s2: s.resolve(b"urn:nfc:sn:other"), s2))
    out.append(("resolve#3", lambda s=s3: s.resolve(b"urn:nfc:sn:third"), s3))
    s = sock(DLC); out.append(("dlc.connect#2", lambda s=s: s.connect(b"urn:nfc:sn:peer2"), s))
    return out


def later_calls(llc, olds):
    """calls issued after the link has ended: on the sockets used before and on new ones"""
    import nfc.llcp
    DLC, LDL, RAW = nfc.llcp.DATA_LINK_CONNECTION, nfc.llcp.LOGICAL_DATA_LINK, nfc.llcp.llc.RAW_ACCESS_POINT
    UI = nfc.llcp.pdu.UnnumberedInformation
    out = []
    for name, fn, s in olds:
        if "#" not in name:                 # the further threads of the same call repeat nothing new afterwards
            out.append(("old:" + name, fn))
    byname = {n: s for n, f, s in olds}
    d, l, r = byname["dlc.recv"], byname["ldl.recvfrom"], byname["raw.recv"]
    out += [("old:dlc.send", lambda: d.send(b"z")), ("old:dlc.connect", lambda: d.connect(17)),
            ("old:dlc.listen", lambda: d.listen(1)), ("old:dlc.accept", d.accept),
            ("old:dlc.getsockopt", lambda: d.getsockopt(nfc.llcp.SO_SNDMIU)),
            ("old:dlc.setsockopt", lambda: d.setsockopt(nfc.llcp.SO_RCVBSY, True)),
            ("old:dlc.bind", lambda: d.bind(50)), ("old:dlc.close", d.close), ("old:dlc.close-again", d.close),
            ("old:ldl.sendto", lambda: l.sendto(b"a", 3)), ("old:ldl.getsockopt", lambda: l.getsockopt(nfc.llcp.SO_SNDMIU)),
            ("old:ldl.close", l.close), ("old:raw.send", lambda: r.send(UI(1, 1, b""))), ("old:raw.close", r.close)]

    def new(t):
        return nfc.llcp.Socket(llc, t)
    n1, n2, n3, n4, n5, n6, n7, n8 = new(DLC), new(LDL), new(DLC), new(LDL), new(RAW), new(DLC), new(DLC), new(RAW)
    out += [("new:resolve", lambda: n1.resolve(b"urn:nfc:sn:x")),
            ("new:dlc.connect", lambda: n1.connect(b"urn:nfc:sn:q")),
            ("new:ldl.bind+recvfrom", lambda: (n2.bind(51), n2.recvfrom())[1]),
            ("new:dlc.bind+listen+accept", lambda: (n3.bind(b"urn:nfc:sn:late"), n3.listen(1), n3.accept())[2]),
            ("new:ldl.sendto", lambda: n4.sendto(b"m", 9)),
            ("new:raw.send", lambda: n5.send(UI(1, 1, b"m"))),
            ("new:raw.bind+recv", lambda: (n8.bind(52), n8.recv())[1]),
            ("new:dlc.send", lambda: n6.send(b"m")), ("new:dlc.recv", n6.recv), ("new:dlc.poll", lambda: n6.poll("recv")),
            ("new:dlc.listen+accept", lambda: (n7.listen(1), n7.accept())[1]), ("new:dlc.close", n6.close),
            ("new:ldl.close", n2.close)]
    return out


class Scenario:
    def __init__(self, ck, role, cause, at, start_at, single=None, servers=True, ui_attack=False, point="established"):
        self.ck, self.role, self.cause, self.at, self.start_at, self.point = ck, role, cause, at, start_at, point
        self.single, self.servers, self.ui_attack = single, servers, ui_attack
        self.descr = {"role": role, "cause": cause, "cause_at_exchange": at, "threads_started_at_exchange": start_at,
                      "only_kind": single, "servers": servers, "ui_to_connection_sap": ui_attack, "point_of_run_loop": point}

    def run(self, hang_budget):
        """returns (number of blocked threads at the moment of the cause, hangs seen)"""
        import nfc
        import nfc.clf
        import nfc.llcp
        import nfc.snep
        import nfc.handover
        from sims import term_llc as T
        ck = self.ck
        P = nfc.llcp.pdu
        T.install_real()
        replies = []
        if self.servers:
            # the peer connects to the SNEP server (SAP 4) and to the handover server (by name)
            replies = [P.encode(P.Connect(4, 33, 128, 1)), P.encode(P.Connect(1, 34, 128, 1, b"urn:nfc:sn:handover"))]
        if self.point != "established":
            replies = []                                            # the cause strikes before any conversation
        script = T.MacScript(self.cause, 10 ** 9, replies, point=self.point, role=self.role)   # armed later
        script.armed = False
        T.install_mac(script)
        if self.point == "dps":
            T.install_dps()
        st = {"llc": None, "runners": [], "olds": [], "servers": [], "blocked_at_cause": None}

        def on_startup(llc):
            st["llc"] = llc
            T.TRACER.names[id(llc.sap[1].resp)] = "resp"
            if self.servers:
                for srv in (nfc.snep.SnepServer(llc), nfc.handover.HandoverServer(llc)):
                    srv.daemon = True
                    st["servers"].append(srv)
            return llc

        def start_threads():
            llc = st["llc"]
            kinds = blocked_kinds(llc)
            if self.single is not None:
                kinds = [k for k in kinds if k[0].split("#")[0] == self.single]
            st["olds"] = kinds
            import nfc.llcp
            early = nfc.llcp.Socket(llc, nfc.llcp.LOGICAL_DATA_LINK)      # closed by the application while the link is up
            early.bind(47)
            early.close()
            st["early"] = early
            st["runners"] = [Runner(n, f).start() for n, f, s in kinds]
            for srv in st["servers"]:
                srv.start()
            if not T.TRACER.wait_blocked([r.thread for r in st["runners"]] + st["servers"]):
                ck.notes.append("a thread did not reach its point of waiting in time (machine overloaded?)")
            if self.ui_attack:
                # F39: a UI PDU addressed to the SAP of an established data link connection
                script.replies.append(P.encode(P.UnnumberedInformation(32, 40, b"boo")))
            script.at = script.n + self.at + (1 if self.ui_attack else 0)
            script.armed = True

        def on_connect(llc):
            if self.point == "dps":
                llc.cfg["llcp-dpc"] = 1        # as negotiated by activate() when both sides support it
            if self.start_at < 0:
                start_threads()
            else:
                script.hooks[self.start_at] = start_threads
            return True

        def snapshot():
            st["blocked_at_cause"] = sum(1 for r in st["runners"] if T.TRACER.blocked_on(r.thread))
        # the moment of the cause: count who is blocked (hook runs on the link thread just before the cause fires)
        orig_exchange = script.exchange

        def exchange(send_data, timeout):
            if script.n >= script.at and st["blocked_at_cause"] is None:
                snapshot()
            return orig_exchange(send_data, timeout)
        script.exchange = exchange
        orig_cb = script.terminate_cb

        def terminate_cb():
            r = orig_cb()
            if r and st["blocked_at_cause"] is None:
                snapshot()
            return r

        clf = nfc.ContactlessFrontend()
        clf.device = object()          # never used: the NFC-DEP layer is the scripted MAC
        link = Runner("link", lambda: clf.connect(
            llcp={"role": self.role, "on-startup": on_startup, "on-connect": on_connect, "sec": False},
            terminate=terminate_cb))
        link.start()
        hangs = 0
        link.thread.join(HANG_TIMEOUT + 2)
        llc = st["llc"]
        replay = dict(self.descr)
        if link.thread.is_alive():
            hangs += 1
            where = T.TRACER.blocked_on(link.thread)
            ck.fail("link-loop-hangs" + ("-ui-to-connection" if self.ui_attack else ""),
                    "the thread running clf.connect()/llc.run never came back (waiting on %s) after %s; PDUs sent: %s"
                    % (where, self.descr, script.sent[-6:]), replay)
            return st["blocked_at_cause"] or 0, hangs
        # ---- connect() returned to its caller?
        res = link.result
        if not st["olds"] and self.start_at < 0:
            # on-startup / on-connect (sockets prepared, servers created) did not complete on this nfcpy
            ck.fail("scenario-setup-fails-%s" % (res[1] if res and res[0] == "exc" else "connect-returns"),
                    "clf.connect(llcp=...) on the scripted MAC ended before the application threads could be started: %r" % (res,),
                    replay)
            return 0, hangs
        if res[0] == "exc" and res[1] == "SystemExit":
            cls = "ioerror" if self.cause.startswith("ioerror") else \
                  "secerror" if self.cause in ("key-agreement", "decryption", "encryption") else self.cause
            ck.fail("connect-left-by-%s-%s" % (res[1], cls),
                    "clf.connect() did not return to its caller but raised %s (%s) when the link ended by %s"
                    % (res[1], res[2], self.cause), replay)
        ck.count("connect() -> " + link.show())
        # ---- terminate() completed?
        if llc is None or any(x is not None for x in llc.sap):
            ck.fail("terminate-incomplete-" + self.cause + ("" if self.point == "established" else "-before-established"),
                    "after the run loop ended by %s service access points are still open: %s"
                    % (self.cause, [i for i, x in enumerate(llc.sap) if x is not None] if llc else None), replay)
        # ---- every blocked thread comes back
        for r in st["runners"]:
            r.thread.join(HANG_TIMEOUT if hangs < hang_budget else 0.05)
            if r.thread.is_alive():
                hangs += 1
                twin = "#" in r.name or any(x.name.split("#")[0] == r.name and x is not r for x in st["runners"])
                ck.fail("hang-blocked-" + r.name.split("#")[0], "thread blocked in %s is still waiting on %s after the link ended by %s%s"
                        % (r.name, T.TRACER.blocked_on(r.thread), self.cause,
                           " (%d threads were in this call on the same socket / controller)"
                           % sum(1 for x in st["runners"] if x.name.split("#")[0] == r.name.split("#")[0]) if twin else ""),
                        dict(replay, call=r.name))
            elif r.result[0] == "exc":
                ck.fail("exc-blocked-%s-%s" % (r.name, r.result[1]), "thread blocked in %s got %s (%s) when the link ended by %s"
                        % (r.name, r.result[1], r.result[2], self.cause), dict(replay, call=r.name))
            ck.count("blocked %s -> %s" % (r.name, r.show()))
        # ---- service threads exit
        for t in list(T.TRACER.threads):
            t.join(HANG_TIMEOUT if hangs < hang_budget else 0.05)
            if t.is_alive():
                hangs += 1
                ck.fail("service-thread-alive", "service thread %s (%s) still alive, waiting on %s, after the link ended by %s"
                        % (t.name, getattr(t, "_target", None), T.TRACER.blocked_on(t), self.cause), replay)
        ck.count("service threads seen", len(T.TRACER.threads))
        # ---- later calls
        if self.single is None:
            extra = [("closed-before:ldl.close", st["early"].close), ("closed-before:ldl.recvfrom", st["early"].recvfrom),
                     ("closed-before:ldl.sendto", lambda: st["early"].sendto(b"x", 9))] if "early" in st else []
            for name, fn in later_calls(llc, st["olds"]) + extra:
                r = Runner(name, fn).start()
                r.thread.join(HANG_TIMEOUT if hangs < hang_budget else 0.05)
                if r.thread.is_alive():
                    hangs += 1
                    ck.fail("hang-later-" + name, "%s issued after the link ended never returns (waiting on %s)"
                            % (name, T.TRACER.blocked_on(r.thread)), dict(replay, call=name))
                elif r.result[0] == "exc":
                    ck.fail("exc-later-%s-%s" % (name, r.result[1]), "%s issued after the link ended raised %s (%s)"
                            % (name, r.result[1], r.result[2]), dict(replay, call=name))
                ck.count("later %s -> %s" % (name, r.show()))
        return st["blocked_at_cause"] or 0, hangs


def oracle(ck):
    from sims import term_llc as T
    rng = ck.rng
    hangs = 0
    causes = list(T.CAUSES) + list(T.UNCAUGHT)
    scen = []
    for role in ("initiator", "target"):
        for cause in causes:
            ats = [0, 1, 3] if ck.thorough else [rng.choice([0, 1]), 3]
            for at in ats:
                starts = [-1, 2] if ck.thorough else [rng.choice([-1, 2])]
                for start_at in starts:
                    scen.append(Scenario(ck, role, cause, at, start_at))
    # the cause strikes before the link is ESTABLISHED: first collect / first exchange / DPS key agreement
    for role in ("initiator", "target"):
        for point in ("first", "dps"):
            for cause in causes:
                if cause == "local-terminate" or (point == "first" and role == "initiator" and cause not in T.EXCEPTION_CAUSES):
                    continue
                if not ck.thorough and cause not in ("runtime-error", "timeout", "ioerror", "remote-disc", "keyboard-interrupt"):
                    continue
                scen.append(Scenario(ck, role, cause, 0, -1, point=point))
    # the peer sends a UI PDU to the SAP of an established connection, then the link ends
    for role in ("initiator", "target"):
        scen.append(Scenario(ck, role, "remote-disc", 2, -1, servers=False, ui_attack=True))
    if ck.thorough:
        names = [k[0] for k in blocked_kinds_names()]
        for name in names:
            for cause in ("remote-disc", "timeout", "local-terminate", "ioerror"):
                scen.append(Scenario(ck, rng.choice(["initiator", "target"]), cause, rng.choice([0, 1, 2]), -1, single=name, servers=False))
    nblocked = 0
    try:
        for sc in scen:
            if hangs >= 3 * MAX_HANG_REPORTS:
                ck.notes.append("L3 stopped after %d hanging threads (each costs the time limit); remaining scenarios not run" % hangs)
                break
            b, h = sc.run(MAX_HANG_REPORTS - hangs if hangs < MAX_HANG_REPORTS else 0)
            nblocked += b
            hangs += h
            ck.case(("scenario", tuple(sorted(sc.descr.items(), key=str))), b > 0, "L3 scenario:" + sc.cause,
                    sample=dict(sc.descr, threads_blocked_when_link_ended=b) if len(ck.samples) < 2 else None)
    finally:
        T.uninstall()
    ck.count("L3 threads blocked at the moment the link ended (sum over scenarios)", nblocked)
    return len(scen)


def blocked_kinds_names():
    return [("dlc.recv",), ("dlc.recv(close-wait)",), ("dlc.send(window-closed)",), ("dlc.send(queued)",), ("dlc.accept",),
            ("dlc.connect",), ("dlc.close(wait-dm)",), ("dlc.poll(recv)",), ("dlc.poll(send)",), ("dlc.poll(acks)",),
            ("ldl.recvfrom",), ("ldl.sendto",), ("ldl.poll(recv)",), ("ldl.poll(send)",), ("raw.recv",), ("raw.send",),
            ("raw.poll(recv)",), ("resolve",)]



# =========================================================================== L2: single thread, Condition double
STATES = ("SHUTDOWN", "CLOSED", "LISTEN", "CONNECT", "ESTABLISHED", "DISCONNECT", "CLOSE_WAIT")
WAIT_ACTS = ("N", "T", "S", "QI", "QDISC", "QCONNECT", "QCC", "QDM", "QUI", "D", "R")


_CLOSE_CLEARS = []


def close_clears_recv():
    """which tree is under test: does DataLinkConnection.close() of an established, bound connection discard unread
    data before it waits for the DM (fixes/C05/0002)?  Probed on the real object: with an I PDU unread the repaired
    close() reaches the wait on recv_ready, the earlier code takes the I PDU for the answer and does not wait.  The
    model has both variants (World.closeClearsRecv); every theorem is proved for both."""
    if not _CLOSE_CLEARS:
        import nfc.llcp
        from sims import term_llc as T
        world = T.World()
        T.install_double(world)
        try:
            llc = T.make_llc()
            tco = llc.socket(nfc.llcp.DATA_LINK_CONNECTION)
            T.name_conditions(tco)
            llc.bind(tco)
            T.establish(tco)
            tco.recv_queue.append(T.make_pdu("I", tco))
            world.begin(llc, tco, [])
            try:
                tco.close()
            except T.Hang:
                pass
            finally:
                world.end()
            _CLOSE_CLEARS.append(any(e.startswith("Wrecv_ready") for e in world.events))
        finally:
            T.uninstall()
    return _CLOSE_CLEARS[0]


def init_line(st):
    return ("k=%(k)s st=%(st)s b=%(b)d rq=%(rq)s sq=%(sq)s sb=1 rb=%(rb)d sm=%(sm)d sw=%(sw)d sc=%(sc)d sa=%(sa)d "
            "ak=%(ak)d rc=%(rc)d rw=%(rw)d reg=%(reg)d alive=%(alive)d oth=0 term=0 sd=1 res=%(res)d pre=%(pre)d" % st
            + " ccr=%d" % close_clears_recv())


def base_state(k, st, variant, rq=(), sq=(), win=(1, 0, 0), ak=0, rc=0, res=0, pre=0):
    d = dict(k=k, st=st, rq=".".join(rq), sq=".".join(sq), rb=1, sm=128, sw=win[0], sc=win[1], sa=win[2], ak=ak, rc=rc,
             rw=1, res=res, pre=pre, variant=variant)
    d.update({"U": dict(b=0, reg=0, alive=0), "R": dict(b=1, reg=1, alive=1), "C": dict(b=1, reg=0, alive=0)}[variant])
    return d


class DoubleWorld:
    """builds the real objects for an abstract state and runs one call under a script"""

    def __init__(self):
        from sims import term_llc as T
        self.T = T
        self.world = T.World()
        T.install_double(self.world)

    def build(self, st):
        import nfc.llcp
        T = self.T
        llc = T.make_llc()
        llc.mac = None
        typ = {"raw": nfc.llcp.llc.RAW_ACCESS_POINT, "ldl": nfc.llcp.LOGICAL_DATA_LINK, "dlc": nfc.llcp.DATA_LINK_CONNECTION}[st["k"]]
        tco = llc.socket(typ)
        T.name_conditions(tco)
        if st["variant"] in ("R", "C"):
            llc.bind(tco)
        if st["variant"] == "C":
            llc.close(tco)
        tco.state.value = STATES.index(st["st"])
        for name in filter(None, st["rq"].split(".")):
            tco.recv_queue.append(T.make_pdu(name, tco))
        for name in filter(None, st["sq"].split(".")):
            tco.send_queue.append(T.make_pdu(name, tco))
        tco.recv_buf, tco.send_miu = st["rb"], st["sm"]
        if st["k"] == "dlc":
            tco.send_win, tco.send_cnt, tco.send_ack = st["sw"], st["sc"], st["sa"]
            tco.acks_recvd, tco.recv_confs, tco.recv_win = st["ak"], st["rc"], st["rw"]
            if st["st"] in ("ESTABLISHED", "DISCONNECT", "CLOSE_WAIT"):
                tco.peer = 40
        if st["res"]:
            llc.sap[1].snl[b"urn:nfc:sn:x"] = 17
        if st["pre"]:
            self.world.begin(llc, tco, [])
            self.world.in_action = True        # a wait inside terminate() itself is a hang of the link thread
            try:
                llc.terminate("before the call")
            finally:
                self.world.end()
        sock = nfc.llcp.Socket(llc, None)
        sock._tco = tco
        return llc, tco, sock

    def call_fn(self, st, sock, call):
        import nfc.llcp
        c = call.split(":")
        if c[0] == "send":
            flags, n = (nfc.llcp.MSG_DONTWAIT if c[1] == "1" else 0), int(c[2])
            if st["k"] == "dlc":
                return lambda: sock.send(b"x" * n, flags)
            if st["k"] == "ldl":
                return lambda: sock.sendto(b"x" * n, 36, flags)
            return lambda: sock.send(nfc.llcp.pdu.UnnumberedInformation(9, 1, b"x"), flags)
        if c[0] == "poll":
            return lambda: sock.poll(c[1], 0.5 if c[2] == "1" else None)
        return {"recv": sock.recv, "accept": sock.accept, "connect": lambda: sock.connect(36), "listen": lambda: sock.listen(2),
                "close": sock.close, "bind": sock.bind, "resolve": lambda: sock.resolve(b"urn:nfc:sn:x")}[c[0]]

    def run(self, st, call, script):
        import nfc.llcp
        T = self.T
        try:
            llc, tco, sock = self.build(st)
        except T.Hang as h:
            return ["terminate-blocks"], "hang " + str(h.cv), ""
        except Exception as e:  # noqa  - the real objects refuse the set-up (or terminate() raises)
            self.world.end()
            return ["setup-raises"], "exc " + exc_name(e), repr(e)[:120]
        fn = self.call_fn(st, sock, call)
        self.world.begin(llc, tco, script)
        try:
            r = fn()
            if r is None:
                out = "ok none"
            elif isinstance(r, bool):
                out = "ok true" if r else "ok false"
            elif isinstance(r, int):
                out = "ok n%d" % r
            elif isinstance(r, nfc.llcp.Socket):
                out = "ok sock"
            else:
                out = "ok data"
        except T.Hang as h:
            out = "hang " + str(h.cv)
        except BaseException as e:  # noqa
            out = "exc " + exc_name(e)
        finally:
            self.world.end()
        summ = "%s:%d:%s:%s:%d:%d:%d:%d" % (
            tco.state, tco.addr is not None, ".".join(p.name for p in tco.recv_queue), ".".join(p.name for p in tco.send_queue),
            tco.recv_buf, getattr(tco, "acks_recvd", st["ak"]), getattr(tco, "send_cnt", st["sc"]), getattr(tco, "recv_confs", st["rc"]))
        return list(self.world.events), out, summ


def calls_for(k):
    calls = ["recv", "close", "bind", "resolve", "send:0:1", "send:1:1", "poll:recv:0", "poll:recv:1", "poll:send:0", "poll:send:1",
             "poll:bogus:0"]
    if k != "raw":
        calls += ["connect"]
    if k == "ldl":
        calls += ["send:0:300"]
    if k == "dlc":
        calls += ["accept", "listen", "send:0:300", "poll:acks:0", "poll:acks:1"]
    else:
        calls += ["poll:acks:0", "accept", "listen"]
    return calls


def tie_states(ck):
    """(state, call) pairs: systematic core (exhaustive over kind x state x variant x pre x call with the dimensions a
    call reads) + seeded random states"""
    rng = ck.rng
    out = []
    for k in ("raw", "ldl", "dlc"):
        sts = STATES if k == "dlc" else ("ESTABLISHED", "SHUTDOWN")
        for st in sts:
            for variant in ("U", "R"):
                for pre in (0, 1):
                    for call in calls_for(k):
                        c0 = call.split(":")[0]
                        rqs = [()]
                        if c0 in ("recv", "accept", "connect", "close") or call.startswith("poll:recv"):
                            rqs = [(), ("I",), ("CONNECT",), ("CC",), ("DM",), ("UI",), ("I", "I")]
                            if st == "CLOSE_WAIT" or variant == "U":
                                rqs.append(("DISC",))
                        if k == "ldl":
                            rqs = [r for r in rqs if set(r) <= {"UI"}]     # LogicalDataLink.enqueue only accepts UI PDUs
                        if c0 == "accept" and st == "LISTEN" and variant == "U":
                            continue        # listen() binds: a listening socket without address does not exist
                        for rq in rqs:
                            if c0 == "recv" and rq[:1] == ("DISC",) and st == "ESTABLISHED" and variant == "R":
                                continue
                            opts = [dict()]
                            if c0 == "send" and k == "dlc":
                                opts = [dict(win=w, sq=q) for w in ((1, 0, 0), (1, 1, 0), (0, 0, 0), (2, 1, 15)) for q in ((), ("UI",))]
                            elif c0 == "send" or call.startswith("poll:send"):
                                opts = [dict(sq=()), dict(sq=("UI",))]
                            elif call.startswith("poll:acks"):
                                opts = [dict(ak=0), dict(ak=1)]
                            elif c0 == "recv":
                                opts = [dict(rc=0), dict(rc=1)]
                            elif c0 == "resolve":
                                opts = [dict(res=0), dict(res=1)]
                            for o in opts:
                                out.append((base_state(k, st, variant, rq=rq, pre=pre, **o), call))
        out.append((base_state(k, "SHUTDOWN", "C"), "close"))
        out.append((base_state(k, "SHUTDOWN", "C"), "recv"))
        out.append((base_state(k, "SHUTDOWN", "C", pre=1), "close"))
    n = 30000 if ck.thorough else 2000
    names = ["I", "DISC", "CONNECT", "CC", "DM", "UI"]
    for _ in range(n):
        k = rng.choice(["raw", "ldl", "dlc", "dlc"])
        st = rng.choice(STATES if k == "dlc" else ("ESTABLISHED", "SHUTDOWN"))
        rq = tuple(rng.choice(names) if k != "ldl" else "UI" for _ in range(rng.choice([0, 0, 1, 1, 2])))
        call = rng.choice(calls_for(k))
        if call == "recv" and "DISC" in rq and st == "ESTABLISHED":
            continue
        s = base_state(k, st, "R" if (call == "accept" and st == "LISTEN") else rng.choice("UR"), rq=rq, sq=tuple("UI" for _ in range(rng.choice([0, 0, 1, 2]))),
                       win=(rng.randrange(0, 4), rng.randrange(16), rng.randrange(16)), ak=rng.choice([0, 0, 1, 3]),
                       rc=rng.choice([0, 0, 1]), res=rng.choice([0, 0, 1]), pre=rng.choice([0, 0, 1]))
        out.append((s, call))
    return out


def tie_waits(ck, model):
    """explore the tree of actions for every (state, call); compare with the model; judge hangs directly"""
    dw = DoubleWorld()
    depth = 4 if ck.thorough else 3
    cases = []          # (request line, real line, st, call, script)
    seen = set()

    def explore(st, call, script):
        ev, out, summ = dw.run(st, call, script)
        key = (tuple(sorted(st.items())), call, tuple(script))
        if key not in seen:
            seen.add(key)
            cases.append(("run %s call=%s script=%s" % (init_line(st), call, ".".join(script)), ",".join(ev) + "|" + out + "|" + summ,
                          st, call, list(script), ev, out))
        if len(ev) > len(script) and len(script) < depth:
            point = ev[len(script)]
            acts = ("-", "T") if point[0] == "L" else WAIT_ACTS + (("A",) if st["k"] == "dlc" else ())
            if st["k"] == "ldl":
                acts = tuple(a for a in acts if a[0] != "Q" or a == "QUI")
            if call == "recv" and st["st"] == "ESTABLISHED" and st["variant"] == "R":
                acts = tuple(a for a in acts if a != "QDISC")      # a DISC is only queued locally in CLOSE_WAIT
            for a in acts:
                explore(st, call, script + [a])

    try:
        for st, call in tie_states(ck):
            explore(st, call, [])
    finally:
        dw.T.uninstall()
    replies = model.ask_many([c[0] for c in cases])
    dis = 0
    nwait = 0
    for (line, real, st, call, script, ev, out), rep in zip(cases, replies):
        waits = sum(1 for e in ev if e[0] == "W")
        nwait += waits
        if ev == ["terminate-blocks"]:
            ck.fail("terminate-blocks", "llc.terminate() itself waits on %s (the link thread would hang)" % out, {"state": st})
            continue
        if ev == ["setup-raises"]:
            ck.fail(("terminate-raises-" if st["pre"] else "socket-setup-raises-") + out[4:],
                    "preparing a %s socket in state %s%s raised %s" % (st["k"], st["st"], " and calling llc.terminate()" if st["pre"] else "",
                                                                      real.split("|")[-1]), {"state": st})
            continue
        terminated_at = None
        if st["pre"]:
            terminated_at = -1
        for i, e in enumerate(ev):
            if e.split(":")[-1] == "T" and terminated_at is None:
                terminated_at = i
        ck.case((line,), waits > 0 or terminated_at is not None, "L2 %s %s" % (st["k"], call.split(":")[0]),
                sample={"request": line, "impl": real} if (waits and terminated_at is not None and len(ck.samples) < 5) else None)
        if rep != real:
            dis += 1
            if os.environ.get("C09_DEBUG"):
                print("DIS", st["k"], call, st["st"], st["variant"], "pre", st["pre"], ".".join(script), "\n   M", rep, "\n   I", real)
            ck.fail("tie:wait-structure", "model %r, implementation %r" % (rep, real), {"request": line, "model": rep, "impl": real})
        # ---- the property itself, judged on the real objects (independent of the model)
        reachable = st["variant"] != "U" or st["k"] != "dlc" or st["st"] in ("CLOSED", "SHUTDOWN")
        if terminated_at is not None and reachable:
            replay = {"state": st, "call": call, "script": script, "events": ev, "outcome": out}
            name = "%s.%s" % (st["k"], call.split(":")[0])
            if out.startswith("hang"):
                last = ev[-1]
                if last.split(":")[-1] == "T":
                    ck.fail("terminate-does-not-wake-" + name, "thread waiting in %s (%s) is not notified by terminate()" % (name, last), replay)
                else:
                    ck.fail("waits-after-terminate-" + name,
                            "%s reaches a wait without timeout (%s) after the link has terminated: nothing will wake it" % (name, last), replay)
            elif out.startswith("exc") and not out.startswith("exc llcp.Error") and out != "exc ConnectRefused":
                tail = ev[terminated_at + 1:] if terminated_at >= 0 else ev
                if not any(e[0] == "W" and e.split(":")[-1] not in ("N", "T", "S") for e in tail):
                    ck.fail("exc-after-terminate-%s-%s" % (name, out[4:]), "%s ended with %s although the link had terminated" % (name, out[4:]), replay)
    ck.tie("wait structure of socket calls: model vs real objects under the Condition double", cases=len(cases),
           disagreements=dis, exhaustive=True)
    ck.count("L2 scheduling points that are waits", nwait)
    return len(cases)



# =========================================================================== L2: run loops and service loops
LOOP_CAUSES = ("remote-disc", "timeout", "broken-link", "none", "malformed", "local-terminate", "keyboard-interrupt", "ioerror",
               "ioerror-persistent", "key-agreement", "decryption", "encryption", "runtime-error")


def handler_table():
    """(T) the except clauses of run_as_initiator / run_as_target read from the source: class -> (terminate?, raises)"""
    src = open(os.path.join(REPO, "src", "nfc", "llcp", "llc.py")).read()
    out = {}
    for fn in ast.walk(ast.parse(src)):
        if isinstance(fn, ast.FunctionDef) and fn.name in ("run_as_initiator", "run_as_target"):
            tbl = {}
            for node in ast.walk(fn):
                if isinstance(node, ast.Try) and node.handlers:
                    for h in node.handlers:
                        name = ast.unparse(h.type) if h.type is not None else "*"
                        calls = any(isinstance(n, ast.Call) and ast.unparse(n.func) == "self.terminate" for b in h.body for n in ast.walk(b))
                        rs = [ast.unparse(n.exc) if n.exc is not None else "reraise" for b in h.body for n in ast.walk(b) if isinstance(n, ast.Raise)]
                        tbl[name] = (calls, rs[0] if rs else None)
                    tbl["finally"] = any(isinstance(n, ast.Call) and ast.unparse(n.func) == "self.terminate"
                                         for b in node.finalbody for n in ast.walk(b))
            out[fn.name] = tbl
    return out


def tie_loops(ck, model):
    """every cause x role on the real run loops (single thread, scripted MAC) against the model's table"""
    import nfc.llcp.llc
    from sims import term_llc as T
    n = dis = 0
    tables = handler_table()
    cls_of = {"keyboard-interrupt": "KeyboardInterrupt", "ioerror": "IOError", "key-agreement": "sec.KeyAgreementError",
              "decryption": "sec.DecryptionError", "encryption": "sec.EncryptionError"}
    try:
        for role in ("initiator", "target"):
            tbl = tables["run_as_" + role]
            for cause in LOOP_CAUSES:
                for point, at in (("established", 1), ("established", 2), ("first", 0), ("dps", 0)):
                    if point == "first" and role == "initiator" and cause not in T.EXCEPTION_CAUSES:
                        continue        # the initiator's first collect() can only fail by an exception
                    if point != "established" and cause == "local-terminate":
                        continue        # the callback is first asked when the loop starts
                    script = T.MacScript(cause, at, point=point, role=role)
                    T.install_mac(script)
                    llc = nfc.llcp.llc.LogicalLinkController(sec=False)
                    llc.cfg.update({"send-miu": 248, "recv-lto": 500, "send-wks": 0, "llcp-dpc": 1 if point == "dps" else 0})
                    if point == "dps":
                        T.install_dps()
                    llc.mac = (nfc.dep.Initiator if role == "initiator" else nfc.dep.Target)()
                    llc.link.CONNECTED = True       # as left by activate(); the loops set ESTABLISHED themselves
                    spectator = llc.socket(nfc.llcp.LOGICAL_DATA_LINK)     # an application socket that must get closed
                    llc.bind(spectator, 40)
                    called = []
                    orig = llc.terminate
                    llc.terminate = lambda reason, orig=orig: (called.append(reason), orig(reason))[1]
                    try:
                        getattr(llc, "run_as_" + role)(terminate=script.terminate_cb)
                        leave = "returns"
                    except KeyboardInterrupt:
                        leave = "KeyboardInterrupt"
                    except SystemExit:
                        leave = "SystemExit"
                    except IOError:
                        leave = "IOError"
                    except Exception:  # noqa
                        leave = "reraises"
                    shut = all(x is None for x in llc.sap) and bool(spectator.state.SHUTDOWN)
                    real = "terminate=%d leave=%s shutdown=%d" % (bool(called), leave, shut)
                    rep = model.ask("loop role=%s cause=%s point=%s" % (role, cause, point))
                    rep3 = " ".join(t for t in rep.split() if not t.startswith("connect="))
                    n += 1
                    ck.case(("loop", role, cause, point, at), True, "L2 loop:%s@%s" % (cause, point))
                    if rep3 != real:
                        dis += 1
                        ck.fail("tie:run-loop-table", "model %r, implementation %r" % (rep3, real),
                                {"role": role, "cause": cause, "point": point, "at": at})
                    if not shut:
                        ck.fail("terminate-incomplete-%s%s" % (cause, "" if point == "established" else "-before-established"),
                                "run_as_%s left by %s after cause %s at point '%s' (link state %s) with service access points still open: "
                                "a socket bound to 40 is still %s" % (role, leave, cause, point, llc.link, spectator.state),
                                {"role": role, "cause": cause, "point": point, "at": at, "single_thread": True})
                    # (T) the handler that the cause reaches, as written in the source
                    if cause in cls_of:
                        h = tbl.get(cls_of[cause])
                        want = {"KeyboardInterrupt": (True, "KeyboardInterrupt"), "SystemExit": (True, "SystemExit")}.get(leave)
                        if h is None or want is None or h != want:
                            dis += 1
                            ck.fail("tie:run-loop-handlers", "except %s in run_as_%s is %r, model says leave=%s" % (cls_of[cause], role, h, leave),
                                    {"role": role, "cause": cause})
            if not tbl.get("finally"):
                ck.fail("tie:run-loop-handlers", "run_as_%s has no terminate() in its finally clause" % role, {"role": role})
    finally:
        T.uninstall()
    ck.tie("run loop: cause -> terminate()/leave, model vs real loops and except clauses", cases=n, disagreements=dis, exhaustive=True)


def tie_service(ck, model):
    """the SNEP / handover loops on sockets of a terminated link, single thread under the Condition double"""
    import nfc.llcp
    import nfc.snep
    import nfc.handover
    from sims import term_llc as T
    world = T.World()
    T.install_double(world)
    n = dis = 0
    try:
        for srvname in ("snep", "handover"):
            for point in ("accept", "poll"):
                llc = T.make_llc()
                srv = nfc.snep.SnepServer(llc) if srvname == "snep" else nfc.handover.HandoverServer(llc)
                lsock = srv._args[-1]
                client = nfc.llcp.Socket(llc, nfc.llcp.DATA_LINK_CONNECTION)
                client.bind(33)
                T.establish(client._tco)
                world.begin(llc, lsock._tco, [])
                try:
                    world.in_action = True
                    llc.terminate("test")
                    world.in_action = False
                    if point == "accept":
                        (srv._listen(lsock) if srvname == "snep" else srv.listen(llc, lsock))
                    else:
                        (srv._serve(client) if srvname == "snep" else srv.serve(client))
                    real = "exited"
                except T.Hang as h:
                    real = "hang " + str(h.cv)
                    ck.fail("service-loop-waits-" + srvname, "%s %s loop waits on %s after the link terminated" % (srvname, point, h.cv),
                            {"server": srvname, "loop": point})
                except BaseException as e:  # noqa
                    real = "exited"      # the thread ends (with a traceback)
                    ck.count("service loop left by " + exc_name(e))
                finally:
                    world.end()
                rep = model.ask("service srv=%s k=dlc st=%s b=1 reg=1 alive=1 sd=1 rw=1 sb=1 rb=1 sm=128 at=%s"
                                % (srvname, "LISTEN" if point == "accept" else "ESTABLISHED", point))
                n += 1
                ck.case(("service", srvname, point), True, "L2 service")
                if rep != real:
                    dis += 1
                    ck.fail("tie:service-loops", "model %r, implementation %r" % (rep, real), {"server": srvname, "loop": point})
    finally:
        T.uninstall()
    ck.tie("service loops on a terminated link: model vs snep/handover server code", cases=n, disagreements=dis, exhaustive=True)



# =========================================================================== terminate() as an interleavable actor
def tie_latebind(ck, model):
    """the link thread runs terminate(); at one of ITS scheduling points (lock acquisitions, step from one service access
    point to the next) an application thread creates a socket and binds it.  The socket must be refused (ESHUTDOWN) or
    be shut down by the rest of terminate(); compared with the model's `lateBind termSteps k a`."""
    import nfc.llcp
    from sims import term_llc as T
    rng = ck.rng
    world = T.TermWorld()
    T.install_double(world)
    DLC, LDL, RAW = nfc.llcp.DATA_LINK_CONNECTION, nfc.llcp.LOGICAL_DATA_LINK, nfc.llcp.llc.RAW_ACCESS_POINT

    def setup():
        llc = T.make_llc()
        llc.sap = T.SapList(llc.sap)
        llc.sap.world = world
        d = nfc.llcp.Socket(llc, DLC); d.bind(33); T.establish(d._tco)
        nfc.llcp.Socket(llc, LDL).bind(40)
        nfc.llcp.Socket(llc, RAW).bind(20)
        srv = nfc.llcp.Socket(llc, DLC); srv.bind(b"urn:nfc:sn:svc"); srv.listen(1)
        return llc

    n = dis = 0
    try:
        llc = setup()
        world.begin_term(None, None)
        try:
            llc.terminate("dry run")
        except T.Hang as h:
            ck.fail("terminate-blocks", "llc.terminate() itself waits on %s (the link thread would hang): a controller with an established "
                    "connection at 33, a datagram socket at 40, a raw access point at 20 and a listening socket" % h.cv,
                    {"sockets": ["dlc 33 established", "ldl 40", "raw 20", "dlc listening urn:nfc:sn:svc"], "waits_on": str(h.cv)})
            return
        finally:
            world.end()
        points = list(world.points)
        idx = [p for p in points if p[0] == "i"]
        if ck.thorough:
            targets = points
        else:
            keep = {"i%d#0" % i for i in (63, 62, 46, 41, 40, 34, 33, 32, 31, 21, 20, 17, 16, 2, 1, 0)} | set(rng.sample(idx, min(6, len(idx))))
            targets = [p for p in points if p[0] == "L" or p in keep]
        binds = [("raw", 2, 2), ("raw", 21, 21), ("raw", 35, 35), ("raw", 63, 63), ("ldl", 50, 50), ("ldl", None, 32), ("dlc", 62, 62),
                 ("dlc", b"urn:nfc:sn:late", 17), ("dlc", 34, 34)]
        for target in targets:
            # steps of terminate() already made when the point is reached, in the model's order (flag, 63, 62, ...)
            before = points[:points.index(target)]
            passed = [int(p[1:].split("#")[0]) for p in before + [target] if p[0] == "i"]
            if target[0] == "i":
                k = 1 + (63 - passed[-1])
            else:
                k = 0 if not passed else 1 + (63 - passed[-1])
            for kind, spec, addr in (binds if ck.thorough else rng.sample(binds, 5) + [("raw", 63, 63)]):
                if passed and addr == passed[-1]:
                    continue            # this access point is being shut down right now
                llc = setup()
                res = {}

                def action():
                    res["flag"] = bool(getattr(llc, "terminated", False))
                    sock = nfc.llcp.Socket(llc, {"raw": RAW, "ldl": LDL, "dlc": DLC}[kind])
                    res["sock"] = sock
                    T.name_conditions(sock._tco)
                    try:
                        sock.bind(spec)
                        res["addr"] = sock.getsockname()
                        if kind == "dlc":
                            sock.listen(1)
                    except nfc.llcp.Error as e:
                        res["err"] = e.errno
                world.begin_term(target, action)
                try:
                    llc.terminate("interleaved")
                except T.Hang as h:
                    ck.fail("terminate-blocks", "terminate() waits on %s" % h.cv, {"point": target, "bind": [kind, repr(spec)]})
                    continue
                finally:
                    world.end()
                if "sock" not in res:
                    continue
                tco = res["sock"]._tco
                if res.get("err") == errno.ESHUTDOWN:
                    real = "refused"
                elif "err" in res:
                    real = "error %s" % res["err"]
                elif tco.state.SHUTDOWN and list.__getitem__(llc.sap, res["addr"]) is None:
                    real = "shutdown"
                else:
                    real = "leaked"
                rep = model.ask("latebind k=%d a=%d" % (k, addr))
                n += 1
                ck.case(("latebind", target, kind, repr(spec)), True, "L2 bind during terminate")
                replay = {"terminate_point": target, "steps_done": k, "socket": kind, "bind": repr(spec), "flag_set_at_point": res["flag"],
                          "outcome": real}
                if rep != real:
                    dis += 1
                    ck.fail("tie:terminate-steps", "model %r, implementation %r" % (rep, real), replay)
                if real == "leaked":
                    call = {"raw": res["sock"].recv, "ldl": res["sock"].recvfrom, "dlc": res["sock"].accept}[kind]
                    world.begin_term(None, None)
                    try:
                        call()
                        after = "returned"
                    except T.Hang as h:
                        after = "waits forever on " + str(h.cv).split(":")[-1]
                    except BaseException as e:  # noqa
                        after = "raised " + exc_name(e)
                    finally:
                        world.end()
                    ck.fail("late-bind-leaked", "a %s socket bound to %s by an application thread while terminate() was at %s (terminated flag %s) "
                            "is never shut down (state %s, service access point %s still open); its %s() %s"
                            % (kind, res["addr"], target, res["flag"], tco.state, res["addr"], call.__name__, after), dict(replay, call=call.__name__, after=after))
    finally:
        T.uninstall()
    ck.tie("bind() interleaved with the steps of terminate(): model vs real controller", cases=n, disagreements=dis, exhaustive=ck.thorough)


def guarded(ck, phase, fn, *args):
    """run one phase of the check; an exception that escapes from it is reported as a failing input (raised inside
    nfcpy) or as a broken correspondence (raised by the harness on behaviour it did not foresee) - the other phases
    still run"""
    import traceback
    from common import Infra
    import subprocess
    from sims import term_llc as T
    try:
        return fn(*args)
    except (Infra, subprocess.TimeoutExpired, KeyboardInterrupt, MemoryError):
        raise
    except T.Hang as h:
        # a wait() without time-out at a place where the harness runs link-thread or set-up code single-threaded
        tb = traceback.extract_tb(h.__traceback__)
        frames = ["%s:%d %s" % (os.path.basename(f.filename), f.lineno, f.name) for f in tb[-8:]]
        ck.fail("unexpected-wait-during-" + phase, "code that must not block (terminate(), socket set-up) waits on %s without "
                "time-out during the phase '%s'" % (h.cv, phase), {"phase": phase, "waits_on": str(h.cv), "frames": frames})
        return 0
    except Exception as e:  # noqa
        tb = traceback.extract_tb(e.__traceback__)
        srcdir = os.path.join(REPO, "src") + os.sep
        frames = ["%s:%d %s" % (os.path.basename(f.filename), f.lineno, f.name) for f in tb[-8:]]
        inner = tb[-1].filename if tb else ""
        if inner.startswith(srcdir):
            ck.fail("exception-in-nfcpy-during-%s-%s" % (phase, exc_name(e)),
                    "%s raised inside nfcpy (%s) while the harness ran the phase '%s': %s" % (exc_name(e), frames[-1], phase, e),
                    {"phase": phase, "exception": repr(e), "frames": frames})
        else:
            ck.fail("tie:%s-aborted" % phase, "the phase '%s' could not be completed: %s: %s" % (phase, type(e).__name__, e),
                    {"phase": phase, "exception": repr(e), "frames": frames})
        return 0


def run(ck):
    ck.rule = ("L2 cases: (abstract socket/controller state, call, script of actions at the scheduling points); the action tree of every "
               "(state, call) is enumerated to depth %d; systematic over kind x state x bound/unbound x link-terminated-before x call "
               "(with the queue / window / counter values a call reads) plus seeded random states; non-trivial = the call waits at least "
               "once or the link terminates during/before it. L3 cases: (role, cause, exchange at which the link ends, when the threads "
               "were started); non-trivial = at least one thread was blocked inside Condition.wait at that moment"
               % (4 if ck.thorough else 3))
    ck.assumptions += [
        "Python runtime: notify_all wakes every waiter, a woken thread eventually gets the lock; the link thread preempts an "
        "application thread only at lock acquisitions where that thread holds no lock (races between two plain statements, e.g. "
        "llc.close() reading socket.addr twice, are outside the explored schedules)",
        "sockets are used through nfc.llcp.Socket; states that the API cannot produce (a listening or established connection "
        "without address, a DISC in the queue of an ESTABLISHED connection, non-UI PDUs in a datagram socket) are compared with the "
        "model where it covers them but are not judged",
        "between two scheduling points of a thread the world changes only by the modelled actions (terminate, PDU queued, "
        "acknowledgement, dequeue, name resolved, notification without change)",
        "the NFC-DEP layer is a scripted MAC (subclasses of nfc.dep.Initiator/Target); connect() is the real ContactlessFrontend.connect",
    ]
    ck.trusted += ["hand-written Lean model NfcVerif.Model.Term, tied by differential runs (sims/term_llc.py Condition double)",
                   "harness/props/c09.py, harness/sims/term_llc.py"]
    t0 = time.time()
    phases = []

    def phase(name):
        nonlocal t0
        phases.append("%s %.1fs" % (name, time.time() - t0))
        t0 = time.time()
    ck.lean("NfcVerif.Props.C09", THEOREMS)
    ck.notes.append("tree under test: DataLinkConnection.close() %s unread data before it waits for the DM (probed; model variant "
                    "closeClearsRecv=%s)" % (("discards", "true") if close_clears_recv() else ("does not discard", "false")))
    if ck.thorough:
        ck.leanchecker(["NfcVerif.Props.C09"])
    model = Model("drv_c09")
    phase("L1 build+audit")
    import contextlib
    import io
    from sims import term_llc as T
    guarded(ck, "wait-structure", tie_waits, ck, model)
    T.uninstall()
    phase("L2 wait structure")
    with contextlib.redirect_stdout(io.StringIO()):      # the KeyboardInterrupt handlers of the run loops print a newline
        guarded(ck, "run-loops", tie_loops, ck, model)
        guarded(ck, "service-loops", tie_service, ck, model)
        guarded(ck, "terminate-steps", tie_latebind, ck, model)
        T.uninstall()
        phase("L2 loops/service/latebind")
        n = guarded(ck, "real-threads", oracle, ck)
        phase("L3 real threads")
    ck.notes.append("L3: %d real-thread scenarios, hard time limit %.0f s per thread" % (n, HANG_TIMEOUT))
    ck.notes.append("wall time per phase: " + ", ".join(phases))
