"""C09, part "deact": the MAC deactivation that terminate() runs BEFORE it shuts the sockets down.

LogicalLinkController.terminate() calls mac.deactivate() first; while that call has not returned no service access
point is shut down and every application thread stays blocked.  The other parts script the MAC (deactivate() is one
step); here the REAL nfc.dep.Initiator / nfc.dep.Target run on a scripted contactless frontend under a virtual clock
(sims/term_dep.py: `time` of nfc.dep and nfc.llcp.llc replaced, one tick = 1/1024 s, only an exchange or a sleep
advances it - no wall-clock dependence).

* L2: Target._deactivate / send_res_recv_req and Initiator.deactivate against NfcVerif.Model.Deact on the same peer
  script (requests of every kind with matching / foreign DID, undecodable frames, None, time-outs, transmission and
  other errors, a dead device; response times on a grid around the deadline; a first command still pending):
  outcome, END TIME and, per exchange, what was sent with which timeout are compared.
* L3a: on every such run the real code must have ended by `deadline + 2 driver latencies` (Target) resp.
  `0.1 s + latency` (Initiator) - the bound of target_deactivate_bounded / initiator_deactivate_bounded.
* L3b: the real run loop (llc.run) on the real MAC in both roles with application threads blocked in recvfrom /
  accept / connect / poll, every cause of termination that deactivates with a live peer, and peers that do not let
  go: SYMM / ATN every 100 ticks for 30 virtual seconds, every tick, slowly, RTOX for ever, chained responses for
  ever, wrong answers, silence, a proper release.  run() must come back within the bound and every thread with it.
"""
import threading
import time as _walltime

from common import Model, exc_name

LEAN_TARGETS = ["NfcVerif.Props.C09", "drv_c09"]

D = 1024            # the deactivation dialogue: time.time() + 1.0
T_INIT = 102        # Initiator.deactivate: timeout 0.1 s (floor of 102.4 ticks)
T_DISC = 512        # terminate(): exchange(DISC, timeout=0.5) as initiator
CHATTY_FOR = 30 * 1024


# ------------------------------------------------------------------------------------------------- scripts
def _mods():
    import nfc.clf
    import nfc.dep
    import nfc.llcp.llc
    from sims import term_dep as S
    return nfc, S


REQ_TOKENS = {"inf": "inf", "ack": "inf", "nak": "inf", "tox": "inf", "atn": "atn", "dsl": "dsl", "rls": "rls", "other": "other"}
BAD = ("short", "start", "length", "tiny", "code", "dslfmt", "depfmt")
PLAIN = ("none", "empty", "timeout", "tx", "comm:protocol", "comm:broken", "esc-io", "esc-rt")


def alphabet():
    toks = []
    for k in REQ_TOKENS:
        toks += [k + "1", k + "0"]
    toks += ["bad:" + b for b in BAD]
    toks += list(PLAIN)
    return toks


def model_token(tok):
    if tok[-1] in "01" and tok[:-1] in REQ_TOKENS:
        return REQ_TOKENS[tok[:-1]] + tok[-1]
    if tok.startswith("bad:"):
        return "bad"
    return {"none": "none", "empty": "none", "timeout": "timeout", "tx": "tx", "comm:protocol": "comm", "comm:broken": "comm",
            "esc-io": "esc-io", "esc-rt": "esc-rt"}[tok]


def real_event(S, tok, own_did, pni=0):
    if tok[-1] in "01" and tok[:-1] in REQ_TOKENS:
        return ("frame", S.request_frame(tok[:-1], tok[-1] == "1", own_did, pni))
    if tok.startswith("bad:"):
        return ("frame", S.BAD_FRAMES[tok[4:]])
    if tok == "none":
        return ("none",)
    if tok == "empty":
        return ("frame", bytearray())
    name = {"timeout": "timeout", "tx": "transmission", "comm:protocol": "protocol", "comm:broken": "broken", "esc-io": "io",
            "esc-rt": "runtime"}[tok]
    return ("raise", S.make_exc(name))


def canon_trace(trace):
    out = []
    for sent, t, _s, _e, _tag in trace:
        out.append("%s:%d" % ("inf" if sent == "inf:0140" else sent, t))
    return ",".join(out)


def run_target(script, lat, with_did, cmd, max_calls=4000):
    """the real Target.deactivate on the script [(token, dt)]; -> (line, elapsed, trace, exception or None)"""
    nfc, S = _mods()
    clk = S.VClock()
    own = 7 if with_did else None
    clf = S.ScriptClf(clk, [(real_event(S, tok, own), dt) for tok, dt in script], lat, max_calls=max_calls)
    with S.patched_time(clk, nfc.dep):
        mac = S.activated_target(clf, with_did)
        if cmd is None:
            mac.cmd = None
        else:
            f = real_event(S, cmd, own)[1]
            mac.cmd = bytearray(f)
        t0 = clk.ticks
        err = None
        try:
            r = mac.deactivate(data=bytearray(b"\x01\x40"))
            out = "ret" if r is None else "ret-value %r" % (r,)
        except S.Stop as e:
            out, err = "never-returns", e
        except Exception as e:  # noqa
            out, err = "exc " + exc_name(e), e
    return "%s %d %s" % (out, clk.ticks, canon_trace(clf.trace)), t0, clk.ticks - t0, clf.trace, err


def run_initiator(script, lat, release, did, max_calls=50):
    nfc, S = _mods()
    clk = S.VClock()
    clf = S.ScriptClf(clk, [], lat, role="initiator", max_calls=max_calls)
    with S.patched_time(clk, nfc.dep):
        mac = S.activated_initiator(clf, did)
        evs = []
        for tok, dt in script:
            if tok == "res-ok":
                ev = ("frame", S.frame_106a((nfc.dep.RLS_RES if release else nfc.dep.DSL_RES)(did).encode()))
            elif tok == "res-did":
                ev = ("frame", S.frame_106a((nfc.dep.RLS_RES if release else nfc.dep.DSL_RES)(9).encode()))
            elif tok == "res-dep":
                ev = ("frame", S.frame_106a(S.dep_pdu(nfc.dep.DEP_RES, 0, 0, did)))
            elif tok == "res-long":
                ev = ("frame", S.frame_106a(bytearray(b"\xD5\x09\x00\x00")))
            elif tok == "res-code":
                ev = ("frame", S.frame_106a(bytearray(b"\xD5\x06\x00")))
            elif tok == "res-short":
                ev = ("frame", bytearray(b"\xF0"))
            else:
                ev = real_event(S, tok, did)
            evs.append((ev, dt))
        clf.script = evs
        t0 = clk.ticks
        err = None
        try:
            r = mac.deactivate(release=release)
            out = "ret" if r is None else "ret-value %r" % (r,)
        except S.Stop as e:
            out, err = "never-returns", e
        except Exception as e:  # noqa
            out, err = "exc " + exc_name(e), e
    return "%s %d %s" % (out, clk.ticks, canon_trace(clf.trace)), t0, clk.ticks - t0, clf.trace, err


def model_line_target(script, lat, cmd, t0, rb):
    return "deact role=target D=%d lat=%d rb=%d renew=0 cmd=%s t0=%d script=%s" % (
        D, lat, int(rb), model_token(cmd) if cmd else "-", t0, ".".join("%s:%d" % (model_token(t), dt) for t, dt in script))


def model_line_initiator(script, lat, release, t0):
    def tok(t):
        if t.startswith("res-"):
            return "bad" if t in ("res-long", "res-code", "res-short") else "inf1"
        return model_token(t)
    return "deact role=initiator D=%d lat=%d rb=0 renew=0 tinit=%d release=%d t0=%d script=%s" % (
        D, lat, T_INIT, int(release), t0, ".".join("%s:%d" % (tok(t), dt) for t, dt in script))


def probe_retry_bounded():
    """does send_res_recv_req stop repeating an exchange after a TransmissionError once the deadline has passed?"""
    line, t0, el, tr, err = run_target([("tx", 1)] * 1500, 1, False, None, max_calls=3000)
    return el <= D + 2


def dt_grid(lat):
    return [1, 2, 100, 500, D - 1, D, D + lat, D + lat + 1]


def target_scripts(ck):
    """the neighbourhood: every event alone and every pair at the response times around the deadline, chatty peers of
    every request kind and period, histories that end in every way, random mixtures"""
    rng = ck.rng
    toks = alphabet()
    out = []
    for lat in (1, 3):
        for tok in toks:
            for dt in dt_grid(lat):
                out.append(([(tok, dt)], lat, False, None))
    cont = ("inf1", "atn1", "other1", "inf0", "tx", "ack1")
    for a in cont:                      # second event lands around the deadline
        for b in toks:
            for d1, d2 in ((1, D - 2), (1, D - 1), (1, D), (D - 1, 1), (D - 1, 2), (500, 524), (500, 523), (500, 525), (100, 100)):
                out.append(([(a, d1), (b, d2)], 1, False, None))
    # chatty initiators: legal NFC-DEP traffic for 30 virtual seconds and longer
    for kind in ("inf1", "atn1", "ack1", "nak1", "tox1", "other1", "inf0", "atn0", "dsl0", "rls0"):
        for period in (1, 7, 100, 333, D - 1, D):
            n = min(CHATTY_FOR // period + 5, 1200)
            for lat in (1, 5):
                out.append(([(kind, period)] * n, lat, rng.random() < 0.5, None))
    for period in (100, 400):           # alternating SYMM / ATN / foreign DID, then a release at every position
        base = [("inf1", period), ("atn1", period), ("inf0", period), ("other1", period)] * 4
        for cut in range(0, len(base) + 1, 1 if ck.thorough else 3):
            for last in ("rls1", "dsl1", "rls0", "timeout", "none", "bad:code", "comm:broken", "esc-io"):
                out.append((base[:cut] + [(last, period), ("tx", 1), ("inf1", 1)], 2, False, None))
    for cmd in ("inf1", "atn1", "dsl1", "rls1", "other1", "inf0", "bad:code", "bad:short"):      # a first command still pending
        for nxt in ([], [("inf1", 100)] * 15, [("rls1", 5)], [("tx", 3), ("tx", 3), ("atn1", 4)]):
            out.append((nxt, 1, cmd.endswith("1") and rng.random() < 0.5, cmd))
    # transmission errors around and after the deadline (the as-found retry loop)
    for pre in ([], [("inf1", D - 3)], [("inf1", D - 1)], [("rls1", 10)], [("dsl1", D - 1)]):
        for n in (1, 2, 5, 40):
            for dt in (1, 2, 3, 200):
                out.append((pre + [("tx", dt)] * n + [("inf1", 1)], 2, False, None))
    n_rand = 1500 if ck.thorough else 250
    for _ in range(n_rand):
        lat = rng.choice((1, 2, 7))
        n = rng.choice((1, 2, 3, 5, 8, 13, 30))
        weights = rng.choice(("chatty", "mixed"))
        script = []
        for _i in range(n):
            if weights == "chatty" and rng.random() < 0.8:
                tok = rng.choice(("inf1", "atn1", "ack1", "tx", "inf0", "other1"))
            else:
                tok = rng.choice(toks)
            script.append((tok, rng.choice((1, 2, 3, 50, 100, 300, 511, 512, 513, D - 1, D, D + 1, D + lat, D + lat + 1, 3000))))
        cmd = rng.choice((None, None, None, "inf1", "atn1", "rls1"))
        out.append((script, lat, rng.random() < 0.3, cmd))
    return out


def tie_target(ck, model, rb):
    scripts = target_scripts(ck)
    runs = []
    for script, lat, with_did, cmd in scripts:
        if cmd is not None and with_did and not cmd.startswith("bad"):
            pass
        line, t0, el, tr, err = run_target(script, lat, with_did, cmd)
        runs.append((script, lat, with_did, cmd, line, t0, el, tr, err))
    answers = model.ask_many([model_line_target(s, lat, cmd, t0, rb) for s, lat, _w, cmd, _l, t0, _e, _t, _x in runs])
    dis = 0
    for (script, lat, with_did, cmd, line, t0, el, tr, err), ans in zip(runs, answers):
        replay = {"role": "target", "script": script[:40], "script_len": len(script), "latency": lat, "with_did": with_did,
                  "pending_first_command": cmd, "ticks_per_second": 1024,
                  "how": "sims/term_dep.py: ScriptClf + VClock patched into nfc.dep; Target.deactivate(data=b'\\x01\\x40')"}
        n_tx = sum(1 for x in tr if x[4] == "TransmissionError")
        chatty = len(tr) >= 3
        ck.case(("tgt", tuple(script[:50]), len(script), lat, with_did, cmd), nontrivial=chatty or el >= D,
                bucket="deact-target:" + ("chatty" if chatty else "short"), sample={"script": script[:6], "real": line[:120]})
        # ---- L3a: the property on the real code, independent of the model
        bound = D + 2 * lat
        if line.startswith("never-returns"):
            ck.fail("deactivate-target-never-returns", "Target.deactivate() made more than %d exchanges without returning "
                    "(%d ticks of 1/1024 s after its start); terminate() never reaches the socket shutdown" % (len(tr), el), replay)
        elif el > bound:
            if n_tx and el <= bound + lat * n_tx:
                ck.fail("deactivate-unbounded-transmission-errors",
                        "Target.deactivate() returned %d ticks (1/1024 s) after its start, bound %d = 1 s + 2 driver latencies: "
                        "send_res_recv_req repeats the exchange after each of %d TransmissionErrors without looking at the deadline"
                        % (el, bound, n_tx), replay)
            else:
                ck.fail("deactivate-target-deadline-overrun",
                        "Target.deactivate() - called by terminate() before the sockets are shut down - returned %d ticks (1/1024 s) "
                        "after its start with a peer that made %d exchanges; bound %d = 1 s + 2 driver latencies"
                        % (el, len(tr), bound), replay)
        if err is not None and not line.startswith("never-returns"):
            scripted = any(t in ("esc-io", "esc-rt") for t, _ in script)
            if not scripted:
                ck.fail("exc-deactivate-target-" + exc_name(err), "Target.deactivate() raised %s: %s" % (exc_name(err), err), replay)
        # ---- L2
        if ans != line:
            dis += 1
            ck.fail("tie:deactivate-target", "model and nfc.dep.Target.deactivate disagree (outcome, end tick, sent:timeout per "
                    "exchange): model '%s' real '%s'" % (ans[:300], line[:300]), replay)
    ck.tie("Target._deactivate / send_res_recv_req under a virtual clock: outcome, end time, per-exchange (sent, timeout) vs Model.Deact",
           cases=len(runs), disagreements=dis, exhaustive=False)
    return len(runs)


def tie_initiator(ck, model):
    toks = ["res-ok", "res-did", "res-dep", "res-long", "res-code", "res-short", "timeout", "tx", "comm:protocol", "comm:broken",
            "esc-io", "esc-rt", "inf1", "rls1"]
    runs = []
    for lat in (1, 4):
        for release in (False, True):
            for did in (None, 5):
                runs.append(([], lat, release, did))
                for tok in toks:
                    for dt in (1, 50, T_INIT - 1, T_INIT, T_INIT + lat, T_INIT + lat + 1, 4000):
                        runs.append(([(tok, dt), ("res-ok", 1)], lat, release, did))
    res = [run_initiator(s, lat, rel, did) for s, lat, rel, did in runs]
    answers = model.ask_many([model_line_initiator(s, lat, rel, r[1]) for (s, lat, rel, did), r in zip(runs, res)])
    dis = 0
    for (script, lat, release, did), (line, t0, el, tr, err), ans in zip(runs, res, answers):
        replay = {"role": "initiator", "script": script, "latency": lat, "release": release, "did": did, "ticks_per_second": 1024,
                  "how": "sims/term_dep.py: ScriptClf + VClock patched into nfc.dep; Initiator.deactivate(release)"}
        ck.case(("ini", tuple(script), lat, release, did), nontrivial=bool(script), bucket="deact-initiator")
        if line.startswith("never-returns") or el > T_INIT + lat or len(tr) != 1:
            ck.fail("deactivate-initiator-overrun", "Initiator.deactivate() made %d exchanges and ended %d ticks (1/1024 s) after its "
                    "start; bound: one exchange, %d ticks" % (len(tr), el, T_INIT + lat), replay)
        if err is not None and not any(t in ("esc-io", "esc-rt") for t, _ in script):
            ck.fail("exc-deactivate-initiator-" + exc_name(err), "Initiator.deactivate() raised %s: %s" % (exc_name(err), err), replay)
        if ans != line:
            dis += 1
            ck.fail("tie:deactivate-initiator", "model and nfc.dep.Initiator.deactivate disagree: model '%s' real '%s'" % (ans, line), replay)
    ck.tie("Initiator.deactivate under a virtual clock: outcome, end time, (sent, timeout) vs Model.Deact", cases=len(runs),
           disagreements=dis, exhaustive=True)
    return len(runs)


# ------------------------------------------------------------------------------------------------- L3b: llc.run
class Worker:
    def __init__(self, name, fn):
        self.name, self.fn, self.outcome = name, fn, None
        self.thread = threading.Thread(target=self._run, name="c09-deact-" + name)
        self.thread.daemon = True

    def _run(self):
        import nfc.llcp
        try:
            self.outcome = ("returned", repr(self.fn())[:40])
        except nfc.llcp.Error as e:
            self.outcome = ("llcp-error", str(e))
        except BaseException as e:  # noqa
            self.outcome = ("other-error", "%s: %s" % (exc_name(e), e))


class LocalStop(Exception):
    """an error of the application's terminate callback (cause 'run loop error')"""


TARGET_PEERS = ("symm", "atn", "fast", "slow", "mixed", "foreign", "silent", "release", "deselect")
INITIATOR_PEERS = ("symm", "wrong-answer", "rtox", "chain", "atn-only", "nak", "silent", "garbage")
CAUSES = ("local", "keyboard-interrupt", "loop-error", "remote-disc")


class PeerInitiator:
    """the remote NFC-DEP initiator seen through clf.exchange of the local target"""

    def __init__(self, S, mode, period, disc_at=None):
        self.S, self.mode, self.period, self.disc_at = S, mode, period, disc_at
        self.pni = 0
        self.n = 0
        self.disc_seen_at = None
        self.sent_disc = False
        self.after = 0

    def __call__(self, clf, frame, t):
        S = self.S
        self.n += 1
        if frame is not None and len(frame) >= 5 and bytes(frame[2:4]) == b"\xD5\x07":
            if frame[4] >> 4 == 0:
                self.pni = (self.pni + 1) & 3
            if bytes(frame[5:]) == b"\x01\x40" and self.disc_seen_at is None:
                self.disc_seen_at = clf.clock.ticks
        ending = self.disc_seen_at is not None or self.sent_disc
        if not ending:
            if self.disc_at is not None and self.n >= self.disc_at:
                self.sent_disc = True
                self.disc_seen_at = clf.clock.ticks
                return (("frame", S.request_frame("inf", True, None, self.pni, b"\x01\x40")), 20)
            return (("frame", S.request_frame("inf", True, None, self.pni)), 20)
        if clf.clock.ticks - self.disc_seen_at > CHATTY_FOR:
            return None                 # gone at last - a loop that still runs ends here, the check cannot hang
        self.after += 1
        m = self.mode
        if m == "silent":
            return None
        if m == "release":
            return (("frame", S.request_frame("rls" if self.after > 2 else "inf", True, None, self.pni)), self.period)
        if m == "deselect":
            return (("frame", S.request_frame("dsl" if self.after > 1 else "atn", True, None, self.pni)), self.period)
        kind = {"symm": "inf", "atn": "atn", "fast": "inf", "slow": "inf", "foreign": "inf",
                "mixed": ("inf", "atn", "ack", "other", "nak")[self.after % 5]}[m]
        return (("frame", S.request_frame(kind, m != "foreign", None, self.pni)), self.period)


class PeerTarget:
    """the remote NFC-DEP target seen through clf.exchange of the local initiator"""

    def __init__(self, S, mode, period):
        self.S, self.mode, self.period = S, mode, period
        self.disc_seen_at = None
        self.after = 0

    def __call__(self, clf, frame, t):
        import nfc.dep
        S, R = self.S, nfc.dep.DEP_RES
        f = bytearray(frame or b"")
        if len(f) < 4 or f[0] != 0xF0:
            return None
        code, pfb = bytes(f[2:4]), (f[4] if len(f) > 4 else 0)
        if code == b"\xD4\x06" and pfb >> 4 in (0, 1) and bytes(f[5:]) == b"\x01\x40" and self.disc_seen_at is None:
            self.disc_seen_at = clf.clock.ticks
        if self.disc_seen_at is None:
            if code == b"\xD4\x06":
                return (("frame", S.frame_106a(S.dep_pdu(R, R.LastInformation, pfb & 3, None, None, b"\x00\x00"))), 20)
            return None
        if clf.clock.ticks - self.disc_seen_at > CHATTY_FOR:
            return None
        self.after += 1
        m, fmt, pni = self.mode, pfb >> 4, pfb & 3
        if m == "silent":
            return None
        if m == "garbage":
            return (("raise", S.make_exc("transmission")), self.period)
        if code != b"\xD4\x06":         # DSL_REQ / RLS_REQ
            if m == "symm":
                return (("frame", S.frame_106a(nfc.dep.DSL_RES(None).encode())), self.period)
            return (("frame", S.frame_106a(S.dep_pdu(R, R.LastInformation, 0, None, None, b"\x00\x00"))), self.period)
        if fmt == 8:                    # attention request
            return (("frame", S.frame_106a(S.dep_pdu(R, R.Attention, 0))), self.period)
        if m in ("symm", "wrong-answer"):
            return (("frame", S.frame_106a(S.dep_pdu(R, R.LastInformation, pni, None, None, b"\x00\x00"))), self.period)
        if m == "rtox":
            return (("frame", S.frame_106a(S.dep_pdu(R, R.TimeoutExtension, 0, None, None, b"\x3B"))), self.period)
        if m == "chain":
            return (("frame", S.frame_106a(S.dep_pdu(R, R.MoreInformation, pni, None, None, b"\x00\x00"))), self.period)
        if m == "nak":
            return (("frame", S.frame_106a(S.dep_pdu(R, R.NegativeAck, pni))), self.period)
        if m == "atn-only":
            return None                 # information requests are never answered, attention requests are
        return None


def waiters(sock, names=("recv_ready", "send_ready")):
    n = 0
    tco = getattr(sock, "_tco", None)
    for c in names:
        cv = getattr(tco, c, None)
        n += len(getattr(cv, "_waiters", ()))
    return n


def llc_scenario(ck, role, cause, mode, period, lat, start_at):
    """one run of the real llc.run() on the real MAC; -> dict of measurements"""
    nfc, S = _mods()
    import nfc.llcp
    import nfc.llcp.llc
    Initiator, Target = S.real_dep_classes()
    clk = S.VClock()
    if role == "target":
        peer = PeerInitiator(S, mode, period, disc_at=(start_at + 6) if cause == "remote-disc" else None)
    else:
        peer = PeerTarget(S, mode, period)
    clf = S.ScriptClf(clk, [], lat, role=role, max_calls=120000, on_call=peer)
    info = {"t_req": None, "parked": 0, "threads": 0}
    with S.patched_time(clk, nfc.dep, nfc.llcp.llc):
        llc = nfc.llcp.llc.LogicalLinkController(sec=False)
        if role == "target":
            atr = bytearray.fromhex(S.ATR_REQ_HEX)
            clf.listen = lambda target, timeout: nfc.clf.RemoteTarget("106A", atr_req=atr, dep_req=bytearray(b"\xD4\x06\x00\x00\x00"))
            ok = llc.activate(Target(clf))
        else:
            tg = nfc.clf.RemoteTarget("106A", atr_res=bytearray.fromhex(S.ATR_RES_HEX))
            clf.sense = lambda *a, **k: tg
            ok = llc.activate(Initiator(clf), brs=0)
        if ok is not True:
            raise RuntimeError("link activation on the scripted frontend failed")
        ldl = nfc.llcp.Socket(llc, nfc.llcp.LOGICAL_DATA_LINK)
        ldl.bind(33)
        ldl2 = nfc.llcp.Socket(llc, nfc.llcp.LOGICAL_DATA_LINK)
        ldl2.bind(34)
        srv = nfc.llcp.Socket(llc, nfc.llcp.DATA_LINK_CONNECTION)
        srv.bind(b"urn:nfc:sn:c09")
        srv.listen(1)
        cli = nfc.llcp.Socket(llc, nfc.llcp.DATA_LINK_CONNECTION)
        workers = [Worker("ldl.recvfrom", ldl.recvfrom), Worker("ldl.poll-recv", lambda: ldl2.poll("recv")),
                   Worker("dlc.accept", srv.accept), Worker("dlc.connect", lambda: cli.connect(40))]
        info["threads"] = len(workers)
        socks = [ldl, ldl2, srv, cli]
        calls = [0]

        def terminate_cb():
            calls[0] += 1
            if calls[0] == start_at:
                for w in workers:
                    w.thread.start()
                limit = _walltime.time() + 20
                while _walltime.time() < limit and sum(1 for s in socks if waiters(s)) < len(socks):
                    _walltime.sleep(0.002)
                info["parked"] = sum(1 for s in socks if waiters(s))
            if calls[0] >= start_at + 3 and cause != "remote-disc":
                info["t_req"] = clk.ticks
                if cause == "local":
                    return True
                if cause == "keyboard-interrupt":
                    raise KeyboardInterrupt()
                raise LocalStop("application error in the terminate callback")
            return False
        left = "returned"
        try:
            llc.run(terminate=terminate_cb)
        except KeyboardInterrupt:
            left = "KeyboardInterrupt"
        except LocalStop:
            left = "LocalStop"
        except S.Stop:
            left = "never-returns"
        except SystemExit:
            left = "SystemExit"
        except Exception as e:  # noqa
            left = "exc " + exc_name(e) + ": " + str(e)[:80]
        t_ret = clk.ticks
    if cause == "remote-disc":
        info["t_req"] = peer.disc_seen_at
    for w in workers:
        if w.thread.ident is not None:
            w.thread.join(15)
    info.update(left=left, t_ret=t_ret, exchanges=clf.calls, shutdown=bool(llc.link.SHUTDOWN),
                stuck=[w.name for w in workers if w.thread.ident is not None and w.thread.is_alive()],
                not_started=[w.name for w in workers if w.thread.ident is None],
                outcomes={w.name: w.outcome for w in workers},
                tail=[(x[0], x[1], x[3] - x[2], x[4]) for x in clf.trace[-6:]])
    if info["stuck"]:                   # release them, the process must be able to end
        try:
            for i in range(63, -1, -1):
                if llc.sap[i] is not None:
                    llc.sap[i].shutdown()
        except Exception:  # noqa
            pass
    return info


def llc_configs(ck):
    out = []
    periods = {"symm": (100,), "atn": (100,), "fast": (1,), "slow": (900,), "mixed": (100, 7), "foreign": (100,), "silent": (1,),
               "release": (100,), "deselect": (50,)}
    for cause in CAUSES:
        for mode in TARGET_PEERS:
            for period in periods[mode]:
                if not ck.thorough and cause in ("keyboard-interrupt", "loop-error") and mode in ("slow", "foreign", "deselect", "mixed"):
                    continue
                out.append(("target", cause, mode, period, ck.rng.choice((1, 3)), ck.rng.choice((2, 3, 5))))
    for cause in ("local", "keyboard-interrupt", "loop-error"):
        for mode in INITIATOR_PEERS:
            if not ck.thorough and cause != "local" and mode in ("nak", "garbage", "silent"):
                continue
            out.append(("initiator", cause, mode, 40, ck.rng.choice((1, 3)), ck.rng.choice((2, 3, 5))))
    if ck.thorough:
        for _ in range(40):
            role = ck.rng.choice(("target", "initiator"))
            cause = ck.rng.choice(CAUSES if role == "target" else CAUSES[:3])
            mode = ck.rng.choice(TARGET_PEERS if role == "target" else INITIATOR_PEERS)
            out.append((role, cause, mode, ck.rng.choice((1, 3, 40, 70, 100, 250, 1000)) if role == "target" else ck.rng.choice((1, 20, 40, 70)),
                        ck.rng.choice((1, 2, 6)), ck.rng.choice((2, 4, 7))))
    return out


def initiator_bound(lat, disconnect):
    """terminate() as initiator: [exchange(DISC, 0.5): the first request and at most three time-out extensions, each with
    its own 0.5 s deadline] + deactivate (0.1 s); every exchange may overrun its timeout by the driver latency"""
    b = T_INIT + lat
    if disconnect:
        b += 4 * (T_DISC + lat)
    return b


def oracle_llc(ck):
    n = 0
    for role, cause, mode, period, lat, start_at in llc_configs(ck):
        replay = {"role": role, "cause": cause, "peer": mode, "peer_response_ticks": period, "latency": lat, "threads_started_at_loop": start_at,
                  "ticks_per_second": 1024, "how": "props/c09_deact.py llc_scenario(): real llc.run() on real nfc.dep.%s, sims/term_dep.py "
                  "ScriptClf + VClock patched into nfc.dep and nfc.llcp.llc" % role.capitalize()}
        try:
            r = llc_scenario(ck, role, cause, mode, period, lat, start_at)
        except Exception as e:  # noqa
            ck.fail("exc-deact-scenario-%s-%s" % (role, exc_name(e)), "the scenario could not be run: %s: %s" % (exc_name(e), e), replay)
            continue
        n += 1
        replay["measured"] = {k: r[k] for k in ("left", "t_req", "t_ret", "exchanges", "stuck", "tail", "parked")}
        ck.case(("llc", role, cause, mode, period, lat, start_at), nontrivial=r["parked"] > 0, bucket="deact-llc:" + role,
                sample={"role": role, "cause": cause, "peer": mode, "ticks_to_return": (r["t_ret"] - r["t_req"]) if r["t_req"] else None})
        if r["t_req"] is None:
            ck.fail("tie:deact-scenario-no-termination", "the scenario never reached the termination request (left: %s)" % r["left"], replay)
            continue
        el = r["t_ret"] - r["t_req"]
        if role == "target":
            bound = D + 2 * lat + (20 + lat if cause == "remote-disc" else 0)      # remote DISC: measured from the peer's request
        else:
            bound = initiator_bound(lat, cause in ("local", "keyboard-interrupt")) + 4
        expect = {"local": ("returned",), "keyboard-interrupt": ("KeyboardInterrupt",), "loop-error": ("LocalStop",),
                  "remote-disc": ("returned",)}[cause]
        if r["left"] == "never-returns":
            ck.fail("terminate-%s-blocked-by-chatty-peer:%s" % (role, mode), "llc.run() as %s made more than %d exchanges after the termination "
                    "request (%s) without returning; peer: %s" % (role, r["exchanges"], cause, mode), replay)
        elif el > bound:
            ck.fail("terminate-%s-blocked-by-chatty-peer:%s" % (role, mode),
                    "llc.run() as NFC-DEP %s returned %d ticks (1/1024 s) after the termination request (%s); bound %d. The peer (%s, one "
                    "response per %d ticks) kept mac.deactivate()/the DISC exchange busy, the service access points were not shut down and %d "
                    "blocked application threads were not released in the meantime" % (role, el, cause, bound, mode, period, r["parked"]), replay)
        if r["left"] not in expect and r["left"] != "never-returns":
            ck.fail("terminate-%s-left-by-%s" % (role, r["left"].split(":")[0].replace(" ", "-")),
                    "llc.run() (%s, peer %s) ended with '%s', expected %s" % (cause, mode, r["left"], "/".join(expect)), replay)
        if not r["shutdown"] and r["left"] != "never-returns":
            ck.fail("terminate-%s-no-shutdown" % role, "llc.run() ended (%s) but link.SHUTDOWN is not set" % r["left"], replay)
        for name in r["stuck"]:
            ck.fail("hang-after-deactivate-" + name, "%s is still blocked 15 s after llc.run() ended (%s, %s, peer %s)"
                    % (name, role, cause, mode), replay)
        for name, oc in sorted(r["outcomes"].items()):
            if oc is not None and oc[0] == "other-error":
                ck.fail("exc-after-deactivate-%s-%s" % (name, oc[1].split(":")[0]), "%s ended with %s (%s, %s, peer %s)"
                        % (name, oc[1], role, cause, mode), replay)
    return n


# ------------------------------------------------------------------------------------------------- entry
def run_part(ck):
    from props.c09 import guarded
    nfc, S = _mods()
    S.real_dep_classes()
    ck.rule += (" | part deact: (role, peer script of exchange outcomes with response times, driver latency, DID, pending first command) "
                "for the real nfc.dep deactivate under a virtual clock - every single event and pair on a grid of response times around "
                "the deadline, chatty peers of every request kind and period for 30 virtual seconds, histories ending in every way, "
                "seeded random mixtures; non-trivial = at least three exchanges or the deadline reached. (role, cause, peer behaviour, "
                "period, latency) for the real llc.run() with four blocked application threads; non-trivial = threads were parked")
    ck.assumptions += [
        "driver contract: clf.exchange(frame, timeout) returns or raises at most one driver latency after its timeout (as sims/term_dep.py "
        "ScriptClf and Model.Deact.xchg implement it); nfc.dep and nfc.llcp.llc read the time only through the module attribute `time`",
    ]
    ck.trusted += ["hand-written Lean model NfcVerif.Model.Deact, tied by differential runs (sims/term_dep.py virtual clock, scripted frontend)",
                   "harness/props/c09_deact.py, harness/sims/term_dep.py"]
    t0 = _walltime.time()
    model = Model("drv_c09")
    rb = probe_retry_bounded()
    ck.notes.append("part deact: tree under test %s repeating an exchange after a TransmissionError once the deadline has passed (probed; "
                    "model variant retryBounded=%s)" % (("stops", "true") if rb else ("does not stop", "false")))
    n1 = guarded(ck, "deactivation-target", tie_target, ck, model, rb)
    n2 = guarded(ck, "deactivation-initiator", tie_initiator, ck, model)
    t1 = _walltime.time()
    n3 = guarded(ck, "deactivation-llc", oracle_llc, ck)
    S.real_dep_classes()
    ck.notes.append("part deact: %s target scripts, %s initiator scripts vs Model.Deact (%.1fs); %s runs of the real llc.run() with a peer "
                    "that does not let go (%.1fs)" % (n1, n2, t1 - t0, n3, _walltime.time() - t1))
