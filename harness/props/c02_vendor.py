"""C02, part vendor - the product classes the property's anchors name besides the generic ones.

* nfc.tag.tt2_nxp (Mifare Ultralight / C / EV1, NTAG203, NTAG21x, NTAG I2C): they reuse Type2Tag.NDEF and the
  Type 2 memory reader.  Tie: on every product (real memory size, factory control TLVs) the ordered write commands and
  the fresh reader's view after EVERY cut point equal the model's (`drv_t12`, the writer `t12_cut_safe` speaks about);
  oracle: old / empty / not readable / no NDEF / new after every cut.
* nfc.tag.tt3_sony FeliCa Lite / Lite-S: NDEF I/O goes through read_without_mac / write_without_mac or, after
  authenticate(), read_with_mac / (Lite-S) write_with_mac - one block per command with a MAC_A block attached.  The
  WriteF protocol must survive: histories of assignments through ONE tag object with a fault (command lost /
  executed but unacknowledged) on every Write command, in all four modes (Lite, Lite authenticated, Lite-S, Lite-S
  mutually authenticated); tie: outcome, the blocks the card accepted (in order, system blocks included) and the view
  after every attempt equal the Type 3 history model (`drv_c02 h3`, theorems t3_history_cut_safe / t3_retry_cut_safe);
  oracle as for Type 3.  The card is sims/auth_felica.LiteTag (written from the user manuals for check C20).
"""
import copy

from common import Model, hx, exc_name
from sims import t34_lib as T

LEAN_TARGETS = ["drv_t12", "drv_c02"]

GOOD = ("O", "E", "N", "U", "W")


def run_part(ck):
    ck.rule += (" | vendor: NXP Type 2 products x layouts (factory control TLVs, NULL TLV padding, old message in either "
                "length format) x messages {0, 1, 254, 255, 300, capacity} x every cut point (quick tier: one message per product, cut points sampled above 16; thorough: above 80); FeliCa Lite / "
                "Lite-S x {plain, authenticated} x messages {1, 17, 40, 208} x fault (lost | late) on every Write command x "
                "follow-up assignment (same | empty | other | longer), sampled second faults")
    ck.trusted += ["harness/sims/c01_vendor.py (product probes in front of the Type 2 simulator), harness/sims/auth_felica.py "
                   "(FeliCa Lite / Lite-S card written from the user manuals), fault hook of harness/props/c02_vendor.py"]
    for name, fn in (("t2-vendor", nxp_cuts), ("felica-lite", lite_histories)):
        try:
            fn(ck)
        except Exception as e:  # noqa  nfcpy returned / raised something the oracle code did not foresee
            from common import Infra
            if isinstance(e, Infra):
                raise
            import traceback
            ck.fail(name + "-unexpected-behaviour", "the exploration ended with %s: %s"
                    % (exc_name(e), traceback.format_exc().strip().split("\n")[-3:]), {"seed": ck.seed})


# ---------------------------------------------------------------------------------------------- tt2_nxp
def nxp_cuts(ck):
    from sims.c01_vendor import PRODUCTS, VT2, vendor_layout, with_old
    from sims.t12_run import read_line, show_cmds, classify
    import nfc.tag
    rng = ck.rng
    model = Model("drv_t12")
    jobs = []
    for pi, product in enumerate(PRODUCTS):
        name = product[0]
        for rep in range(3 if ck.thorough else 1):
            lay = None
            for _ in range(30):
                lay = vendor_layout(rng, product, nulls=rng.randrange(0, 4))
                if lay["ok"]:
                    lay = with_old(rng, lay, rng.choice([0, 5, 254, 255, 300]))
                    if lay is not None:
                        break
            if lay is None or not lay.get("ok"):
                continue
            base = bytes(lay["mem"])
            free = lay["free"]
            cap = free - (4 if free > 256 else 2)
            lens = sorted(set(n for n in [0, 1, 254, 255, 300, cap] if 0 <= n <= cap))
            if not ck.thorough:   # one message per product: short ones and 3-byte length fields alternate
                big = [n for n in lens if n >= 255 and n <= 300] or [lens[-1]]
                lens = [rng.choice(big)] if (pi + ck.seed) % 2 else [rng.choice(lens[:3])]
            for n in lens:
                data = bytes(rng.randrange(1, 256) for _ in range(n))
                replay = {"product": name, "memory": base.hex(), "data": data.hex(),
                          "request": "w t2 %s %s 1" % (hx(base), hx(data))}
                sim = VT2(base, product)
                before, tag, nd = read_line("t2", sim)
                if type(tag).__name__ != name or nd is None:
                    ck.fail("t2-vendor-wellformed-layout-not-read", "%s: activated as %s, ndef %s"
                            % (name, type(tag).__name__, before[:60]), replay)
                    continue
                old = bytes(nd.octets)
                off = nd._ndef_tlv_offset
                sim.arm(None)
                try:
                    nd.octets = data
                    wrote = "ok"
                except Exception as e:  # noqa
                    wrote = "exc " + exc_name(e)
                cmds = list(sim.writes)
                after = read_line("t2", VT2(bytes(sim.mem), product))[0]
                ncmd = len(cmds)
                classes = []
                ks = list(range(ncmd + 1))
                sampled = ncmd > (80 if ck.thorough else 16)
                if sampled:
                    ks = sorted(set([0, 1, 2, ncmd - 2, ncmd - 1, ncmd] + rng.sample(range(ncmd + 1), 40 if ck.thorough else 8)))
                for k in ks:
                    s = VT2(base, product)
                    d = nfc.tag.activate(s, s.target()).ndef
                    s.arm(k)
                    try:
                        d.octets = data
                    except nfc.tag.TagCommandError:
                        pass
                    except Exception as e:  # noqa
                        if k < ncmd or wrote == "ok":
                            ck.fail("t12-interrupted-write-raises", "%s: cut after command %d: the write raised %s instead "
                                    "of a TagCommandError" % (name, k, exc_name(e)), dict(replay, cut=k))
                    cl = classify("t2", VT2(bytes(s.mem), product), old, data)
                    classes.append((k, cl))
                    straddle = n >= 255 and (off + 1) // 4 != (off + 3) // 4
                    ck.case(("vendor", name, base, data, k), 0 < k < ncmd,
                            "vendor:%s:%s" % (name, "straddle" if straddle else "aligned"))
                    if cl not in GOOD:
                        key = ("t12-torn-length-field" if straddle else "t12-cut-corrupt-message" if cl[0] == "C"
                               else "t12-cut-reader-raises")
                        ck.fail(key, "%s: NDEF TLV at %d, old %d bytes, new %d bytes, power cut after write command %d of %d: "
                                "a fresh reader sees %s" % (name, off, len(old), n, k, ncmd, cl), dict(replay, cut=k))
                line = "%s | %s | %s | %s" % (before, wrote, show_cmds(cmds), after)
                jobs.append((replay["request"], line, dict(classes), not sampled, replay))
    replies = model.ask_many([j[0] for j in jobs])
    dis = ncase = 0
    for (req, line, classes, full, replay), rep in zip(jobs, replies):
        parts = rep.split(" | ")
        mcl = parts[-1].split(" ") if len(parts) == 5 else []
        ok = " | ".join(parts[:4]) == line and all(k < len(mcl) and mcl[k] == cl for k, cl in classes.items())
        ok = ok and (not full or len(mcl) == len(classes))
        ncase += len(classes)
        if not ok:
            dis += 1
            ck.fail("tie:t2-vendor-cut-model-vs-nfcpy", "%s: model %r, implementation %r %r"
                    % (replay["product"], rep[-300:], line[-200:], sorted(classes.items())[-6:]),
                    dict(replay, model=rep[:3000], impl=line[:3000]))
    ck.tie("Tlv model vs tt2_nxp product classes: write command order and the reader's view after every cut point",
           cases=ncase, disagreements=dis, exhaustive=False)


# ---------------------------------------------------------------------------------------------- tt3_sony
class LinkFault(object):
    """transit hook of auth_felica.Air: Write command number k (0-based, counted from begin()) fails - `lost`: it and
    its retransmissions do not reach the card; `late`: the card executes it, the answer and the retransmissions are
    lost.  The card stays in the field."""
    MAX_RETRANSMISSIONS = 12

    def __init__(self):
        self.begin(None)

    def begin(self, fault):
        self.fault = fault
        self.nw = 0
        self.frame = None
        self.rep = 0
        self.drop_rsp = None
        self.triggered = False

    def __call__(self, direction, index, frame):
        if direction == "c":
            if self.frame is not None:
                if frame == self.frame and self.rep < self.MAX_RETRANSMISSIONS:
                    self.rep += 1
                    return None
                self.frame = None
                self.fault = None
            if self.fault is not None and len(frame) > 10 and frame[1] == 0x08:
                k, mode = self.fault
                if self.nw == k:
                    self.triggered = True
                    self.frame = frame
                    if mode == "late":
                        self.drop_rsp = index
                        return frame
                    return None
                self.nw += 1
            return frame
        if self.drop_rsp == index:
            self.drop_rsp = None
            return None
        return frame


LITE_KEY = bytes(range(0x21, 0x31))
LITE_MODES = (("FelicaLite", False, False), ("FelicaLite", False, True), ("FelicaLiteS", True, False), ("FelicaLiteS", True, True))


def lite_image(card):
    return b"".join(bytes(card.b[n]) for n in range(15))


class LiteHist(object):
    """attempts through ONE tt3_sony tag object on a LiteTag card; canonical line as printed by `drv_c02 h3`"""

    def __init__(self, lite_s, auth, old, attempts, nbr=4):
        from sims import auth_felica as F
        import nfc.tag
        self.lite_s, self.auth, self.attempts = lite_s, auth, [(bytes(d), f) for d, f in attempts]
        card = F.LiteTag(F.key_block(LITE_KEY), lite_s=lite_s)
        F.store_ndef(card.b, old, nbr=nbr, nbw=1, nmaxb=13)
        card.b = {k: bytearray(v) for k, v in card.b.items()}
        self.card = card
        self.base = lite_image(card)
        self.hook = LinkFault()
        self.air, self.tag = F.activate(card, self.hook, ndef_system=True)
        self.cls = type(self.tag).__name__
        self.authenticated = self.tag.authenticate(LITE_KEY) if auth else None
        self.results, self.triggered, self.views, self.cmds = [], [], [], []
        nd = self.tag.ndef
        self.nd = nd
        if nd is None:
            self.line = "none"
            return
        self.old, self.cap = bytes(nd.octets), nd.capacity
        parts = []
        for data, fault in self.attempts:
            n0 = len(card.log)
            self.hook.begin(fault)
            try:
                nd.octets = data
                res = "ok"
            except nfc.tag.TagCommandError:
                res = "fail"
            except Exception as e:  # noqa
                res = "exc " + exc_name(e)
            trig = self.hook.triggered
            self.hook.begin(None)
            cmds = ",".join("%d+1:%s" % (n, hx(d)) for n, d in card.log[n0:]) or "-"
            fresh = copy.deepcopy(card)
            fresh.log = []
            try:
                _, t2 = F.activate(fresh, None, ndef_system=True)
                nd2 = t2.ndef
                view = (T.seen_line(nd2), None if nd2 is None else bytes(nd2.octets))
            except Exception as e:  # noqa
                view = ("exc " + exc_name(e), None)
            self.results.append(res)
            self.triggered.append(trig)
            self.cmds.append(cmds)
            self.views.append(view)
            parts.append("%s %s %s" % (res, cmds, view[0]))
        self.line = " | ".join(parts)

    def request(self):
        att = ",".join("%s:%s" % (hx(d), "n" if f is None else "%s%d" % ({"lost": "l", "late": "e"}[f[1]], f[0]))
                       for d, f in self.attempts)
        return "h3 %s %s" % (hx(self.base), att)

    def replay(self):
        return {"product": self.cls, "authenticated": self.authenticated, "blocks_0_to_14": self.base.hex(),
                "attempts": [{"octets": d.hex(), "fault": None if f is None else {"write_command": f[0], "mode": f[1]},
                              "result": r, "card_accepted": c, "fresh_reader_sees": v[0][:160]}
                             for (d, f), r, c, v in zip(self.attempts, self.results, self.cmds, self.views)]}


def judge_lite(ck, h):
    before = h.old
    name = "%s%s" % (h.cls, " (authenticated)" if h.auth else "")
    for i, ((data, fault), res, view) in enumerate(zip(h.attempts, h.results, h.views)):
        where = "%s: %s" % (name, "; ".join("attempt %d: %d octets, %s -> %s" % (j, len(d), "no fault" if f is None else
                                            "write %d %s" % f, r) for j, ((d, f), r) in enumerate(zip(h.attempts, h.results))))
        trig = fault is not None and h.triggered[i]
        if trig and res == "ok":
            ck.fail("t3-failed-command-not-reported", where + ": attempt %d returned normally" % i, h.replay())
            return
        if res.startswith("exc") or (not trig and res != "ok"):
            ck.fail("t3-retry-raises", where + ": attempt %d ended %s" % (i, res), h.replay())
            return
        cls = T.classify(view[0], before if before is not None else b"\x00impossible", data)
        if cls == "raises":
            ck.fail("t3-cut-reader-raises", where + ": after attempt %d a fresh reader raises %s" % (i, view[0]), h.replay())
            return
        if cls == "corrupt" or (res == "ok" and cls != "new"):
            ck.fail("felica-lite-history-corrupt", where + ": after attempt %d a fresh reader sees %s - neither what was there "
                    "before the attempt, nor no NDEF / not readable / empty, nor the octets of the attempt" % (i, view[0][:90]),
                    h.replay())
            return
        before = view[1] if cls not in ("none", "not-readable") else None


def lite_histories(ck):
    rng = ck.rng
    model = Model("drv_c02")
    hs = []

    def add(h, bucket):
        hs.append(h)
        if h.nd is None:
            ck.fail("felica-lite-wellformed-layout-not-read", "%s: activation finds no NDEF" % h.cls, h.replay())
            return
        ck.case(("lite", h.lite_s, h.auth, h.base, tuple(h.attempts)), any(h.triggered), bucket)
        judge_lite(ck, h)

    for cls, lite_s, auth in LITE_MODES:
        bucket = "lite:%s%s" % (cls, ":auth" if auth else "")
        old = T.rbytes(rng, rng.choice([0, 12, 16, 100, 208]), 1)
        probe = LiteHist(lite_s, auth, old, [])
        if probe.cls != cls or (auth and probe.authenticated is not True):
            ck.fail("felica-lite-not-activated", "%s: activated as %s, authenticate -> %s" % (cls, probe.cls, probe.authenticated),
                    probe.replay())
            continue
        lens = [1, 17, 40, 208] if ck.thorough else [rng.choice([1, 17]), rng.choice([40, 208])]
        for n1 in lens:
            d1 = T.rbytes(rng, n1, 1)
            clean = LiteHist(lite_s, auth, old, [(d1, None)])
            add(clean, bucket + ":clean")
            if clean.results != ["ok"]:
                continue
            ncmd = clean.cmds[0].count(",") + 1
            pool = [d1, b"", bytes((b + 1) & 255 or 1 for b in d1), T.rbytes(rng, min(208, n1 + 16), 1), old]
            for k in range(ncmd):
                for mi, mode in enumerate(("lost", "late")):
                    if not ck.thorough and ncmd > 6 and (k + mi) % 2 and 1 < k < ncmd - 2:
                        continue
                    d2 = pool[(k + mi) % len(pool)]
                    add(LiteHist(lite_s, auth, old, [(d1, (k, mode)), (d2, None)]), bucket + ":1-fault:" + mode)
                    if (k + mi) % 3 == 0:
                        add(LiteHist(lite_s, auth, old, [(d1, (k, mode)), (d2, (rng.randrange(0, 3), rng.choice(("lost", "late")))),
                                                         (rng.choice(pool), None)]), bucket + ":2-faults")
    replies = model.ask_many([h.request() for h in hs])
    dis = 0
    for h, r in zip(hs, replies):
        if r != h.line:
            dis += 1
            ck.fail("tie:felica-lite-history-model-vs-nfcpy", "%s%s: model %r, implementation %r"
                    % (h.cls, " (authenticated)" if h.auth else "", r[-300:], h.line[-300:]),
                    dict(h.replay(), request=h.request(), model=r[:3000], impl=h.line[:3000]))
    ck.tie("Type 3 history model vs tt3_sony FeliCa Lite / Lite-S (plain and authenticated: write_with_mac): outcome, blocks "
           "accepted by the card and the fresh reader's view after every attempt", len(hs), dis, False)
