"""C02, part vendor - the product classes the property's anchors name besides the generic ones.

* nfc.tag.tt2_nxp (Mifare Ultralight / C / EV1, NTAG203, NTAG21x, NTAG I2C): they reuse Type2Tag.NDEF and the
  Type 2 memory reader.  Tie: on every product (real memory size, factory control TLVs) the ordered write commands and
  the fresh reader's view after EVERY cut point equal the model's (`drv_t12`, the writer `t12_cut_safe` speaks about);
  oracle: old / empty / not readable / no NDEF / new after every cut.
* nfc.tag.tt3_sony FeliCa Lite / Lite-S: NDEF I/O goes through read_without_mac / write_without_mac or, after
  authenticate(), read_with_mac / (Lite-S) write_with_mac - one block per command with a MAC_A block attached.  The
  WriteF protocol must survive: histories of assignments through ONE tag object with a fault (command lost /
  executed but unacknowledged) on every Write command, in all four modes (Lite, Lite authenticated, Lite-S, Lite-S
  mutually authenticated); tie: outcome, the blocks the card accepted (in order, system blocks included) and the view
  after every attempt equal the Type 3 history model (`drv_c02 h3`, theorems t3_history_cut_safe / t3_retry_cut_safe);
  oracle as for Type 3.  The card is sims/auth_felica.LiteTag (written from the user manuals for check C20).
* READER side of the WriteF protocol in the classes that override `_read_attribute_data` (FelicaLite.NDEF,
  FelicaLiteS.NDEF) and those that inherit it (FelicaStandard, FelicaMobile, FelicaPlug): L1 theorems of
  NfcVerif.Props.C02Vendor (`t3_vendor_cut_safe`: every cut point, every product, plain AND authenticated reader, every
  memory configuration); L2 `drv_c02 v3` = `T3V.seeV` against the real classes on the card image after a power cut at
  EVERY Write command, read plain / after authenticate() / after a failed authenticate(), with MC_SP_REG_ALL_RW,
  MC_SP_REG_R_RESTR, Nbr and WriteF varied on the reader side; L3 old / empty / not readable / none / new.
* NXP `_read_capability_data` overrides (MifareUltralightC, NTAG21x): authenticated and plain readers of every cut image
  with CC access nibbles varied (`nxp_reader_states`).
"""
import copy

from common import Model, hx, exc_name
from sims import t34_lib as T

LEAN_TARGETS = ["NfcVerif.Props.C02Vendor", "drv_t12", "drv_c02"]

THEOREMS = [
    "NfcVerif.C02Vendor.t3_vendor_cut_safe",
    "NfcVerif.C02Vendor.t3_vendor_view_refines_generic",
    "NfcVerif.C02Vendor.t3_vendor_writeflag_respected",
    "NfcVerif.C02Vendor.t3_vendor_answered",
    "NfcVerif.C02Vendor.t3_vendor_history_cut_safe",
    "NfcVerif.C02Vendor.t4_cached_reader_is_fresh",
    "NfcVerif.C02Vendor.t4_cached_reader_cut_safe",
]

GOOD = ("O", "E", "N", "U", "W")

_MODELS = {}


def shared_model(exe):
    """one driver build per executable and check run (every Model() regenerates Gen/ and calls lake under the lock)"""
    if exe not in _MODELS:
        _MODELS[exe] = Model(exe)
    return _MODELS[exe]


def run_part(ck):
    ck.rule += (" | vendor: NXP Type 2 products x layouts (factory control TLVs, NULL TLV padding, old message in either "
                "length format) x messages {0, 1, 254, 255, 300, capacity} x every cut point (quick tier: one message per product, cut points sampled above 16; thorough: above 80); FeliCa Lite / "
                "Lite-S x {plain, authenticated} x messages {1, 17, 40, 208} x fault (lost | late) on every Write command x "
                "follow-up assignment (same | empty | other | longer), sampled second faults; vendor readers: FeliCa Lite / "
                "Lite-S x 3 (quick) / 24 (thorough) old/new length pairs x attribute Nbr 1..4 x power cut after EVERY Write command x "
                "reader {plain, authenticated} on the card as issued + sampled {plain, authenticated, failed authentication} x "
                "MC_SP_REG_ALL_RW x MC_SP_REG_R_RESTR x Nbr {0,1,3,4,5,15,16,255} on the reader side, at the first / last cut "
                "the MC values the Lite-S override distinguishes; IC codes of FelicaStandard / Mobile / Plug / Link / unknown on "
                "Type 3 memories of every geometry x cuts x Nbr / WriteF variations; NXP products x every cut x CC byte 3 "
                "{issued, 88h, 80h, 08h, F0h} x {plain, authenticated}; non-trivial = 0 < k < number of commands")
    ck.trusted += ["harness/sims/c01_vendor.py (product probes in front of the Type 2 simulator), harness/sims/auth_felica.py "
                   "(FeliCa Lite / Lite-S card written from the user manuals), fault and power-cut hooks of harness/props/c02_vendor.py",
                   "hand-written Lean model NfcVerif.Model.T3Vendor (vendor overrides of _read_attribute_data, card read limits) tied "
                   "by differential runs (drv_c02 v3)"]
    ck.assumptions += [
        "vendor readers: the MAC of an authentic card verifies; FeliCa Lite / Lite-S attribute blocks have Nbw = 1; the "
        "authenticated NXP reader is the state authenticate() leaves (the Type 2 simulator has no PWD_AUTH / 3DES)"]
    ck.lean("NfcVerif.Props.C02Vendor", THEOREMS)
    if ck.thorough:
        ck.leanchecker(["NfcVerif.Props.C02Vendor"])
    for name, fn in (("t2-vendor", nxp_cuts), ("felica-lite", lite_histories), ("felica-lite-reader", lite_reader_cuts),
                     ("t3-vendor-reader", generic_reader_cuts), ("t2-vendor-reader", nxp_reader_states)):
        try:
            fn(ck)
        except Exception as e:  # noqa  nfcpy returned / raised something the oracle code did not foresee
            from common import Infra
            if isinstance(e, Infra):
                raise
            import traceback
            ck.fail(name + "-unexpected-behaviour", "the exploration ended with %s: %s"
                    % (exc_name(e), traceback.format_exc().strip().split("\n")[-3:]), {"seed": ck.seed})


# ---------------------------------------------------------------------------------------------- tt2_nxp
def nxp_cuts(ck):
    from sims.c01_vendor import PRODUCTS, VT2, vendor_layout, with_old
    from sims.t12_run import read_line, show_cmds, classify
    import nfc.tag
    rng = ck.rng
    model = shared_model("drv_t12")
    jobs = []
    for pi, product in enumerate(PRODUCTS):
        name = product[0]
        for rep in range(3 if ck.thorough else 1):
            lay = None
            for _ in range(30):
                lay = vendor_layout(rng, product, nulls=rng.randrange(0, 4))
                if lay["ok"]:
                    lay = with_old(rng, lay, rng.choice([0, 5, 254, 255, 300]))
                    if lay is not None:
                        break
            if lay is None or not lay.get("ok"):
                continue
            base = bytes(lay["mem"])
            free = lay["free"]
            cap = free - (4 if free > 256 else 2)
            lens = sorted(set(n for n in [0, 1, 254, 255, 300, cap] if 0 <= n <= cap))
            if not ck.thorough:   # one message per product: short ones and 3-byte length fields alternate
                big = [n for n in lens if n >= 255 and n <= 300] or [lens[-1]]
                lens = [rng.choice(big)] if (pi + ck.seed) % 2 else [rng.choice(lens[:3])]
            for n in lens:
                data = bytes(rng.randrange(1, 256) for _ in range(n))
                replay = {"product": name, "memory": base.hex(), "data": data.hex(),
                          "request": "w t2 %s %s 1" % (hx(base), hx(data))}
                sim = VT2(base, product)
                before, tag, nd = read_line("t2", sim)
                if type(tag).__name__ != name or nd is None:
                    ck.fail("t2-vendor-wellformed-layout-not-read", "%s: activated as %s, ndef %s"
                            % (name, type(tag).__name__, before[:60]), replay)
                    continue
                old = bytes(nd.octets)
                off = nd._ndef_tlv_offset
                sim.arm(None)
                try:
                    nd.octets = data
                    wrote = "ok"
                except Exception as e:  # noqa
                    wrote = "exc " + exc_name(e)
                cmds = list(sim.writes)
                after = read_line("t2", VT2(bytes(sim.mem), product))[0]
                ncmd = len(cmds)
                classes = []
                ks = list(range(ncmd + 1))
                sampled = ncmd > (80 if ck.thorough else 16)
                if sampled:
                    ks = sorted(set([0, 1, 2, ncmd - 2, ncmd - 1, ncmd] + rng.sample(range(ncmd + 1), 40 if ck.thorough else 8)))
                for k in ks:
                    s = VT2(base, product)
                    d = nfc.tag.activate(s, s.target()).ndef
                    s.arm(k)
                    try:
                        d.octets = data
                    except nfc.tag.TagCommandError:
                        pass
                    except Exception as e:  # noqa
                        if k < ncmd or wrote == "ok":
                            ck.fail("t12-interrupted-write-raises", "%s: cut after command %d: the write raised %s instead "
                                    "of a TagCommandError" % (name, k, exc_name(e)), dict(replay, cut=k))
                    cl = classify("t2", VT2(bytes(s.mem), product), old, data)
                    classes.append((k, cl))
                    straddle = n >= 255 and (off + 1) // 4 != (off + 3) // 4
                    ck.case(("vendor", name, base, data, k), 0 < k < ncmd,
                            "vendor:%s:%s" % (name, "straddle" if straddle else "aligned"))
                    if cl not in GOOD:
                        key = ("t12-torn-length-field" if straddle else "t12-cut-corrupt-message" if cl[0] == "C"
                               else "t12-cut-reader-raises")
                        ck.fail(key, "%s: NDEF TLV at %d, old %d bytes, new %d bytes, power cut after write command %d of %d: "
                                "a fresh reader sees %s" % (name, off, len(old), n, k, ncmd, cl), dict(replay, cut=k))
                line = "%s | %s | %s | %s" % (before, wrote, show_cmds(cmds), after)
                jobs.append((replay["request"], line, dict(classes), not sampled, replay))
    replies = model.ask_many([j[0] for j in jobs])
    dis = ncase = 0
    for (req, line, classes, full, replay), rep in zip(jobs, replies):
        parts = rep.split(" | ")
        mcl = parts[-1].split(" ") if len(parts) == 5 else []
        ok = " | ".join(parts[:4]) == line and all(k < len(mcl) and mcl[k] == cl for k, cl in classes.items())
        ok = ok and (not full or len(mcl) == len(classes))
        ncase += len(classes)
        if not ok:
            dis += 1
            ck.fail("tie:t2-vendor-cut-model-vs-nfcpy", "%s: model %r, implementation %r %r"
                    % (replay["product"], rep[-300:], line[-200:], sorted(classes.items())[-6:]),
                    dict(replay, model=rep[:3000], impl=line[:3000]))
    ck.tie("Tlv model vs tt2_nxp product classes: write command order and the reader's view after every cut point",
           cases=ncase, disagreements=dis, exhaustive=False)


# ---------------------------------------------------------------------------------------------- tt3_sony
class LinkFault(object):
    """transit hook of auth_felica.Air: Write command number k (0-based, counted from begin()) fails - `lost`: it and
    its retransmissions do not reach the card; `late`: the card executes it, the answer and the retransmissions are
    lost.  The card stays in the field."""
    MAX_RETRANSMISSIONS = 12

    def __init__(self):
        self.begin(None)

    def begin(self, fault):
        self.fault = fault
        self.nw = 0
        self.frame = None
        self.rep = 0
        self.drop_rsp = None
        self.triggered = False

    def __call__(self, direction, index, frame):
        if direction == "c":
            if self.frame is not None:
                if frame == self.frame and self.rep < self.MAX_RETRANSMISSIONS:
                    self.rep += 1
                    return None
                self.frame = None
                self.fault = None
            if self.fault is not None and len(frame) > 10 and frame[1] == 0x08:
                k, mode = self.fault
                if self.nw == k:
                    self.triggered = True
                    self.frame = frame
                    if mode == "late":
                        self.drop_rsp = index
                        return frame
                    return None
                self.nw += 1
            return frame
        if self.drop_rsp == index:
            self.drop_rsp = None
            return None
        return frame


LITE_KEY = bytes(range(0x21, 0x31))
LITE_MODES = (("FelicaLite", False, False), ("FelicaLite", False, True), ("FelicaLiteS", True, False), ("FelicaLiteS", True, True))


def lite_image(card):
    return b"".join(bytes(card.b[n]) for n in range(15))


class LiteHist(object):
    """attempts through ONE tt3_sony tag object on a LiteTag card; canonical line as printed by `drv_c02 h3`"""

    def __init__(self, lite_s, auth, old, attempts, nbr=4):
        from sims import auth_felica as F
        import nfc.tag
        self.lite_s, self.auth, self.attempts = lite_s, auth, [(bytes(d), f) for d, f in attempts]
        card = F.LiteTag(F.key_block(LITE_KEY), lite_s=lite_s)
        F.store_ndef(card.b, old, nbr=nbr, nbw=1, nmaxb=13)
        card.b = {k: bytearray(v) for k, v in card.b.items()}
        self.card = card
        self.base = lite_image(card)
        self.hook = LinkFault()
        self.air, self.tag = F.activate(card, self.hook, ndef_system=True)
        self.cls = type(self.tag).__name__
        self.authenticated = self.tag.authenticate(LITE_KEY) if auth else None
        self.results, self.triggered, self.views, self.cmds = [], [], [], []
        nd = self.tag.ndef
        self.nd = nd
        if nd is None:
            self.line = "none"
            return
        self.old, self.cap = bytes(nd.octets), nd.capacity
        parts = []
        for data, fault in self.attempts:
            n0 = len(card.log)
            self.hook.begin(fault)
            try:
                nd.octets = data
                res = "ok"
            except nfc.tag.TagCommandError:
                res = "fail"
            except Exception as e:  # noqa
                res = "exc " + exc_name(e)
            trig = self.hook.triggered
            self.hook.begin(None)
            cmds = ",".join("%d+1:%s" % (n, hx(d)) for n, d in card.log[n0:]) or "-"
            fresh = copy.deepcopy(card)
            fresh.log = []
            try:
                _, t2 = F.activate(fresh, None, ndef_system=True)
                nd2 = t2.ndef
                view = (T.seen_line(nd2), None if nd2 is None else bytes(nd2.octets))
            except Exception as e:  # noqa
                view = ("exc " + exc_name(e), None)
            self.results.append(res)
            self.triggered.append(trig)
            self.cmds.append(cmds)
            self.views.append(view)
            parts.append("%s %s %s" % (res, cmds, view[0]))
        self.line = " | ".join(parts)

    def request(self):
        att = ",".join("%s:%s" % (hx(d), "n" if f is None else "%s%d" % ({"lost": "l", "late": "e"}[f[1]], f[0]))
                       for d, f in self.attempts)
        return "h3 %s %s" % (hx(self.base), att)

    def replay(self):
        return {"product": self.cls, "authenticated": self.authenticated, "blocks_0_to_14": self.base.hex(),
                "attempts": [{"octets": d.hex(), "fault": None if f is None else {"write_command": f[0], "mode": f[1]},
                              "result": r, "card_accepted": c, "fresh_reader_sees": v[0][:160]}
                             for (d, f), r, c, v in zip(self.attempts, self.results, self.cmds, self.views)]}


def judge_lite(ck, h):
    before = h.old
    name = "%s%s" % (h.cls, " (authenticated)" if h.auth else "")
    for i, ((data, fault), res, view) in enumerate(zip(h.attempts, h.results, h.views)):
        where = "%s: %s" % (name, "; ".join("attempt %d: %d octets, %s -> %s" % (j, len(d), "no fault" if f is None else
                                            "write %d %s" % f, r) for j, ((d, f), r) in enumerate(zip(h.attempts, h.results))))
        trig = fault is not None and h.triggered[i]
        if trig and res == "ok":
            ck.fail("t3-failed-command-not-reported", where + ": attempt %d returned normally" % i, h.replay())
            return
        if res.startswith("exc") or (not trig and res != "ok"):
            ck.fail("t3-retry-raises", where + ": attempt %d ended %s" % (i, res), h.replay())
            return
        cls = T.classify(view[0], before if before is not None else b"\x00impossible", data)
        if cls == "raises":
            ck.fail("t3-cut-reader-raises", where + ": after attempt %d a fresh reader raises %s" % (i, view[0]), h.replay())
            return
        if cls == "corrupt" or (res == "ok" and cls != "new"):
            ck.fail("felica-lite-history-corrupt", where + ": after attempt %d a fresh reader sees %s - neither what was there "
                    "before the attempt, nor no NDEF / not readable / empty, nor the octets of the attempt" % (i, view[0][:90]),
                    h.replay())
            return
        before = view[1] if cls not in ("none", "not-readable") else None


def lite_histories(ck):
    rng = ck.rng
    model = shared_model("drv_c02")
    hs = []

    def add(h, bucket):
        hs.append(h)
        if h.nd is None:
            ck.fail("felica-lite-wellformed-layout-not-read", "%s: activation finds no NDEF" % h.cls, h.replay())
            return
        ck.case(("lite", h.lite_s, h.auth, h.base, tuple(h.attempts)), any(h.triggered), bucket)
        judge_lite(ck, h)

    for cls, lite_s, auth in LITE_MODES:
        bucket = "lite:%s%s" % (cls, ":auth" if auth else "")
        old = T.rbytes(rng, rng.choice([0, 12, 16, 100, 208]), 1)
        probe = LiteHist(lite_s, auth, old, [])
        if probe.cls != cls or (auth and probe.authenticated is not True):
            ck.fail("felica-lite-not-activated", "%s: activated as %s, authenticate -> %s" % (cls, probe.cls, probe.authenticated),
                    probe.replay())
            continue
        lens = [1, 17, 40, 208] if ck.thorough else [rng.choice([1, 17]), rng.choice([40, 208])]
        for n1 in lens:
            d1 = T.rbytes(rng, n1, 1)
            clean = LiteHist(lite_s, auth, old, [(d1, None)])
            add(clean, bucket + ":clean")
            if clean.results != ["ok"]:
                continue
            ncmd = clean.cmds[0].count(",") + 1
            pool = [d1, b"", bytes((b + 1) & 255 or 1 for b in d1), T.rbytes(rng, min(208, n1 + 16), 1), old]
            for k in range(ncmd):
                for mi, mode in enumerate(("lost", "late")):
                    if not ck.thorough and ncmd > 6 and (k + mi) % 2 and 1 < k < ncmd - 2:
                        continue
                    d2 = pool[(k + mi) % len(pool)]
                    add(LiteHist(lite_s, auth, old, [(d1, (k, mode)), (d2, None)]), bucket + ":1-fault:" + mode)
                    if (k + mi) % 3 == 0:
                        add(LiteHist(lite_s, auth, old, [(d1, (k, mode)), (d2, (rng.randrange(0, 3), rng.choice(("lost", "late")))),
                                                         (rng.choice(pool), None)]), bucket + ":2-faults")
    replies = model.ask_many([h.request() for h in hs])
    dis = 0
    for h, r in zip(hs, replies):
        if r != h.line:
            dis += 1
            ck.fail("tie:felica-lite-history-model-vs-nfcpy", "%s%s: model %r, implementation %r"
                    % (h.cls, " (authenticated)" if h.auth else "", r[-300:], h.line[-300:]),
                    dict(h.replay(), request=h.request(), model=r[:3000], impl=h.line[:3000]))
    ck.tie("Type 3 history model vs tt3_sony FeliCa Lite / Lite-S (plain and authenticated: write_with_mac): outcome, blocks "
           "accepted by the card and the fresh reader's view after every attempt", len(hs), dis, False)


# ---------------------------------------------------------------------------------------------- vendor readers
class PowerCut(object):
    """transit hook of auth_felica.Air: the card leaves the field after it accepted `k` Write commands counted from
    begin(k): every later frame is lost"""

    def __init__(self):
        self.k = None
        self.nw = 0

    def begin(self, k):
        self.k, self.nw = k, 0

    def __call__(self, direction, index, frame):
        if direction != "c" or self.k is None:
            return frame
        if self.nw >= self.k:
            return None
        if len(frame) > 10 and frame[1] == 0x08:
            if self.nw >= self.k:
                return None
            self.nw += 1
        return frame


WRONG_KEY = bytes(range(0x51, 0x61))
READER_STATES = ("plain", "auth", "wrong-key")


def lite_card(lite_s, old, nbr):
    from sims import auth_felica as F
    card = F.LiteTag(F.key_block(LITE_KEY), lite_s=lite_s)
    F.store_ndef(card.b, old, nbr=nbr, nbw=1, nmaxb=13)
    card.b = {k: bytearray(v) for k, v in card.b.items()}
    return card


def power_cycled(card, mc_rw=None, mc_rd=None, nbr=None):
    """the card as a fresh reader finds it: volatile state (challenge, external authentication) gone; `mc_rw` /
    `mc_rd`: the memory configuration the card was issued with, `nbr`: the Nbr value its attribute block was issued
    with (reader-side variations: the writer copies Nbr and never looks at MC)"""
    c = copy.deepcopy(card)
    c.log = []
    c.rc_written, c.ext_auth = False, 0
    c.b[0x80] = bytearray(16)
    if mc_rw is not None:
        c.b[0x88][0:2] = mc_rw.to_bytes(2, "little")
    if mc_rd is not None:
        c.b[0x88][6:8] = mc_rd.to_bytes(2, "little")
    if nbr is not None:
        a = c.b[0]
        a[1] = nbr
        a[14:16] = sum(a[0:14]).to_bytes(2, "big")
    return c


def lite_reader(card, state):
    """a fresh reader of `card` in `state` -> (canonical view line, octets | None, model's auth flag)"""
    from sims import auth_felica as F
    try:
        _, t = F.activate(card, None, ndef_system=True)
        if state == "auth":
            if t.authenticate(LITE_KEY) is not True:
                return "exc AuthenticationFailed", None, True
        elif state == "wrong-key":
            if t.authenticate(WRONG_KEY) is not False:
                return "exc WrongKeyAccepted", None, False
        nd = t.ndef
        return T.seen_line(nd), (None if nd is None else bytes(nd.octets)), state == "auth"
    except Exception as e:  # noqa
        return "exc " + exc_name(e), None, state == "auth"


def reader_replay(cls, state, image, mc_rw, mc_rd, **more):
    d = {"product": cls, "reader": {"plain": "tag.ndef", "auth": "tag.authenticate(card key) is True; tag.ndef",
                                    "wrong-key": "tag.authenticate(other key) is False; tag.ndef"}[state],
         "blocks_0_to_14": image.hex(), "MC_SP_REG_ALL_RW": "%04X" % mc_rw, "MC_SP_REG_R_RESTR": "%04X" % mc_rd}
    d.update(more)
    return d


def lite_reader_cuts(ck):
    """reader side of the WriteF protocol in FelicaLite.NDEF / FelicaLiteS.NDEF._read_attribute_data: the card is
    pulled out after EVERY Write command of an assignment; the image is read by fresh readers in every authentication
    state the class supports.  Oracle: old / empty / not readable / no NDEF / new; a complete write is read back by
    every reader that may read; tie: every view equals `T3V.seeV` (`drv_c02 v3`)."""
    import nfc.tag
    from sims import auth_felica as F
    rng = ck.rng
    model = shared_model("drv_c02")
    jobs = []
    for cls, lite_s in (("FelicaLite", False), ("FelicaLiteS", True)):
        pairs = [(o, n) for o in (0, 5, 16, 40, 100, 208) for n in (0, 3, 16, 17, 33, 90, 150, 208)]
        pairs = rng.sample(pairs, 24) if ck.thorough else [(rng.choice([5, 16, 40]), rng.choice([17, 33])), (rng.choice([100, 208]), rng.choice([3, 16, 90])),
                                           (rng.choice([0, 40, 208]), rng.choice([0, 150, 208]))]
        for pi, (no, nn) in enumerate(pairs):
            old, new = T.rbytes(rng, no, 1), T.rbytes(rng, nn, 1)
            nbr = rng.choice([1, 2, 3, 4, 4]) if (ck.thorough and pi % 3 == 2) or pi > 1 else 4
            hook = PowerCut()
            # the undisturbed write, plain and (sampled) authenticated writer: the blocks the card accepted
            logs = {}
            for wauth in ((False, True) if (ck.thorough or pi == 0) else (False,)):
                card = lite_card(lite_s, old, nbr)
                _, tag = F.activate(card, hook, ndef_system=True)
                rep = reader_replay(cls, "auth" if wauth else "plain", lite_image(card), 0xFFFF, 0, old=old.hex(), new=new.hex())
                if type(tag).__name__ != cls or (wauth and tag.authenticate(LITE_KEY) is not True):
                    ck.fail("felica-lite-not-activated", "%s: activated as %s" % (cls, type(tag).__name__), rep)
                    continue
                nd = tag.ndef
                if nd is None or bytes(nd.octets) != old:
                    ck.fail("felica-lite-wellformed-layout-not-read", "%s, Nbr %d: the %s writer does not find the old "
                            "message of %d octets" % (cls, nbr, "authenticated" if wauth else "plain", no), rep)
                    continue
                n0 = len(card.log)
                try:
                    nd.octets = new
                except Exception as e:  # noqa
                    ck.fail("t3-retry-raises", "%s: undisturbed write of %d octets raised %s" % (cls, nn, exc_name(e)), rep)
                    continue
                logs[wauth] = card.log[n0:]
            if False not in logs:
                continue
            if True in logs and logs[True] != logs[False]:
                ck.fail("felica-lite-authenticated-writer-differs", "%s: the card accepted other blocks from the authenticated "
                        "writer than from the plain one" % cls, {"plain": [(n, d.hex()) for n, d in logs[False]],
                                                                 "authenticated": [(n, d.hex()) for n, d in logs[True]]})
            total = len(logs[False])
            for k in range(total + 1):
                card = lite_card(lite_s, old, nbr)
                _, tag = F.activate(card, hook, ndef_system=True)
                nd = tag.ndef
                hook.begin(k)
                try:
                    nd.octets = new
                    res = "ok"
                except nfc.tag.TagCommandError:
                    res = "fail"
                except Exception as e:  # noqa
                    res = "exc " + exc_name(e)
                hook.begin(None)
                if res != ("fail" if k < total else "ok") or card.log != logs[False][:k]:
                    ck.fail("t3-cut-not-reported", "%s: card pulled out after Write command %d of %d: the assignment ended %s, "
                            "the card accepted %d commands" % (cls, k, total, res, len(card.log)),
                            reader_replay(cls, "plain", lite_image(lite_card(lite_s, old, nbr)), 0xFFFF, 0, new=new.hex(), cut=k))
                # readers: both states on the card as issued; a sampled other memory configuration
                variants = [("plain", 0xFFFF, 0, nbr), ("auth", 0xFFFF, 0, nbr)]
                for _ in range(2 if ck.thorough else 1):
                    variants.append((rng.choice(READER_STATES), rng.choice([0xFFFF, 0x03FF, 0x83FF, 0x01FF, 0x0001, 0x7FFE]),
                                     rng.choice([0, 0, 0x0001, 0x3FFE, 0x7FFF, 1 << rng.randrange(15)]) if lite_s else 0,
                                     rng.choice([nbr, nbr, 0, 1, 3, 4, 5, 15, 16, 255])))
                if not ck.thorough and 1 < k < total - 1 and (k + pi) % 2:
                    variants = variants[1:]
                if lite_s and k in (0, 1, total):     # the MC bits the Lite-S override looks at, and some it must not look at
                    variants += [("auth", rw, 0, nbr) for rw in ((0x03FF, 0x01FF, 0xFDFF, 0x83FF) if k != 1 else (0x02FF,))]
                    variants += [("plain", 0x01FF, rd, nbr) for rd in ((0x0001, 0x0002) if k != 1 else (0x4000,))]
                for state, mc_rw, mc_rd, rnbr in variants:
                    img = power_cycled(card, mc_rw, mc_rd, rnbr)
                    image = lite_image(img)
                    line, octets, mauth = lite_reader(img, state)
                    rep = reader_replay(cls, state, image, mc_rw, mc_rd, old=old.hex(), new=new.hex(), cut_after_write_command=k,
                                        write_commands=total, attribute_nbr=rnbr)
                    jobs.append(("v3 %s %d %d %d %s" % ("s" if lite_s else "l", int(mauth), mc_rw, mc_rd, hx(image)), line, rep))
                    cl = T.classify(line, old, new)
                    who = {"plain": "a plain reader", "auth": "a reader that called tag.authenticate()",
                           "wrong-key": "a reader whose tag.authenticate() failed"}[state]
                    where = ("%s (Nbr %d, MC_SP_REG_ALL_RW %04Xh, R_RESTR %04Xh), old %d octets, new %d octets, card pulled out "
                             "after Write command %d of %d: %s " % (cls, rnbr, mc_rw, mc_rd, no, nn, k, total, who))
                    ck.case(("lite-reader", lite_s, state, mc_rw, mc_rd, image), 0 < k < total,
                            "lite-reader:%s:%s:%s" % (cls, state, cl),
                            sample={"product": cls, "reader": state, "cut": k, "of": total, "sees": cl}
                            if state == "auth" and 1 < k < total and len(ck.samples) < 8 else None)
                    nblk = ((nn if k == total else no) + 15) // 16
                    blocked = (rnbr == 0 or (not mauth and min(rnbr, 15, nblk) > 4)
                               or (lite_s and not mauth and mc_rd & ((1 << (nblk + 1)) - 1)))
                    if cl == "raises":
                        ck.fail("felica-lite-cut-reader-raises", where + "raises %s" % line[4:], rep)
                    elif cl == "corrupt":
                        ck.fail("felica-lite-cut-corrupt-%s-reader" % ("authenticated" if state == "auth" else "plain"),
                                where + "sees ndef.is_readable == True and %s - neither the previous, an empty, a not readable "
                                "nor the complete new message" % line[3:120], rep)
                    elif k in (0, total) and not blocked and cl not in (("new",) if k else ("old", "new")):
                        ck.fail("felica-lite-message-not-read-back", where + "sees %s instead of the %s message"
                                % (line[3:80], "new" if k else "old"), rep)
    T.compare(ck, model, jobs, "felica-lite-reader-model-vs-nfcpy")


GENERIC_PRODUCTS = ((0x01, "FelicaStandard"), (0x20, "FelicaStandard"), (0x06, "FelicaMobile"), (0x14, "FelicaMobile"),
                    (0xE0, "FelicaPlug"), (0xE1, "FelicaPlug"), (0xF2, "FelicaLiteS"), (0xAA, "Type3Tag"), (0xF0, "FelicaLite"))


def product_sim(ic, mem, nbr, nbw, cut=None):
    """sims/t34_sims.T3Sim answering the polling with IC code `ic` (nfc.tag.tt3_sony.activate picks the class by it)"""
    import nfc.clf
    from sims import t34_sims as S

    class PSim(S.T3Sim):
        pmm = bytes([0, ic]) + S.PMM[2:]

        def target(self):
            return nfc.clf.RemoteTarget("212F", sensf_res=bytearray(b"\x01" + S.IDM + self.pmm + b"\x12\xFC"))

        def activate(self):
            import nfc.tag.tt3
            return nfc.tag.tt3.activate(self, self.target())

        def exchange(self, cmd, timeout):
            if not self.dead and len(cmd) == cmd[0] and cmd[1] == 0:
                rsp = S.IDM + self.pmm + (b"\x12\xFC" if cmd[4] == 1 else b"")
                return bytearray([2 + len(rsp), 1]) + rsp
            return S.T3Sim.exchange(self, cmd, timeout)

    return PSim(mem, 4 if ic in (0xF0, 0xF1, 0xF2) else max(nbr, 15), nbw, cut)


def generic_reader_cuts(ck):
    """the product classes WITHOUT an override (FelicaStandard, FelicaMobile, FelicaPlug, plain Type3Tag) and the
    FeliCa Link in Lite-S mode on plain Type 3 memory (every geometry, not only the 13 blocks of a Lite): every cut of a
    write, fresh reader of the same class; views equal `T3V.seeV` and are old / empty / not readable / none / new"""
    import nfc.tag
    rng = ck.rng
    model = shared_model("drv_c02")
    jobs = []
    lays = [lay for lay in T.gen_t3(rng, 40 if ck.thorough else 9, ck.thorough, big=False) if lay.nbw < 13]
    for i, lay in enumerate(lays):
        ic, cls = GENERIC_PRODUCTS[i % len(GENERIC_PRODUCTS)]
        letter = "l" if cls == "FelicaLite" else "s" if cls == "FelicaLiteS" else "g"
        if letter != "g" and lay.nbw != 1:     # write_without_mac / write_with_mac take ONE block: Nbw = 1 (assumed, as format() writes)
            lay = T.L3(lay.nbr, 1, lay.nmaxb, lay.old, lay.mem)
        new = T.rbytes(rng, min(lay.cap, rng.choice([0, 1, 16, 17, lay.cap, rng.randrange(lay.cap + 1)])), 1)
        rep0 = {"product": cls, "ic_code": ic, "layout": lay.descr(), "data": new.hex()}
        sim = product_sim(ic, lay.mem, lay.nbr, lay.nbw)
        tag = sim.activate()
        if type(tag).__name__ != cls:
            ck.fail("t3-vendor-not-activated", "IC code %02Xh activated as %s" % (ic, type(tag).__name__), rep0)
            continue
        run = T.SetRun(product_sim(ic, lay.mem, lay.nbr, lay.nbw), new)
        if run.res != "ok":
            if not (letter != "g" and lay.nbr > 4):
                ck.fail("t3-retry-raises", "%s: undisturbed write of %d octets ended %s" % (cls, len(new), run.res or run.line), rep0)
            continue
        total = len(run.sim.writes)
        for k in ([0, total] + pick(rng, total, 30 if ck.thorough else 6)):
            sim = product_sim(ic, lay.mem, lay.nbr, lay.nbw, cut=k)
            r = T.SetRun(sim, new)
            if k < total and not (r.res or "").startswith("exc TagCommandError"):
                ck.fail("t3-cut-not-reported", "%s: write interrupted at %d ended %s" % (cls, k, r.res), dict(rep0, cut_after=k))
            for rnbr in ([lay.nbr] + ([rng.choice([0, 1, 15, 16, 255, -1, -0xF0, -0xFF])] if (k + i) % 3 == 0 else [])):
                mem = bytearray(sim.mem)
                if rnbr < 0:       # another value of WriteF than the writer's 00h / 0Fh: any non-zero value means "in progress"
                    mem[9] = -rnbr
                    rnbr = lay.nbr
                    new_flag = True
                else:
                    new_flag = False
                    mem[1] = rnbr
                mem[14:16] = sum(mem[0:14]).to_bytes(2, "big")
                mem = bytes(mem)
                line, _ = T.see(product_sim(ic, mem, 15, lay.nbw))
                rep = dict(rep0, cut_after=k, commands=total, memory_after_cut=mem.hex(), attribute_nbr=rnbr)
                jobs.append(("v3 %s 0 65535 0 %s" % (letter, hx(mem)), line, rep))
                cl = T.classify(line, lay.old, new)
                ck.case(("generic-reader", ic, mem), 0 < k < total, "t3-reader:%s:%s" % (cls, cl))
                if cl in ("corrupt", "raises"):
                    ck.fail("t3-vendor-cut-" + cl, "%s (IC code %02Xh), Nbr %d, old %d octets, new %d octets, cut after command %d "
                            "of %d: a fresh reader sees %s" % (cls, ic, rnbr, len(lay.old), len(new), k, total, line[:100]), rep)
                elif new_flag and cl not in ("not-readable", "none"):
                    ck.fail("t3-vendor-writeflag-ignored", "%s: WriteF = %02Xh in a valid attribute block, the reader reports %s"
                            % (cls, mem[9], line[:60]), rep)
                elif k in (0, total) and not new_flag and rnbr and (letter == "g" or min(rnbr, 15) <= 4) \
                        and cl not in (("new",) if k else ("old", "new")):
                    ck.fail("t3-vendor-message-not-read-back", "%s: %s message not read back: %s"
                            % (cls, "new" if k else "old", line[:100]), rep)
    T.compare(ck, model, jobs, "t3-vendor-reader-model-vs-nfcpy")


def pick(rng, total, limit):
    ks = list(range(1, total))
    return ks if len(ks) <= limit else sorted(rng.sample(ks, limit))


def nxp_reader_states(ck):
    """reader side in MifareUltralightC.NDEF / NTAG21x.NDEF._read_capability_data: after authenticate() the access
    nibbles 8h of CC byte 3 ("password protected") count as readable / writeable.  The flags are a function of (base
    result, authenticated?, CC byte 3, lock bytes) - they must never change WHICH message is seen: on the memory left
    by every cut of a write, with CC byte 3 as issued / 88h / 80h / 08h / F0h, a plain and an authenticated reader
    see what the plain reader of the issued card sees, or 'not readable' exactly when the function says so.
    (The simulator has no PWD_AUTH / 3DES: the authenticated state is the attribute authenticate() sets; the
    authentication itself is property C20.)"""
    from sims.c01_vendor import PRODUCTS, VT2, vendor_layout, with_old
    import nfc.tag
    import nfc.tag.tt2
    rng = ck.rng

    def view(mem, product, auth):
        try:
            s = VT2(bytes(mem), product)
            tag = nfc.tag.activate(s, s.target())
            tag._authenticated = auth
            nd = tag.ndef
            if nd is None:
                return "N", None, type(tag)
            return ("R" if nd.is_readable else "U") + ("W" if nd.is_writeable else "-"), bytes(nd.octets), type(tag)
        except Exception as e:  # noqa
            return "X" + exc_name(e), None, None

    n = 0
    for pi, product in enumerate(PRODUCTS):
        name = product[0]
        lay = None
        for _ in range(30):
            lay = vendor_layout(rng, product, nulls=rng.randrange(0, 4))
            if lay["ok"]:
                lay = with_old(rng, lay, rng.choice([0, 5, 40]))
                if lay is not None:
                    break
        if lay is None or not lay.get("ok"):
            continue
        base = bytes(lay["mem"])
        s0 = VT2(base, product)
        tag = nfc.tag.activate(s0, s0.target())
        overrides = type(tag).NDEF._read_capability_data is not nfc.tag.tt2.Type2Tag.NDEF._read_capability_data
        if not overrides and not ck.thorough and pi % 3:
            continue
        nd = tag.ndef
        if nd is None:
            continue
        old = bytes(nd.octets)
        cap = nd.capacity
        data = bytes(rng.randrange(1, 256) for _ in range(min(cap, rng.choice([0, 3, 17, 30]))))
        s0.arm(None)
        try:
            nd.octets = data
        except Exception as e:  # noqa
            ck.fail("t12-retry-raises", "%s: undisturbed write raised %s" % (name, exc_name(e)), {"product": name, "memory": base.hex(), "data": data.hex()})
            continue
        ncmd = len(s0.writes)
        ks = list(range(ncmd + 1)) if ncmd <= 14 or ck.thorough else sorted(set([0, 1, 2, ncmd - 2, ncmd - 1, ncmd] + rng.sample(range(ncmd + 1), 6)))
        for k in ks:
            s = VT2(base, product)
            d = nfc.tag.activate(s, s.target()).ndef
            s.arm(k)
            try:
                d.octets = data
            except Exception:  # noqa  (judged by nxp_cuts)
                pass
            img = bytearray(s.mem)
            ref = view(img, product, False)
            for cc3 in (img[15], 0x88, 0x80, 0x08, 0xF0):
                for auth in (False, True):
                    m = bytearray(img)
                    m[15] = cc3
                    flags, octets, cls = view(m, product, auth)
                    n += 1
                    eff = auth and overrides
                    rd = cc3 >> 4 == 0 or (eff and cc3 >> 4 == 8)
                    wr = cc3 & 15 == 0 or (eff and cc3 & 15 == 8 and bytes(m[10:12]) == b"\0\0")
                    want = ref[0] if ref[0][0] in "NX" else ("R" if rd else "U") + ("W" if wr else "-")
                    rep = {"product": name, "memory_after_cut": bytes(m).hex(), "cc_byte_3": "%02X" % cc3, "cut": k, "commands": ncmd,
                           "reader": "tag.ndef after authenticate()" if auth else "tag.ndef", "old": old.hex(), "new": data.hex()}
                    ck.case(("nxp-reader", name, bytes(m), auth), 0 < k < ncmd,
                            "nxp-reader:%s:%s:%s" % ("override" if overrides else "base", "auth" if auth else "plain", flags[:1]))
                    if flags[0] == "X":
                        ck.fail("t12-cut-reader-raises", "%s, CC byte 3 = %02Xh, cut after command %d of %d: the %s reader raises %s"
                                % (name, cc3, k, ncmd, "authenticated" if auth else "plain", flags[1:]), rep)
                    elif octets is not None and flags[0] == "R" and octets not in (old, b"", data):
                        ck.fail("t2-vendor-cut-corrupt-%s-reader" % ("authenticated" if auth else "plain"),
                                "%s, CC byte 3 = %02Xh, old %d octets, new %d octets, cut after command %d of %d: the reader sees a "
                                "readable message of %d octets that is neither" % (name, cc3, len(old), len(data), k, ncmd, len(octets)), rep)
                    elif flags != want or octets != ref[1]:
                        ck.fail("t2-vendor-reader-state-changes-view", "%s, CC byte 3 = %02Xh, cut after command %d of %d: the %s reader "
                                "reports %s / %s octets, expected %s / %s octets (what the plain reader of the issued card sees, flags "
                                "from CC byte 3)" % (name, cc3, k, ncmd, "authenticated" if auth else "plain", flags,
                                                     None if octets is None else len(octets), want, None if ref[1] is None else len(ref[1])), rep)
    ck.notes.append("vendor: %d reads of cut images by plain / authenticated NXP readers with CC access variations" % n)
