"""C09, part "races": the link terminates between two PLAIN statements of a socket call.

The other parts give a thread up only at lock acquisitions and waits (the model's scheduling points).  The socket
API reads shared state - socket.addr, llc.sap[...], socket.state - in unlocked statements before it takes a lock.
Here every source line of nfc/llcp/llc.py, socket.py and tco.py that an application thread executes while it
holds no lock is a scheduling point as well (sims/term_lines.py, sys.settrace inside the thread); the enumeration
of schedules with one preemption therefore lets the link thread run terminate() in front of every such line of
every call, for every kind of socket in every state the API can produce.  With two application threads (thorough
tier) the second thread's whole call is placed at every line of the first one, too.

Judged on the real objects only (the model treats the unlocked prologue of a call as one step): after the link has
ended every thread has ended, with a value or nfc.llcp.Error.
"""
import os

from common import exc_name, Infra, REPO
from props.c09 import STATES, base_state, calls_for
from props import c09_multi as M


def _files():
    return [os.path.join(REPO, "src", "nfc", "llcp", f) for f in ("llc.py", "socket.py", "tco.py")]


class LineExec(M.Exec):
    @staticmethod
    def make_sched():
        from sims import term_lines as L
        return L.LineSched(_files())


def run_lines(st, calls, script, prefix):
    ex = LineExec(st, calls, script)
    try:
        end = ex.sched.run(prefix, max_steps=1500)
        return {"end": end, "decisions": list(ex.sched.decisions), "choices": list(ex.sched.choices),
                "threads": [(list(t.trace), ex.outcome(t), list(t.lines)) for t in ex.app], "link": ex.outcome(ex.link),
                "term_calls": ex.term_calls}
    finally:
        ex.close()


def race_configs(ck):
    """(state, calls): every call on every kind of socket in every state the API can produce"""
    out = []
    for k in ("raw", "ldl", "dlc"):
        for st in (STATES if k == "dlc" else ("ESTABLISHED", "SHUTDOWN")):
            for variant in ("R", "U", "C"):
                if variant == "U" and k == "dlc" and st not in ("CLOSED", "SHUTDOWN"):
                    continue            # a connection in these states has an address
                if variant == "C" and st != "SHUTDOWN":
                    continue            # closed by the application: SHUTDOWN, keeps its address
                if variant != "C" and st == "SHUTDOWN" and k != "dlc":
                    continue
                for call in calls_for(k):
                    if call == "connect" and k == "raw":
                        continue        # RawAccessPoint has no connect()
                    opts = [dict()]
                    if call.startswith("send:0") and k == "dlc" and st == "ESTABLISHED":
                        opts = [dict(win=(1, 0, 0)), dict(win=(1, 1, 0))]
                    if call == "recv" and st in ("ESTABLISHED", "CLOSE_WAIT", "LISTEN"):
                        opts = [dict(), dict(rq=("I",) if k == "dlc" else ("UI",))]
                    if call == "accept" and st == "LISTEN":
                        opts = [dict(), dict(rq=("CONNECT",))]
                    for o in opts:
                        out.append((base_state(k, st, variant, **o), [call]))
    if ck.thorough:
        pairs = [("dlc", "ESTABLISHED", ["recv", "close", "send:0:1", "poll:recv:0", "poll:acks:0"]),
                 ("dlc", "LISTEN", ["accept", "close"]), ("dlc", "CLOSED", ["connect", "close", "bind", "listen"]),
                 ("ldl", "ESTABLISHED", ["recv", "close", "send:0:1", "poll:recv:0"]),
                 ("raw", "ESTABLISHED", ["recv", "close", "send:0:1"])]
        for k, st, calls in pairs:
            for a in calls:
                for b in calls:
                    out.append((base_state(k, st, "U" if st == "CLOSED" else "R"), [a, b]))
    return out


def tie_races(ck):
    from sims import term_sched as S
    nexec = nlines = 0
    limit = 1200 if ck.thorough else 250
    for st, calls in race_configs(ck):
        seen_lines = set()

        def execute(prefix, st=st, calls=calls, seen_lines=seen_lines):
            nonlocal nexec
            try:
                r = run_lines(st, calls, ["T"], prefix)
            except Infra:
                raise
            except Exception as e:  # noqa
                ck.fail("terminate-blocks" if isinstance(e, S.SetupBlocks) else
                        "races-%s" % ("block-outside-locks" if isinstance(e, S.OutsideBlock) else "setup-raises-" + exc_name(e)),
                        "thread(s) %s on a %s socket in state %s with preemption at every line: %s" % (calls, st["k"], st["st"], e),
                        {"state": st, "calls": calls, "decisions": list(prefix), "exception": repr(e)})
                return []
            nexec += 1
            link_at = r["decisions"].index(len(calls)) if len(calls) in r["decisions"] else None
            replay = {"state": st, "calls": calls, "link_script": ["T"], "decisions": r["decisions"],
                      "threads": [{"call": c, "lines_passed_without_lock": ["%s:%d" % l for l in ls], "scheduling_points": tr,
                                   "outcome": o} for c, (tr, o, ls) in zip(calls, r["threads"])],
                      "terminate_runs_at_decision": link_at}
            if r["end"] != "quiescent":
                ck.fail("races-livelock", "threads %s still running after %d steps" % (calls, len(r["decisions"])), replay)
                return r["choices"]
            if r["link"] != "ok none":
                ck.fail("terminate-blocks", "the link thread did not finish terminate(): %s" % r["link"], replay)
            for i, (call, (tr, out, ls)) in enumerate(zip(calls, r["threads"])):
                seen_lines.update(ls)
                c0 = call.split(":")[0]
                # where the thread stood when the link ended: the last line it had passed before the link thread ran
                mine = [j for j, d in enumerate(r["decisions"][:link_at]) if d == i] if link_at is not None else []
                at = ("%s:%d" % ls[len(mine) - 1]) if mine and len(mine) <= len(ls) else "before its first line"
                if out.startswith("stuck"):
                    ck.fail("hang-racing-terminate-%s.%s" % (st["k"], c0),
                            "%s() of a %s socket (state %s) never returns when the link terminates while the thread stands at %s: %s"
                            % (c0, st["k"], st["st"], at, out), dict(replay, thread=i, thread_stood_at=at))
                elif out.startswith("exc") and not out.startswith("exc llcp.Error") and out != "exc ConnectRefused" \
                        and M._reachable(st):
                    ck.fail("exc-racing-terminate-%s-%s" % (c0, out[4:]),
                            "%s() of a %s socket (state %s) raises %s - not nfc.llcp.Error - when the link terminates while the thread "
                            "stands at %s (no lock held)" % (c0, st["k"], st["st"], out[4:], at),
                            dict(replay, thread=i, thread_stood_at=at))
            ck.case(("race", tuple(sorted(st.items())), tuple(calls), tuple(r["decisions"])), link_at not in (None, 0),
                    "L3 terminate at every line: %s x%d" % (st["k"], len(calls)))
            return r["choices"]
        S.explore(execute, 1, limit)
        nlines += len(seen_lines)
    ck.count("L3 races: (call, source line without lock) pairs at which the termination was placed", nlines)
    return nexec


def run_part(ck):
    import time
    from props.c09 import guarded
    from sims import term_sched as S
    ck.rule += (" | part races: (socket kind, state, bound/unbound/closed, call [, second call]) with the link thread's terminate() "
                "placed in front of every source line of nfc/llcp/{llc,socket,tco}.py the thread executes without holding a lock "
                "(all schedules with one preemption); non-trivial = the termination is placed after the thread has started")
    t0 = time.time()
    n = guarded(ck, "races", tie_races, ck)
    S.Sched.uninstall()
    ck.notes.append("part races: %d executions with preemption at every unlocked source line (%.1fs)" % (n, time.time() - t0))
    ck.trusted += ["harness/props/c09_races.py, harness/sims/term_lines.py (sys.settrace line points)"]
