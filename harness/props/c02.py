"""C02 - an interrupted NDEF write never leaves a corrupt message (Type 1 / Type 2 Tag
part; Type 3/4 are the plug-in part c02_t34).

L1: theorems of NfcVerif.Props.C02: for every well-formed image, every message up to the
    capacity and EVERY prefix of the write-command list, a re-walk of the resulting memory
    sees the old message, an empty message or the new message (`t12_cut_safe`, full: every
    alignment of the 3-byte length field in the write unit, units 1, 4, 8); the model has the
    length-field write as repaired by fixes/C02 (F2).  The as-found write is kept in the model
    and its torn state is an `example` of Props/C02.lean.
L2: model vs nfcpy: ordered write commands (= the crash schedule) and, for every cut point,
    what a fresh reader sees.
    `t12_cache_coherent` + `t12_retry_cut_safe`: after a LOST command the memory reader's picture
    of the tag equals the tag, and a second assignment on the same NDEF object is again cut safe
    and ends with exactly the new message.
L3: real code: power is cut after the k-th state-changing command for every k; a fresh
    activation must see old / empty / not readable / no NDEF / new.  Second scenario: command k
    is lost (time-out of the command and its retransmissions, the exception reaches the
    application), the application assigns the same or another message on the SAME object,
    optionally cut again after j commands: old-or-empty / empty / new, and exactly the new message
    when the retry completes.
"""
import logging
import os

from common import Model

logging.disable(logging.CRITICAL)

LEAN_TARGETS = ["NfcVerif.Props.C02", "drv_t12"]
PARTS = ["t34"] if os.path.exists(os.path.join(os.path.dirname(os.path.abspath(__file__)), "c02_t34.py")) else []

THEOREMS = [
    "NfcVerif.C02.t12_cut_safe",
    "NfcVerif.C02.t12_prefix_mixture",
    "NfcVerif.C02.t12_prefix_threshold",
    "NfcVerif.C02.t12_cache_coherent",
    "NfcVerif.C02.t12_retry_cut_safe",
]

GOOD = ("O", "E", "N", "U", "W")


def run(ck):
    from sims.t12_run import Run, layout_with_old
    from sims.t12_tags import f1_present
    rng = ck.rng
    ck.rule = ("case = (tag kind, memory image, new message, cut point k); every k = 0..n of every write is explored; "
               "layouts as in C01 with NULL-TLV padding 0..7 so that the NDEF TLV takes every alignment in the 4/8-byte "
               "write unit, old/new lengths from {0,1,10,254,255,256,300,capacity}; non-trivial = 0 < k < n "
               "(a genuinely partial write); distinct by hash of (kind, memory, message, k). Retry cases = (kind, memory, "
               "first message, number k of the lost command from {0,1,mid,last-1,last,random}, second message same/"
               "different incl. other length format, second cut j or none)")
    ck.assumptions += [
        "atomicity unit = one tag command (Type 2 WRITE of 4 byte, Type 1 WRITE-E of 1 byte / WRITE-E8 of 8 byte); "
        "a cut happens between commands",
        "the tag is plain memory; well-formed layouts as in C01 (NfcVerif.Tlv.WF)",
        "the model equals the Python functions outside the compared inputs (the tie is a sample)",
    ]
    ck.trusted += ["hand-written Lean model NfcVerif.Model.Tlv tied to tt1.py/tt2.py by differential runs",
                   "harness/sims/t12_tags.py, harness/sims/t12_run.py, harness/props/c02.py"]
    ck.lean("NfcVerif.Props.C02", THEOREMS)
    if ck.thorough:
        ck.leanchecker(["NfcVerif.Props.C02"])
    model = Model("drv_t12")

    nlay = 7000 if ck.thorough else 240
    f1 = f1_present()
    if f1:
        ck.notes.append("this tree still has defect F1 (empty message -> UnboundLocalError, reported by C01): "
                        "empty new messages are left out of this run")
    runs = []
    lens = [0, 1, 10, 254, 255, 256, 300]
    for i in range(nlay):
        kind = ("t2", "t1d", "t2", "t1s")[i % 4]
        lay = layout_with_old(rng, kind, False, [0, 10, 254, 255, 300, lambda f: f - 4])
        cap = lay["free"] - (4 if lay["free"] > 256 else 2)
        n = rng.choice(lens + [cap, rng.randrange(0, max(1, cap + 1))])
        n = max(0, min(n, cap))
        if cap > 400 and not ck.thorough:
            n = min(n, 320)
        if n == 0 and f1:
            n = 1
        data = bytes(rng.randrange(1, 256) for _ in range(n))
        r = Run(lay, data, cuts=True)
        runs.append(r)
        if r.nd is None:
            ck.fail("t12-wellformed-layout-not-read", "%s: %s" % (kind, r.before), r.replay())
            continue
        u = r.sim.UNIT
        straddle = n >= 255 and (r.off + 1) // u != (r.off + 3) // u
        ncmd = len(r.cmds)
        for k, cl in enumerate(r.cut_classes):
            ck.case((kind, r.base, data, k), 0 < k < ncmd,
                    "%s:%s:%s" % (kind, "len3" if n >= 255 else "len1", "straddle" if straddle else "aligned"),
                    sample={"kind": kind, "off": r.off, "old": len(r.old), "new": n, "cut": k, "of": ncmd, "sees": cl}
                    if (0 < k < ncmd and len(ck.samples) < 4 and k == ncmd // 2) else None)
            if cl in GOOD:
                continue
            what = ("%s: NDEF TLV at %d (unit %d), old %d bytes, new %d bytes, power cut after write command %d of %d: "
                    "a fresh reader sees %s" % (kind, r.off, u, len(r.old), n, k, ncmd,
                                                 ("a %s-byte message that is neither old nor new" % cl[1:]) if cl[0] == "C"
                                                 else "exception " + cl[1:]))
            if straddle:
                # includes the Type 1 reader running off the end of memory on the torn length
                key = "t12-torn-length-field"
            elif cl[0] == "C":
                key = "t12-cut-corrupt-message"
            else:
                key = "t12-cut-reader-raises"
            ck.fail(key, what, dict(r.replay(), cut=k))
        for k, name in r.cut_errors:
            ck.fail("t12-interrupted-write-raises", "%s: cut after command %d: the write raised %s instead of a "
                    "TagCommandError" % (kind, k, name), dict(r.replay(), cut=k))
        if r.wrote == "ok" and r.cut_classes and r.cut_classes[-1] not in ("W", "O", "E"):
            ck.fail("t12-roundtrip-mismatch", "%s: complete write not read back" % kind, r.replay())

    replies = model.ask_many([r.request() for r in runs])
    dis = 0
    for r, rep in zip(runs, replies):
        if rep != r.line:
            dis += 1
            ck.fail("tie:t12-cut-model-vs-nfcpy", "model %r, implementation %r" % (rep[-300:], r.line[-300:]),
                    dict(r.replay(), model=rep, impl=r.line))
    ck.tie("Tlv model vs tt1/tt2: write command order and the reader's view after every cut point",
           cases=sum(len(r.cut_classes or []) for r in runs), disagreements=dis, exhaustive=False)
    ck.notes.append("%d writes, every cut point of each" % len(runs))
    # ------------------------------------------------------------------ lost command, then a retry on the same object
    from sims.t12_run import Retry
    nret = 400 if ck.thorough else 60
    rruns = []
    for i in range(nret):
        kind = ("t2", "t1d", "t1s", "t2")[i % 4]
        lay = layout_with_old(rng, kind, False, [0, 10, 200, 255, lambda f: f - 4])
        cap = lay["free"] - (4 if lay["free"] > 256 else 2)
        n1 = max(1, min(cap, rng.choice([1, 10, 60, 254, 255, 300, cap])))
        if cap > 330 and not ck.thorough:
            n1 = min(n1, 300)
        d1 = bytes(rng.randrange(1, 256) for _ in range(n1))
        probe = Run(lay, d1)
        if probe.nd is None or probe.wrote != "ok" or not probe.cmds:
            continue
        ncmd = len(probe.cmds)
        same = rng.random() < 0.5
        n2 = n1 if same else max(1 if f1 else 0, min(cap, rng.choice([0, 1, 5, 100, 254, 255, 280, cap])))
        d2 = d1 if same else bytes(rng.randrange(1, 256) for _ in range(n2))
        ks = sorted(set([0, 1, ncmd // 2, ncmd - 2, ncmd - 1, rng.randrange(ncmd)]) & set(range(ncmd)))
        if not ck.thorough:
            ks = rng.sample(ks, min(3, len(ks)))
        for k in ks:
            full = Retry(lay, d1, k, d2, None)
            rruns.append(full)
            if not full.failed:
                ck.fail("t12-lost-command-not-reported", "%s: command %d of %d was lost but the write ended %s"
                        % (kind, k, ncmd, full.first), full.replay())
                continue
            n2cmd = len(full.cmds)
            js = sorted(set([0, 1, n2cmd // 2, n2cmd - 1, rng.randrange(n2cmd + 1)]) & set(range(n2cmd)))
            if not ck.thorough:
                js = rng.sample(js, min(2, len(js)))
            for r in [full] + [Retry(lay, d1, k, d2, j) for j in js]:
                if r is not full:
                    rruns.append(r)
                ck.case(("retry", kind, r.base, d1, k, d2, r.j), True,
                        "retry:%s:%s" % (kind, "complete" if r.j is None else "cut"),
                        sample={"kind": kind, "first": n1, "lost": k, "of": ncmd, "second": len(d2), "cut": r.j,
                                "sees": None if r.seen is None else len(r.seen)} if len(rruns) < 3 else None)
                what = ("%s: NDEF TLV at %d, old %d bytes; write of %d bytes, command %d of %d lost; same object then "
                        "writes %d bytes%s: a fresh reader sees %s"
                        % (kind, lay["off"], len(r.old), n1, k, ncmd, len(d2),
                           "" if r.j is None else ", cut after command %d" % r.j,
                           "no NDEF / exception" if r.seen is None else "%d bytes" % len(r.seen)))
                if r.second.startswith("exc"):
                    ck.fail("t12-retry-raises", what + " (retry raised %s)" % r.second[4:], r.replay())
                elif r.j is None:
                    if r.seen != d2 or r.second != "ok":
                        ck.fail("t12-retry-after-lost-command-corrupt", what + " instead of the new message", r.replay())
                elif r.seen is None or r.seen not in (r.seen_after_fail, b"", d2):
                    ck.fail("t12-retry-after-lost-command-corrupt", what + " (neither what was there before the retry, "
                            "nor empty, nor the new message)", r.replay())
    replies = model.ask_many([r.request() for r in rruns])
    dis = 0
    for r, rep in zip(rruns, replies):
        if rep != r.line:
            dis += 1
            ck.fail("tie:t12-retry-model-vs-nfcpy", "model %r, implementation %r" % (rep[-300:], r.line[-300:]),
                    dict(r.replay(), model=rep, impl=r.line))
    ck.tie("Tlv model vs tt1/tt2: lost command, then a second write on the same NDEF object (commands, reader's view)",
           cases=len(rruns), disagreements=dis, exhaustive=False)

