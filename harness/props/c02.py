"""C02 - an interrupted NDEF write never leaves a corrupt message (Type 1 / Type 2 Tag
part; Type 3/4 are the plug-in part c02_t34).

L1: theorems of NfcVerif.Props.C02: for every well-formed image, every message up to the
    capacity and EVERY prefix of the write-command list, a re-walk of the resulting memory
    sees the old message, an empty message or the new message (`t12_cut_safe`, full: every
    alignment of the 3-byte length field in the write unit, units 1, 4, 8); the model has the
    length-field write as repaired by fixes/C02 (F2).  The as-found write is kept in the model
    and its torn state is an `example` of Props/C02.lean.
L2: model vs nfcpy: ordered write commands (= the crash schedule) and, for every cut point,
    what a fresh reader sees.
    Histories (`t12_history_cut_safe`, `t12_retry_cut_safe`, `t12_cache_coherent`, `t12_sync_is_prefix`): attempts
    through ONE tag object, each aborted at any command by a fault of either kind (not executed / executed
    but unacknowledged) or completed, compared with the history model (drv_c02) after every attempt.
L3: real code: power is cut after the k-th state-changing command for every k; a fresh
    activation must see old / empty / not readable / no NDEF / new.  Histories: command k of an
    attempt fails (lost, executed but unacknowledged, NAK), the exception reaches the application,
    which assigns again through the SAME object (possibly disturbed again): after every attempt a
    fresh reader sees what it saw before the attempt, empty, or exactly the octets of the attempt.
    Parts: c02_t34 (Type 3 / 4 / emulated Type 3), c02_vendor (tt2_nxp products, FeliCa Lite / Lite-S).
"""
import logging

from common import Model

logging.disable(logging.CRITICAL)

LEAN_TARGETS = ["NfcVerif.Props.C02", "drv_t12", "drv_c02"]
PARTS = ["t34", "vendor"]

THEOREMS = [
    "NfcVerif.C02.t12_cut_safe",
    "NfcVerif.C02.t12_prefix_mixture",
    "NfcVerif.C02.t12_prefix_threshold",
    "NfcVerif.C02.t12_history_extends_writer",
    "NfcVerif.C02.t12_cache_coherent",
    "NfcVerif.C02.t12_sync_is_prefix",
    "NfcVerif.C02.t12_retry_cut_safe",
    "NfcVerif.C02.t12_fault_is_cut",
    "NfcVerif.C02.t12_history_cut_safe",
    "NfcVerif.C02.t12_history_cut_safe_strict",
    "NfcVerif.C02.t12_unacknowledged_mixture_asFound",
]

GOOD = ("O", "E", "N", "U", "W")


def run(ck):
    from sims.t12_run import Run, layout_with_old
    from sims.t12_tags import f1_present
    rng = ck.rng
    ck.rule = ("case = (tag kind, memory image, new message, cut point k); every k = 0..n of every write is explored; "
               "layouts as in C01 with NULL-TLV padding 0..7 so that the NDEF TLV takes every alignment in the 4/8-byte "
               "write unit, old/new lengths from {0,1,10,254,255,256,300,capacity}; non-trivial = 0 < k < n "
               "(a genuinely partial write); distinct by hash of (kind, memory, message, k). History cases = (kind, memory, "
               "[(message, fault)...]) through ONE tag object: first message of length {1..8, ~40, 254, 255, 256, capacity} with "
               "a fault (lost | late | NAK status) on EVERY command position (sampled above 7 / 40 positions), follow-up "
               "assignment same | empty | previous message | other octets | other length format | capacity (all four first "
               "kinds when the fault hits the first or the last two commands), undisturbed or disturbed again, plus two- to "
               "four-fault histories; non-trivial = a fault was triggered; thorough: exhaustive two-fault histories on a 64 byte "
               "Type 2 Tag (4 alignments x 3 messages x every fault x 4 follow-ups x every second fault)")
    ck.assumptions += [
        "atomicity unit = one tag command (Type 2 WRITE of 4 byte, Type 1 WRITE-E of 1 byte / WRITE-E8 of 8 byte); "
        "a cut happens between commands",
        "the tag is plain memory; well-formed layouts as in C01 (NfcVerif.Tlv.WF)",
        "the model equals the Python functions outside the compared inputs (the tie is a sample)",
    ]
    ck.trusted += ["hand-written Lean model NfcVerif.Model.Tlv tied to tt1.py/tt2.py by differential runs",
                   "harness/sims/t12_tags.py, harness/sims/t12_run.py, harness/props/c02.py"]
    ck.lean("NfcVerif.Props.C02", THEOREMS)
    if ck.thorough:
        ck.leanchecker(["NfcVerif.Props.C02"])
    model = Model("drv_t12")

    nlay = 7000 if ck.thorough else 240
    f1 = f1_present()
    if f1:
        ck.notes.append("this tree still has defect F1 (empty message -> UnboundLocalError, reported by C01): "
                        "empty new messages are left out of this run")
    runs = []
    lens = [0, 1, 10, 254, 255, 256, 300]
    for i in range(nlay):
        kind = ("t2", "t1d", "t2", "t1s")[i % 4]
        lay = layout_with_old(rng, kind, False, [0, 10, 254, 255, 300, lambda f: f - 4])
        cap = lay["free"] - (4 if lay["free"] > 256 else 2)
        n = rng.choice(lens + [cap, rng.randrange(0, max(1, cap + 1))])
        n = max(0, min(n, cap))
        if cap > 400 and not ck.thorough:
            n = min(n, 320)
        if n == 0 and f1:
            n = 1
        data = bytes(rng.randrange(1, 256) for _ in range(n))
        try:
            r = Run(lay, data, cuts=True)
        except Exception as e:  # noqa  nfcpy returned / raised something the run code did not foresee
            from common import exc_name, Infra
            if isinstance(e, Infra):
                raise
            d = {"kind": kind, "memory": bytes(lay["mem"]).hex(), "data": data.hex()}
            if kind != "t2":
                d["header_rom"] = lay["hr"].hex()
            ck.fail("t12-unexpected-behaviour", "%s: writing %d bytes with every cut point ended with %s" % (kind, n, exc_name(e)), d)
            continue
        runs.append(r)
        if r.nd is None:
            ck.fail("t12-wellformed-layout-not-read", "%s: %s" % (kind, r.before), r.replay())
            continue
        u = r.sim.UNIT
        straddle = n >= 255 and (r.off + 1) // u != (r.off + 3) // u
        ncmd = len(r.cmds)
        for k, cl in enumerate(r.cut_classes):
            ck.case((kind, r.base, data, k), 0 < k < ncmd,
                    "%s:%s:%s" % (kind, "len3" if n >= 255 else "len1", "straddle" if straddle else "aligned"),
                    sample={"kind": kind, "off": r.off, "old": len(r.old), "new": n, "cut": k, "of": ncmd, "sees": cl}
                    if (0 < k < ncmd and len(ck.samples) < 4 and k == ncmd // 2) else None)
            if cl in GOOD:
                continue
            what = ("%s: NDEF TLV at %d (unit %d), old %d bytes, new %d bytes, power cut after write command %d of %d: "
                    "a fresh reader sees %s" % (kind, r.off, u, len(r.old), n, k, ncmd,
                                                 ("a %s-byte message that is neither old nor new" % cl[1:]) if cl[0] == "C"
                                                 else "exception " + cl[1:]))
            if straddle:
                # includes the Type 1 reader running off the end of memory on the torn length
                key = "t12-torn-length-field"
            elif cl[0] == "C":
                key = "t12-cut-corrupt-message"
            else:
                key = "t12-cut-reader-raises"
            ck.fail(key, what, dict(r.replay(), cut=k))
        for k, name in r.cut_errors:
            ck.fail("t12-interrupted-write-raises", "%s: cut after command %d: the write raised %s instead of a "
                    "TagCommandError" % (kind, k, name), dict(r.replay(), cut=k))
        if r.wrote == "ok" and r.cut_classes and r.cut_classes[-1] not in ("W", "O", "E"):
            ck.fail("t12-roundtrip-mismatch", "%s: complete write not read back" % kind, r.replay())

    replies = model.ask_many([r.request() for r in runs])
    dis = 0
    for r, rep in zip(runs, replies):
        if rep != r.line:
            dis += 1
            ck.fail("tie:t12-cut-model-vs-nfcpy", "model %r, implementation %r" % (rep[-300:], r.line[-300:]),
                    dict(r.replay(), model=rep, impl=r.line))
    ck.tie("Tlv model vs tt1/tt2: write command order and the reader's view after every cut point",
           cases=sum(len(r.cut_classes or []) for r in runs), disagreements=dis, exhaustive=False)
    ck.notes.append("%d writes, every cut point of each" % len(runs))
    # ------------------------------------------------------------------ histories: faults of both kinds, retries
    try:
        histories(ck, f1)
    except Exception as e:  # noqa  nfcpy returned / raised something the oracle code did not foresee
        from common import exc_name, Infra
        if isinstance(e, Infra):
            raise
        import traceback
        ck.fail("t12-history-unexpected-behaviour", "exploring histories ended with %s: %s"
                % (exc_name(e), traceback.format_exc().strip().split("\n")[-3:]), {"seed": ck.seed})


KEY_STALE = "t12-stale-picture-after-unacknowledged-write"


def variants(rng, d1, old, cap, k, f1):
    """messages of the attempt that follows a failed attempt of d1"""
    n = len(d1)
    other = bytes((b + 1 + k) & 255 or 1 for b in d1)
    cross = 255 if n < 255 else 254
    pool = [d1, b"", old[:cap], other,
            bytes(rng.randrange(1, 256) for _ in range(max(0, min(cap, cross)))),
            bytes(rng.randrange(1, 256) for _ in range(max(0, min(cap, n + rng.choice([-1, 1, 7, -7]))))),
            bytes(rng.randrange(1, 256) for _ in range(cap))]
    if f1:
        pool = [x if x else b"\x01" for x in pool]
    return pool


def judge_history(ck, h, lay):
    """the property on the real code, attempt by attempt: a fresh reader after attempt i sees what it saw before the
    attempt, an empty message, no NDEF / not readable, or exactly the octets of attempt i; a completed attempt is read
    back; a triggered fault is reported as TagCommandError"""
    from sims.c02_hist import describe
    kind = h.kind
    seen_before = h.old
    late_before = False
    for i, ((data, fault), res, view) in enumerate(zip(h.attempts, h.results, h.views)):
        where = "%s: NDEF TLV at %d, old %d octets; %s" % (kind, lay["off"], len(h.old), describe(h))
        trig = fault is not None and h.triggered[i]
        if trig and res == "ok":
            ck.fail("t12-lost-command-not-reported", where + ": attempt %d returned normally although command %d failed"
                    % (i, fault[0]), h.replay())
            return
        if res.startswith("exc") and not (len(data) > h.cap and res == "exc ValueError"):
            ck.fail("t12-retry-raises" if i else "t12-interrupted-write-raises", where + ": attempt %d raised %s" % (i, res[4:]),
                    h.replay())
            return
        if not trig and len(data) <= h.cap and res != "ok":
            ck.fail("t12-retry-raises", where + ": attempt %d (no fault triggered) ended %s" % (i, res), h.replay())
            return
        line, octets, cap = view
        good = line == "none" or octets in (seen_before, b"") or (octets == data and len(data) <= h.cap)
        if line.startswith("exc"):
            ck.fail("t12-cut-reader-raises", where + ": after attempt %d a fresh reader raises %s" % (i, line[4:]), h.replay())
            return
        if res == "ok" and octets != data:
            good = False
        if octets is not None and cap != h.cap:
            good = False
        if not good:
            what = (where + ": after attempt %d a fresh reader sees %s, which is neither what was there before the attempt "
                    "(%d octets), nor empty, nor the octets of the attempt"
                    % (i, "%d octets %s.. capacity %s" % (len(octets), octets[:8].hex(), cap) if octets is not None else line,
                       -1 if seen_before is None else len(seen_before)))
            ck.fail(KEY_STALE if late_before else "t12-retry-after-lost-command-corrupt", what, h.replay())
            return
        late_before = late_before or (trig and fault[1] == "late")
        seen_before = octets


def histories(ck, f1):
    from sims.t12_run import layout_with_old
    from sims.c02_hist import HistRun, MODES, probe_unconfirmed_repair
    rng = ck.rng
    rep = probe_unconfirmed_repair()
    ck.notes.append("tree under test sends the unit of an unacknowledged write again (fixes/C02/0002) = %s; the model "
                    "variant compared is %s" % (rep, "historyR" if rep else "history (as found)"))
    ck.assumptions += [
        "histories: a fault hits one state-changing command and all its retransmissions; the tag stays in the field and "
        "answers the following commands; `lost` / `status` (NAK): the command is not executed, `late`: it is executed and "
        "only the answers are lost; read commands and SECTOR SELECT are not faulted",
    ]
    ck.trusted += ["hand-written Lean model NfcVerif.Model.HistC01 (memory reader with cache, picture of the tag, unconfirmed "
                   "units; faults) tied by differential runs (drv_c02)",
                   "harness/sims/c01_hist.py (fault layer in front of the tag simulators), harness/sims/c02_hist.py"]
    model = Model("drv_c02")
    limit = 40 if ck.thorough else 7
    hs = []

    def add(h, lay, bucket):
        hs.append((h, lay))
        if h.obj.nd is None:
            return
        nontriv = any(h.triggered)
        ck.case(("hist", h.kind, h.base, tuple(h.attempts)), nontriv, bucket,
                sample={"kind": h.kind, "attempts": [(len(d), f) for d, f in h.attempts], "results": h.results,
                        "sees": [None if v[1] is None else len(v[1]) for v in h.views]}
                if nontriv and len(ck.samples) < 6 and len(h.attempts) > 1 else None)
        judge_history(ck, h, lay)

    lays = []
    n12 = 6 if ck.thorough else 2
    for kind in ("t2", "t1d", "t1s"):
        for i in range(n12):
            lays.append((kind, layout_with_old(rng, kind, False, [0, 5, 30, 254, 255, lambda f: f - 4])))
        if kind != "t1s":
            for tf in ((254, 257, 258, 261, 300) if ck.thorough else (rng.choice([257, 258]), 261)):
                lays.append((kind, layout_with_old(rng, kind, False, [0, 254, 255], target_free=tf)))
    for kind, lay in lays:
        probe = HistRun(kind, lay, [(b"\x01", None)])
        if probe.obj.nd is None:
            ck.fail("t12-wellformed-layout-not-read", "%s: %s" % (kind, probe.line[:80]), probe.replay())
            continue
        cap, old = probe.cap, probe.old
        if cap < 1:
            continue
        lens = sorted(set(n for n in [rng.randrange(1, 9), min(cap, rng.choice([17, 40, 47])), 254, 255, 256, cap] if 1 <= n <= cap))
        if not ck.thorough and len(lens) > 2:
            lens = sorted(set([rng.choice(lens[:-1]), lens[-1]])) if cap <= 400 else sorted(set([lens[0], rng.choice([254, 255, 256])]))
        for n1 in lens:
            d1 = bytes(rng.randrange(1, 256) for _ in range(n1))
            clean = HistRun(kind, lay, [(d1, None)])
            add(clean, lay, "hist:%s:clean" % kind)
            if clean.results != ["ok"]:
                continue
            ncmd = clean.ncmds[0]
            ks = list(range(ncmd)) if ncmd <= limit else sorted(set([0, 1, ncmd - 3, ncmd - 2, ncmd - 1]
                                                                    + rng.sample(range(ncmd), limit - 5)))
            for k in ks:
                for mi, mode in enumerate(MODES[kind]):
                    if mode == "status" and not ck.thorough and (k + mi) % 3:
                        continue
                    pool = variants(rng, d1, old, cap, k, f1)
                    picks = [pool[(k + mi) % len(pool)]]
                    if k >= ncmd - 2 or k == 0:
                        picks = pool[:4]          # the first / last commands carry the length field: every follow-up kind
                    for d2 in picks:
                        # second attempt: complete, or disturbed again at a command of ITS sequence
                        add(HistRun(kind, lay, [(d1, (k, mode)), (d2, None)]), lay, "hist:%s:1-fault:%s" % (kind, mode))
                    d2 = picks[0]
                    j = rng.randrange(0, 4)
                    m2 = rng.choice(MODES[kind][:2])
                    d3 = rng.choice(pool)
                    add(HistRun(kind, lay, [(d1, (k, mode)), (d2, (j, m2)), (d3, None)]), lay,
                        "hist:%s:2-faults:%s+%s" % (kind, mode, m2))
            for _ in range(8 if ck.thorough else 2):
                nf = rng.choice([2, 3, 4])
                atts, d = [], d1
                for _i in range(nf):
                    atts.append((d, (rng.randrange(0, max(1, ncmd)), rng.choice(MODES[kind]))))
                    d = rng.choice(variants(rng, d1, old, min(cap, 600), rng.randrange(9), f1))
                if rng.random() < 0.6:
                    atts.append((d, None))
                add(HistRun(kind, lay, atts), lay, "hist:%s:%d-faults" % (kind, nf))
    if ck.thorough:
        small_exhaustive(ck, add)
    replies = model.ask_many([h.request(repaired=rep) for h, _ in hs])
    dis = 0
    for (h, _), r in zip(hs, replies):
        if r != h.line:
            dis += 1
            ck.fail("tie:t12-retry-model-vs-nfcpy", "%s: model %r, implementation %r" % (h.kind, r[-300:], h.line[-300:]),
                    dict(h.replay(), request=h.request(repaired=rep)[:3000], model=r[:3000], impl=h.line[:3000]))
    ck.tie("Hist model (%s) vs tt1/tt2: assignments through one tag object with faults of both kinds - outcome, ordered "
           "commands and the fresh reader's view after EVERY attempt" % ("repaired memory reader" if rep else "as found"),
           cases=len(hs), disagreements=dis, exhaustive=False)
    if not rep:
        witness(ck)


def small_exhaustive(ck, add):
    """thorough tier: a 64 byte Type 2 Tag with the NDEF TLV at every alignment in the page (16..19): first message of
    1, 3, 6 octets x EVERY fault (command, lost | late) x second message {empty, same, other, 2 octets} x (undisturbed |
    EVERY fault); a doubly disturbed history ends with an undisturbed third assignment"""
    from sims.c02_hist import HistRun
    for pad in range(4):
        mem = bytearray(64)
        mem[12:16] = bytes([0xE1, 0x10, 6, 0])
        mem[16 + pad:16 + pad + 5] = bytes([3, 2, 0xAA, 0xBB, 0xFE])
        lay = {"kind": "t2", "mem": mem, "off": 16 + pad}
        for n1 in (1, 3, 6):
            d1 = bytes(range(0x11, 0x11 + n1))
            clean = HistRun("t2", lay, [(d1, None)])
            if clean.results != ["ok"]:
                add(clean, lay, "hist:t2:small")
                continue
            for k in range(clean.ncmds[0]):
                for mode in ("lost", "late"):
                    for d2 in (b"", d1, bytes(b ^ 0x40 for b in d1), b"\x77\x78"):
                        h = HistRun("t2", lay, [(d1, (k, mode)), (d2, None)])
                        add(h, lay, "hist:t2:small:1-fault")
                        for j in range(h.ncmds[1]):
                            for m2 in ("lost", "late"):
                                add(HistRun("t2", lay, [(d1, (k, mode)), (d2, (j, m2)), (b"\x09", None)]), lay,
                                    "hist:t2:small:2-faults")


def witness(ck):
    """the tree lacks fixes/C02/0002: replay the counter-example of Props/C02 (t12_unacknowledged_mixture_asFound)"""
    from sims.c02_hist import HistRun
    mem = bytearray(64)
    mem[12:23] = bytes([0xE1, 0x10, 6, 0, 0, 0, 3, 2, 0xAA, 0xBB, 0xFE])
    lay = {"kind": "t2", "mem": mem, "off": 18}
    h = HistRun("t2", lay, [(b"\x01\x02\x03", (2, "late")), (b"", None)])
    ck.case(("hist", "witness"), True, "hist:t2:witness")
    judge_history(ck, h, lay)
