"""C15 - the frontend never lets two threads drive the device at once.

L1: `lock_sound` (generic, Lemmas/Lock.lean): a program that passes the syntactic check
    `wellLocked` is safe under every interleaving of any number of threads.
    `clf_wellLocked`: the check evaluates to true on the term REGENERATED from
    /repo/src/nfc/clf/__init__.py on this run (T-tie, harness/translate_lock.py).
L2: translator validation: every driver call observed dynamically (through a recording
    device proxy, all public entry points) must be one of the call sites the translator
    emitted; the translator's side facts must hold.
L3: dynamic oracle on the real code: the recording proxy asserts at the entry of every
    driver method that the frontend lock is held, that the device is still the open one
    and that no other thread is inside the driver; single-threaded for every entry point
    and multi-threaded under a seeded stress schedule.
"""
import logging
import os
import re
import subprocess
import sys
import threading
import time

import common
from common import Infra

logging.disable(logging.CRITICAL)

LEAN_TARGETS = ["NfcVerif.Props.C15"]
PARTS = ["drv"]   # props/c15_drv.py: the real driver classes on scripted transports under an owner-recording lock
THEOREMS = ["NfcVerif.C15.lock_sound", "NfcVerif.C15.clf_wellLocked", "NfcVerif.C15.clf_facts",
            "NfcVerif.C15.clf_threads_never_overlap"]


class YieldingLock(object):
    """the frontend's mutex with a forced preemption point after every release and before every
    acquire (used in the stress phases only): same semantics, adversarial schedule"""

    def __init__(self, rng):
        self._l = threading.Lock()
        self._rng = rng
        self.on = False

    def _yield(self):
        if self.on:
            time.sleep(0.0002 if self._rng.random() < 0.7 else 0.0)

    def acquire(self, blocking=True, timeout=-1):
        self._yield()
        if blocking and timeout is not None and timeout > 0:
            # a bounded wait is measured on the frontend's clock (FastClock in run(): 100 x faster), so that code
            # which gives up waiting for the lock and goes on to the driver is reached by the long-call scenario
            timeout = max(timeout / 100.0, 0.001)
        return self._l.acquire(blocking, timeout)

    def release(self):
        self._l.release()
        self._yield()

    def locked(self):
        return self._l.locked()

    def __enter__(self):
        self.acquire()
        return self

    def __exit__(self, *exc):
        self.release()


class Recorder:
    def __init__(self):
        self.inside = 0
        self.calls = []         # (method, locked, device_ok, overlapped, thread)
        self.mutex = threading.Lock()
        self.violations = []


def make_device(nfc, clf_ref, rec, rng_delay):
    import nfc.clf.device

    class FakeDevice(nfc.clf.device.Device):
        def __init__(self):
            self._path = "fake:0"
            self._vendor_name = "Verif"
            self._device_name = "Proxy"
            self._chipset_name = "None"
            self.closed = False

        def _enter(self, name):
            clf = clf_ref[0]
            locked = clf.lock.locked()
            dev_ok = (clf.device is self) and not self.closed
            with rec.mutex:
                overlapped = rec.inside > 0
                rec.inside += 1
                rec.calls.append((name, locked, dev_ok, overlapped, threading.current_thread().name))
                if not locked:
                    rec.violations.append(("driver-call-without-lock", name))
                if not dev_ok:
                    rec.violations.append(("driver-call-on-closed-device", name))
                if overlapped:
                    rec.violations.append(("driver-calls-overlap", name))
            d = rng_delay()
            if d:
                time.sleep(d)

        def _leave(self):
            with rec.mutex:
                rec.inside -= 1

        def close(self):
            self._enter("close")
            self.closed = True
            self._leave()
            if getattr(self, "fail_close", False):
                raise IOError(5, "scripted: the reader was unplugged while closing")

        def mute(self):
            self._enter("mute"); self._leave()

        def sense_tta(self, target):
            self._enter("sense_tta"); self._leave()
            if getattr(self, "tag_present", False):
                return nfc.clf.RemoteTarget("106A", sens_res=bytearray(b"\x44\x00"), sel_res=bytearray(b"\x00"),
                                            sdd_res=bytearray(b"\x04\x01\x02\x03\x04\x05\x06"))
            return None

        def sense_ttb(self, target):
            self._enter("sense_ttb"); self._leave(); return None

        def sense_ttf(self, target):
            self._enter("sense_ttf"); self._leave(); return None

        def sense_dep(self, target):
            self._enter("sense_dep"); self._leave(); return None

        def listen_tta(self, target, timeout):
            self._enter("listen_tta"); self._leave(); return None

        def listen_ttb(self, target, timeout):
            self._enter("listen_ttb"); self._leave(); return None

        def listen_ttf(self, target, timeout):
            self._enter("listen_ttf"); self._leave(); return None

        def listen_dep(self, target, timeout):
            self._enter("listen_dep"); self._leave(); return None

        def send_cmd_recv_rsp(self, target, data, timeout):
            self._enter("send_cmd_recv_rsp"); self._leave()
            raise nfc.clf.TimeoutError("scripted")

        def send_rsp_recv_cmd(self, target, data, timeout):
            self._enter("send_rsp_recv_cmd"); self._leave()
            raise nfc.clf.TimeoutError("scripted")

        def get_max_send_data_size(self, target):
            self._enter("get_max_send_data_size"); self._leave(); return 290

        def get_max_recv_data_size(self, target):
            self._enter("get_max_recv_data_size"); self._leave(); return 290

        def turn_on_led_and_buzzer(self):
            self._enter("turn_on_led_and_buzzer"); self._leave()

        def turn_off_led_and_buzzer(self):
            self._enter("turn_off_led_and_buzzer"); self._leave()

    return FakeDevice


def entry_points(nfc, clf, present_polls):
    """name -> callable exercising one public entry point"""
    import nfc.clf

    class FakeTag(object):
        def __init__(self, clf):
            self.clf, self.n = clf, 0

        @property
        def is_present(self):
            self.n += 1
            try:
                self.clf.exchange(b"\x30\x00", 0.01)
            except (nfc.clf.CommunicationError, IOError):
                pass
            return self.n < present_polls

    def rdwr(beep=True, release=True):
        dev = clf.device
        if dev is not None:
            dev.tag_present = True
        try:
            n = [0]

            def term():
                n[0] += 1
                return n[0] > 3
            # nfc.tag.activate is replaced by `fake_activate` for the whole dynamic phase (see run()): swapping a
            # module attribute per call is not thread-safe (a thread still inside connect() would get the real
            # tag activation back when another thread restores it - a false alarm of this harness on a fresh
            # restore, DESIGN 11.2)
            clf.connect(rdwr={"on-connect": (lambda tag: release), "beep-on-connect": beep, "iterations": 1,
                              "interval": 0.0, "targets": ["106A"]}, terminate=term)
        finally:
            if dev is not None:
                dev.tag_present = False

    def card():
        n = [0]

        def term():
            n[0] += 1
            return n[0] > 2
        clf.connect(card={"on-startup": lambda t: nfc.clf.LocalTarget("106A", sens_res=bytearray(b"\x01\x01"),
                                                                      sdd_res=bytearray(b"\x08\x01\x02\x03"),
                                                                      sel_res=bytearray(b"\x00")),
                          "timeout": 0.01}, terminate=term)

    entry_points.fake_activate = lambda c, t: FakeTag(c)
    return {
        "sense_a": lambda: clf.sense(nfc.clf.RemoteTarget("106A"), iterations=2, interval=0.0),
        "sense_abf": lambda: clf.sense(nfc.clf.RemoteTarget("106A"), nfc.clf.RemoteTarget("106B"),
                                       nfc.clf.RemoteTarget("212F"), iterations=1, interval=0.0),
        "sense_dep": lambda: clf.sense(nfc.clf.RemoteTarget("106A", atr_req=bytearray(16))),
        "listen_a": lambda: clf.listen(nfc.clf.LocalTarget("106A"), 0.01),
        "listen_b": lambda: clf.listen(nfc.clf.LocalTarget("106B"), 0.01),
        "listen_f": lambda: clf.listen(nfc.clf.LocalTarget("212F"), 0.01),
        "listen_dep": lambda: clf.listen(nfc.clf.LocalTarget("106A", atr_res=bytearray(17)), 0.01),
        "exchange": lambda: clf.exchange(b"\x00", 0.01),
        "exchange_as_target": lambda: (setattr(clf, "target", nfc.clf.LocalTarget("106A")), clf.exchange(b"\x00", None)),
        "exchange_as_target_t": lambda: (setattr(clf, "target", nfc.clf.LocalTarget("106A")), clf.exchange(b"\x00", 0.01)),
        "max_send": lambda: clf.max_send_data_size,
        "max_recv": lambda: clf.max_recv_data_size,
        "connect_rdwr_beep": lambda: rdwr(True, True),
        "connect_rdwr_nobeep": lambda: rdwr(False, True),
        "connect_rdwr_norelease": lambda: rdwr(True, False),
        "connect_card": card,
        "str": lambda: str(clf),
        "close_open": lambda: (clf.close(), clf.open("fake")),
    }


def run(ck):
    import nfc
    import nfc.clf
    import nfc.clf.device
    import translate_lock
    rng = ck.rng
    ck.rule = ("dynamic cases: (entry point, driver method called) pairs observed through the recording device proxy, "
               "single-threaded once per entry point and in seeded multi-thread stress rounds; non-trivial = the "
               "entry point reached at least one driver call; distinct by (mode, entry point, driver method)")
    ck.assumptions += [
        "threading.Lock is a mutex and `with` releases it on every exit (CPython semantics)",
        "callbacks and foreign code reach the driver only through the frontend's public methods "
        "(translator fact no_module_outside_clf_uses_frontend_device)",
        "the translator harness/translate_lock.py maps the Python AST to the statement language faithfully "
        "(validated each run: every dynamically observed driver call is a translated call site)",
        "the object under construction is not shared before __init__ has created the lock",
    ]
    ck.trusted += ["harness/translate_lock.py (AST -> NfcVerif.Lock.Stmt), Python's ast module",
                   "trace semantics Runs/gstep of Model/Lock.lean as the meaning of `with lock` and of exceptions"]

    # ------------------------------------------------------------ T-tie: regenerate, build, audit
    # the shared Gen/ClfLock.lean is rewritten by common.regen_all() under the lake lock before the build;
    # this run of the translator only collects its report (facts, untranslated constructs)
    import tempfile
    with tempfile.TemporaryDirectory(prefix="lock-") as _tmp:
        defs, tr, facts, leaks = translate_lock.emit(common.REPO, os.path.join(_tmp, "ClfLock.lean"))
    ck.count("translated methods", len(defs))
    ck.count("translated driver call sites", len({(s[1], s[2]) for s in tr.sites}))
    ck.notes.append("translator: %d methods, %d distinct driver call sites, %d untranslatable constructs, facts %s"
                    % (len(defs), len({(s[1], s[2]) for s in tr.sites}), len(tr.others), facts))
    ok = ck.lean("NfcVerif.Props.C15", THEOREMS, gen_dependent=True)
    static_bad = []
    if not ok:
        # locate the entry points / call sites that break the obligation
        probe = os.path.join(common.LEAN, ".lake", "audit", "C15_probe.lean")
        os.makedirs(os.path.dirname(probe), exist_ok=True)
        with open(probe, "w") as f:
            f.write("import NfcVerif.Gen.ClfLock\nopen NfcVerif.Lock NfcVerif.Gen.ClfLock\n"
                    "#eval (methodNames.zip (program.map entryOk)).filter (fun x => !x.2)\n#eval facts.filter (fun x => !x.2)\n")
        rc, out = common.lake(["build", "NfcVerif.Gen.ClfLock"])
        p = subprocess.run(["lake", "env", "lean", probe], cwd=common.LEAN, stdout=subprocess.PIPE,
                           stderr=subprocess.STDOUT, text=True, timeout=600)
        bad_methods = re.findall(r'\("([^"]+)", false\)', p.stdout)
        static_bad = [s for s in tr.sites if not s[3]] + [("other",) + o for o in tr.others]
        ck.notes.append("entry points failing the check: %s; unlocked/untranslatable: %s" % (bad_methods, static_bad[:6]))
    if ck.thorough and ok:
        ck.leanchecker(["NfcVerif.Props.C15"])

    # ------------------------------------------------------------ L3 + translator validation
    rec = Recorder()
    clf_ref = [None]
    delay = [0.0]
    FakeDevice = make_device(nfc, clf_ref, rec, lambda: delay[0] if delay[0] and rng.random() < 0.3 else 0)
    orig_connect = nfc.clf.device.connect

    def fake_connect(path):
        # driver discovery / initialisation talks to the hardware: it must happen under the lock too
        clf = clf_ref[0]
        locked = clf is not None and clf.lock.locked()
        with rec.mutex:
            rec.calls.append(("connect", locked, True, False, threading.current_thread().name))
            if clf is not None and not locked:
                rec.violations.append(("driver-call-without-lock", "device.connect"))
        return FakeDevice()
    nfc.clf.device.connect = fake_connect
    real_time = nfc.clf.time

    class FastClock(object):
        """the frontend's view of `time`: 100 x faster, sleeps cut short (waiting loops with a
        deadline expire quickly; mutual exclusion must not depend on timing)"""
        def time(self):
            return real_time.time() * 100.0

        def sleep(self, s):
            real_time.sleep(min(s, 0.001))

        def __getattr__(self, name):
            return getattr(real_time, name)
    nfc.clf.time = FastClock()
    import nfc.tag
    orig_activate = nfc.tag.activate
    static_methods = {re.sub(r" \(.*", "", s[2]) for s in tr.sites} | {"connect"}
    seen = set()
    try:
        clf = nfc.clf.ContactlessFrontend()
        clf_ref[0] = clf
        ylock = YieldingLock(rng)
        clf.lock = ylock
        clf.open("fake")
        eps = entry_points(nfc, clf, present_polls=3)
        # tag activation is not the frontend: connect(rdwr=...) gets a stub tag whose presence check goes through
        # clf.exchange; installed once, before any thread starts, removed after the last thread has been joined
        nfc.tag.activate = entry_points.fake_activate
        # single-threaded: every entry point
        for name, fn in eps.items():
            before = len(rec.calls)
            try:
                fn()
            except (IOError, nfc.clf.Error, ValueError, AssertionError):
                pass
            calls = rec.calls[before:]
            for c in calls:
                seen.add(("single", name, c[0]))
                ck.case(("single", name, c[0]), True, "single:" + name,
                        sample={"entry": name, "driver_call": c[0], "lock_held": c[1], "device_open": c[2]})
            if not calls:
                ck.case(("single", name, None), False, "single:" + name)
        # every entry point on a closed frontend: documented IOError(ENODEV) or a plain result, never a call
        # into (or an attribute access on) the device that is gone
        clf.close()
        for name, fn in eps.items():
            if name == "close_open":
                continue
            before = len(rec.calls)
            clf.target = nfc.clf.RemoteTarget("106A")   # a target captured before the device was closed
            try:
                fn()
                res = "returned"
            except IOError:
                res = "IOError"
            except (nfc.clf.Error, ValueError, AssertionError):
                res = "other-documented"
            except (AttributeError, TypeError) as e:
                res = "internal"
                rec.violations.append(("closed-device-used", name + ": " + str(e)[:60]))
            ck.case(("closed", name, res), True, "closed:" + res,
                    sample={"entry": name, "on_closed_frontend": res} if name == "exchange" else None)
        clf.open("fake")
        # multi-threaded stress
        rounds = 12 if ck.thorough else 3
        old_switch = sys.getswitchinterval()
        sys.setswitchinterval(1e-6)   # preempt as often as CPython allows
        ylock.on = True
        nthreads = 6
        delay[0] = 0.0005
        names = sorted(eps)
        for r in range(rounds):
            plan = [[rng.choice(names) if rng.random() < 0.8 else "close_open" for _ in range(14 if ck.thorough else 8)]
                    for _ in range(nthreads)]
            if clf.device is None:
                clf.open("fake")

            def worker(seq):
                for nm in seq:
                    try:
                        eps[nm]()
                    except (IOError, nfc.clf.Error, ValueError, AssertionError):
                        pass
                    except (AttributeError, TypeError) as e:
                        # e.g. 'NoneType' object has no attribute 'mute': the device vanished under a running operation
                        with rec.mutex:
                            rec.violations.append(("device-vanished-during-operation", nm + ": " + str(e)[:60]))
            before = len(rec.calls)
            ths = [threading.Thread(target=worker, args=(plan[i],), name="T%d" % i, daemon=True) for i in range(nthreads)]
            for t in ths:
                t.start()
            for t in ths:
                t.join(120)
            if any(t.is_alive() for t in ths):
                raise Infra("stress threads did not finish (deadlock in the harness or the frontend)")
            for c in rec.calls[before:]:
                ck.case(("stress", r, c[0], c[4]), True, "stress")
        delay[0] = 0.0
        # closer against users: one thread closes/reopens while the others use the device
        stop = [False]

        def closer():
            for _ in range(150 if ck.thorough else 40):
                try:
                    clf.close()
                    clf.open("fake")
                except IOError:
                    pass
            stop[0] = True

        def user(nm):
            while not stop[0]:
                try:
                    eps[nm]()
                except (IOError, nfc.clf.Error, ValueError, AssertionError):
                    pass
                except (AttributeError, TypeError) as e:
                    with rec.mutex:
                        rec.violations.append(("device-vanished-during-operation", nm + ": " + str(e)[:60]))
        before = len(rec.calls)
        ths = [threading.Thread(target=closer, daemon=True, name="closer")] + \
              [threading.Thread(target=user, args=(nm,), daemon=True, name="user-" + nm)
               for nm in ("sense_abf", "exchange", "listen_a", "max_send", "connect_rdwr_beep")]
        for t in ths:
            t.start()
        for t in ths:
            t.join(180)
        if any(t.is_alive() for t in ths):
            raise Infra("closer/user threads did not finish")
        for c in rec.calls[before:]:
            ck.case(("closer", c[0], c[4], c[1], c[2]), True, "closer-vs-users")
        sys.setswitchinterval(old_switch)
        ylock.on = False
        # a long driver call in one thread (listen blocks in the driver) while others close / query
        if clf.device is None:
            clf.open("fake")
        gate = threading.Event()
        entered = threading.Event()
        dev = clf.device
        orig_listen = dev.listen_tta

        def slow_listen(target, timeout):
            dev._enter("listen_tta")
            entered.set()
            gate.wait(0.25)
            dev._leave()
            return None
        dev.listen_tta = slow_listen
        before = len(rec.calls)

        def guarded(fn, nm):
            try:
                fn()
            except (IOError, nfc.clf.Error, ValueError, AssertionError):
                pass
            except (AttributeError, TypeError) as e:
                with rec.mutex:
                    rec.violations.append(("device-vanished-during-operation", nm + ": " + str(e)[:60]))
        t1 = threading.Thread(target=guarded, args=(eps["listen_a"], "listen_a"), daemon=True, name="long-listen")
        t1.start()
        entered.wait(5)
        others = [threading.Thread(target=guarded, args=(f, nm), daemon=True, name="during-" + nm)
                  for nm, f in (("close", clf.close), ("max_send", eps["max_send"]), ("exchange", eps["exchange"]))]
        for t in others:
            t.start()
        real_time.sleep(0.12)       # 12 virtual seconds pass while the driver call is still running
        gate.set()
        for t in [t1] + others:
            t.join(30)
        if any(t.is_alive() for t in [t1] + others):
            raise Infra("long-call scenario did not finish")
        for c in rec.calls[before:]:
            ck.case(("long-call", c[0], c[4], c[1], c[2], c[3]), True, "long-driver-call")
        dev.listen_tta = orig_listen
        # a driver whose close() fails: afterwards the frontend must not keep using that driver object
        if clf.device is None:
            clf.open("fake")
        dead = clf.device
        dead.fail_close = True
        before = len(rec.calls)
        try:
            clf.close()
        except IOError:
            pass
        for name, fn in eps.items():
            if name == "close_open":
                continue
            try:
                fn()
            except (IOError, nfc.clf.Error, ValueError, AssertionError):
                pass
            except (AttributeError, TypeError) as e:
                rec.violations.append(("closed-device-used", name + ": " + str(e)[:60]))
        try:
            clf.close()
        except IOError:
            pass
        for c in rec.calls[before:]:
            ck.case(("failed-close", c[0], c[1], c[2]), True, "after-failed-driver-close")
        clf.open("fake")
    finally:
        nfc.clf.device.connect = orig_connect
        nfc.clf.time = real_time
        nfc.tag.activate = orig_activate

    for kind, name in rec.violations:
        ck.fail(kind + ":" + name, "driver method %s entered %s" % (name, kind.replace("-", " ")),
                {"driver_method": name, "kind": kind,
                 "how": "recording device proxy under harness/props/c15.py entry points (single-threaded pass, then seeded stress)"})
    # translator validation: dynamic calls must be translated sites
    dyn = {c[0] for c in rec.calls}
    missing = sorted(dyn - static_methods)
    ck.tie("driver calls observed dynamically are call sites of the translated program", cases=len(dyn),
           disagreements=len(missing), exhaustive=False)
    for m in missing:
        ck.fail("tie:translator-misses-call-site", "driver method %s was called but is not in the translated program" % m,
                {"driver_method": m})
    ck.count("driver methods observed", len(dyn))
    ck.count("driver calls observed", len(rec.calls))
    if not ok and not rec.violations and static_bad:
        # the proof obligation is broken and the dynamic run did not hit it: report the call site itself
        s = static_bad[0]
        ck.notes.append("static failing site: %r" % (s,))
