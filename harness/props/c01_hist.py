"""C01, part hist - an assignment that returns without error is read back by a fresh activation ALSO when
earlier assignments through the same tag object were aborted by a communication fault.

A history = [(octets, fault), ...] through one `tag.ndef` object (sims/c01_hist.py): a fault makes
state-changing command k of that attempt fail (`lost`: not executed; `status`: refused with an error
status; `late`: executed, but no answer reaches the reader), the TagCommandError reaches the application,
the tag stays in the field and the application assigns again - the same octets, the empty message, the
previous message, other octets, another length format.  The fault is put on EVERY command position of
the first attempt; two- and three-fault histories are sampled.

L1: NfcVerif.Props.C01Hist - for every well-formed layout, every history whose faults are of the
    `lost` kind (any number of failed attempts, any messages up to the capacity, any positions) and every
    final message: the final assignment succeeds and a fresh reader sees exactly it (Type 1/2 with the
    write-back cache of the memory reader inside the model, Type 3, Type 4); for `late` faults the Type 3
    and Type 4 statements hold as well, the Type 1/2 statement does not (counter-example theorem = open
    finding t12-empty-after-unacknowledged-length-write); with the repair of that finding (model variant
    syncUnitsR, chosen when the tree under test has it) it holds for every history.
L2: the real code and the model `NfcVerif.Hist` (driver drv_c01) on the same histories: outcome and ordered
    commands of every attempt, what a fresh reader sees at the end.
L3: on the real code alone: a faulted attempt ends in TagCommandError, the final attempt succeeds and
    a fresh activation reads exactly its octets with the capacity unchanged.
"""
from common import Model
from sims import t34_lib as T
from sims.c01_hist import History, MODES, probe_unconfirmed_repair

LEAN_TARGETS = ["NfcVerif.Props.C01Hist", "drv_c01"]

THEOREMS = [
    "NfcVerif.C01Hist.t12_attempt_clean",
    "NfcVerif.C01Hist.t12_cache_coherent",
    "NfcVerif.C01Hist.t12_history_roundtrip",
    "NfcVerif.C01Hist.t12_unacknowledged_counterexample",
    "NfcVerif.C01Hist.t12_repaired_attempt_clean",
    "NfcVerif.C01Hist.t12_history_roundtrip_repaired",
    "NfcVerif.C01Hist.t3_attempt_clean",
    "NfcVerif.C01Hist.t3_history_roundtrip",
    "NfcVerif.C01Hist.t4_attempt_clean",
    "NfcVerif.C01Hist.t4_history_roundtrip",
]

KNOWN_LATE = "t12-empty-after-unacknowledged-length-write"


def variants(rng, d1, old, cap, k):
    """messages of the attempt that follows a failed attempt of d1 (rotating choice, deterministic)"""
    n = len(d1)
    other = bytes((b + 1 + k) & 255 for b in d1)
    cross = 255 if n < 255 else 254
    pool = [d1, b"", old, other,
            bytes(rng.randrange(256) for _ in range(max(0, min(cap, cross)))),
            bytes(rng.randrange(256) for _ in range(max(0, min(cap, n + rng.choice([-1, 1, 7, -7]))))),
            bytes(rng.randrange(256) for _ in range(cap))]
    return pool


def judge(ck, h, cap):
    """the property on the real code for one finished history"""
    kind = h.kind
    fam = "t3emu" if kind == "emu" else "t1" if kind in ("t1s", "t1d") else kind
    late_before = False
    for i, ((data, fault), res) in enumerate(zip(h.attempts, h.results)):
        last = i == len(h.attempts) - 1
        if fault is not None and h.triggered[i]:
            if res == "ok":
                ck.fail(fam + "-failed-command-not-reported", "%s: attempt %d: command %d failed (%s) but the assignment "
                        "returned normally" % (kind, i, fault[0], fault[1]), h.replay())
                return
            if res != "fail":
                ck.fail(fam + "-failed-command-raises-internal", "%s: attempt %d: command %d failed (%s), the assignment "
                        "raised %s" % (kind, i, fault[0], fault[1], res[4:]), h.replay())
                return
            late_before = late_before or fault[1] == "late"
        elif len(data) > cap:
            # e.g. the previous message of a layout whose stored length exceeds the capacity (finding of C08)
            if res != "exc ValueError" or h.ncmds[i] != 0:
                ck.fail(fam + "-oversize-not-rejected", "%s: attempt %d: %d octets > capacity %d ended %s after %d commands"
                        % (kind, i, len(data), cap, res, h.ncmds[i]), h.replay())
                return
            if last:
                return
        elif res != "ok":
            key = fam + ("-retry-raises" if i else "-write-raises")
            if kind == "t3" and res == "exc ValueError" and h.lay.nbw == 13 and h.lay.nmaxb > 255:
                key = "t3-nbw13-3byte-blocklist-valueerror"
            ck.fail(key, "%s: attempt %d (%d octets, capacity %d, no fault) ended %s after %s"
                    % (kind, i, len(data), cap, res, h.results[:i]), h.replay())
            return
    data = h.attempts[-1][0]
    if h.attempts[-1][1] is not None and h.triggered[-1]:
        return   # the history ends with a failed attempt: nothing promised (C02)
    if h.seen != data or h.seen_cap != cap:
        what = ("%s: %s; the last assignment of %d octets returned normally but a fresh activation reads %s"
                % (kind, "; ".join("attempt %d: %d octets, %s" % (i, len(d), "no fault" if f is None else
                                                                  "command %d %s -> %s" % (f[0], f[1], r))
                                   for i, ((d, f), r) in enumerate(zip(h.attempts, h.results))),
                   len(data), "no NDEF (%s)" % h.final[:40] if h.seen is None else
                   "%d octets%s" % (len(h.seen), "" if h.seen_cap == cap else ", capacity %s" % h.seen_cap)))
        if late_before and fam in ("t1", "t2") and len(data) == 0:
            key = KNOWN_LATE
        elif late_before:
            key = fam + "-retry-after-unacknowledged-write-differs"
        else:
            key = fam + "-retry-after-failed-write-differs"
        ck.fail(key, what, h.replay())


def positions(rng, n, limit):
    ks = list(range(n))
    if n <= limit:
        return ks
    return sorted(set([0, 1, 2, n - 3, n - 2, n - 1] + rng.sample(ks, limit - 6)))


def layouts(ck):
    """(kind, layout, capacity-as-generated) for every tag kind"""
    from sims.t12_run import layout_with_old
    from sims.t34_sims import t3_attr
    rng = ck.rng
    out = []
    n12 = 7 if ck.thorough else 2
    for kind in ("t2", "t1s", "t1d"):
        for i in range(n12):
            out.append((kind, layout_with_old(rng, kind, False, [0, 5, 30, 254, 255, lambda f: f - 4])))
        if kind != "t1s":
            for tf in ((254, 257, 258, 261) if ck.thorough else (257, 261)):
                out.append((kind, layout_with_old(rng, kind, False, [0, 254, 255], target_free=tf)))
    l3 = T.gen_t3(rng, 14 if ck.thorough else 4, ck.thorough)[1:]
    l3.append(T.L3(rng.randrange(1, 16), 12, 300, T.rbytes(rng, 4700, 1), T.rbytes(rng, 16 * 301, 1)))
    out += [("t3", lay) for lay in l3]
    l4 = [lay for lay in T.gen_t4(rng, 16 if ck.thorough else 4, False, big=False) if lay.mfs <= 1000]
    out += [("t4", lay) for lay in l4]
    for nmaxb in ([1, 2, 13, 40, 255, 256, 300] if ck.thorough else [2, 13, 300]):
        nbr, nbw = rng.randrange(1, 16), rng.randrange(1, 13 if nmaxb > 255 else 14)
        old = T.rbytes(rng, rng.choice([0, 16 * nmaxb, rng.randrange(16 * nmaxb + 1)]), 1)
        out.append(("emu", T.L3(nbr, nbw, nmaxb, old, T.rbytes(rng, 16 * (nmaxb + 1), 1))))
    return out


def run_part(ck):
    rng = ck.rng
    ck.rule += (" | hist: case = (tag kind t2|t1s|t1d|t3|t4|emu, layout, history of assignments through one tag object "
                "with a fault on one state-changing command per failed attempt); first attempt: a message of length "
                "{1..8, ~40, 254, 255, capacity} with the fault on EVERY command position (sampled above %d positions) in "
                "every fault mode of the kind; next attempt: same octets | empty | previous message | other octets | other "
                "length format | capacity (rotating); plus sampled two- and three-fault histories; non-trivial = the fault "
                "was triggered and a later attempt completed" % (60 if ck.thorough else 16))
    ck.assumptions += [
        "hist: a fault hits one state-changing command and all its retransmissions; the tag stays in the field and "
        "answers the following commands; `lost`/`status`: the command is not executed, `late`: it is executed and only "
        "the answers are lost; Type 4: the fault is an error status (6581h) to one UPDATE BINARY",
    ]
    ck.trusted += ["hand-written Lean model NfcVerif.Model.HistC01 (memory reader cache, faults), tied by differential runs "
                   "(drv_c01)", "harness/sims/c01_hist.py (fault layer in front of the tag simulators)"]
    ck.lean("NfcVerif.Props.C01Hist", THEOREMS)
    if ck.thorough:
        ck.leanchecker(["NfcVerif.Props.C01Hist"])
    model = Model("drv_c01")
    var = T.probe_variant()
    rep = probe_unconfirmed_repair()
    ck.notes.append("hist: tree under test resends the unit of an unacknowledged write = %s" % rep)
    limit = 60 if ck.thorough else 16
    hs = []

    def add(h, cap, bucket):
        hs.append(h)
        nontriv = any(h.triggered) and h.results and h.results[-1] == "ok"
        ck.case((h.kind, h.base, tuple((d, f) for d, f in h.attempts)), nontriv, bucket)
        judge(ck, h, cap)

    for kind, lay in layouts(ck):
        try:
            explore(ck, kind, lay, add, limit)
        except Exception as e:  # noqa  nfcpy returned / raised something the oracle code did not foresee
            from common import exc_name
            import traceback
            ck.fail("hist-unexpected-behaviour", "%s: exploring histories on this layout ended with %s: %s"
                    % (kind, exc_name(e), traceback.format_exc().strip().split("\n")[-3:]),
                    {"kind": kind, "layout": (lay.descr() if hasattr(lay, "descr") else {"memory": bytes(lay["mem"]).hex()})})

    replies = model.ask_many([h.request(var, rep) for h in hs])
    dis = 0
    for h, rep in zip(hs, replies):
        if rep != h.line:
            dis += 1
            ck.fail("tie:hist-model-vs-nfcpy", "%s: model %r, implementation %r" % (h.kind, rep[-300:], h.line[-300:]),
                    dict(h.replay(), request=h.request(var, rep)[:3000], model=rep[:3000], impl=h.line[:3000]))
    ck.tie("Hist model vs nfcpy: assignments through one tag object with faults (outcome + commands of every attempt, "
           "fresh reader at the end)", cases=len(hs), disagreements=dis, exhaustive=False)


def explore(ck, kind, lay, add, limit):
    rng = ck.rng
    if True:
        probe = History(kind, lay, [(b"", None)])
        if probe.obj.nd is None:
            ck.fail("hist-wellformed-layout-not-ndef", "%s: activation finds no NDEF: %s" % (kind, probe.line[:60]), probe.replay())
            return
        cap, old = probe.obj.cap, probe.obj.old
        if cap < 1:
            return
        lens = sorted(set(n for n in [rng.randrange(1, 9), min(cap, rng.choice([17, 40, 47])), 254, 255, cap] if 1 <= n <= cap))
        if not ck.thorough and len(lens) > 3:
            lens = sorted(set([lens[0], rng.choice(lens[1:-1]), lens[-1]]))
        if kind in ("t3", "emu", "t4") and cap > 600:
            lens = [n for n in lens if n <= 600] + ([cap] if ck.thorough or kind == "emu" else [])
        for n1 in lens:
            d1 = T.rbytes(rng, n1, 1)
            clean = History(kind, lay, [(d1, None)])
            add(clean, cap, "%s:clean" % kind)
            if clean.results != ["ok"]:
                continue
            ncmd = clean.ncmds[0]
            big = n1 > 600
            for k in positions(rng, ncmd, 8 if big else limit):
                for mi, mode in enumerate(MODES[kind]):
                    pool = variants(rng, d1, old, cap, k)
                    picks = [pool[0]] if big else [pool[(k + mi) % len(pool)], pool[(k + mi + 3) % len(pool)]]
                    if not ck.thorough and not big and (k + mi) % 2:
                        picks = picks[:1]
                    if k >= ncmd - 2 and not big:
                        picks = pool[:4]          # the last commands carry the length field: every follow-up kind
                    for d2 in picks:
                        add(History(kind, lay, [(d1, (k, mode)), (d2, None)]), cap, "%s:1-fault:%s" % (kind, mode))
            # several failed attempts in a row, then a complete one
            for _ in range(2 if big else 6 if ck.thorough else 2):
                nf = rng.choice([2, 2, 3])
                atts = []
                d = d1
                for _i in range(nf):
                    atts.append((d, (rng.randrange(0, max(1, ncmd)), rng.choice(MODES[kind]))))
                    d = rng.choice(variants(rng, d1, old, min(cap, 600), rng.randrange(9)))
                atts.append((d, None))
                add(History(kind, lay, atts), cap, "%s:%d-faults" % (kind, nf))
