"""C02, part t34 - an interrupted NDEF write on Type 3 / Type 4 / emulated Type 3 never leaves a corrupt message.

L1: theorems of NfcVerif.Props.C02T34 (every prefix of the command sequence of a write).
L2: the ordered state-changing commands of the real write (= the crash schedule) and what a
    fresh reader reports on the memory after every cut are compared with the Lean model.
L3: for every k the simulated tag loses power when state-changing command k+1 arrives; a fresh
    activation on that memory is classified: none / old / empty / not readable / new - or corrupt.
Histories (histories34): assignments through ONE tag object, a fault on every Write / UPDATE BINARY position - not
    executed (lost, error status) or executed but unacknowledged -, follow-up assignments undisturbed or disturbed
    again: theorems t3_history_cut_safe / t3_retry_cut_safe / t4_history_cut_safe / t4_retry_cut_safe, tie with the
    models Hist.t3History / Hist.t4History (drv_c02) and oracle after EVERY attempt (Type 3, Type 4, emulated Type 3).
"""
from common import Model, hx, exc_name
from sims import t34_lib as T
from sims.t34_sims import EmuLink, t3_attr

LEAN_TARGETS = ["NfcVerif.Props.C02T34", "drv_t34", "drv_c02"]

THEOREMS = [
    "NfcVerif.C02T34.t3_cut_safe",
    "NfcVerif.C02T34.t4_cut_safe",
    "NfcVerif.C02T34.t4_cut_counterexample_small_mlc",
    "NfcVerif.C02T34.t3_retry_cut_safe",
    "NfcVerif.C02T34.t3_history_cut_safe",
    "NfcVerif.C02T34.t4_retry_cut_safe",
    "NfcVerif.C02T34.t4_history_cut_safe",
]


def cut_points(rng, total, thorough):
    if total <= (400 if thorough else 30):
        return list(range(total + 1))
    ks = set(range(0, 4)) | set(range(total - 3, total + 1))
    while len(ks) < (40 if thorough else 12):
        ks.add(rng.randrange(total + 1))
    return sorted(ks)


def run_part(ck):
    rng = ck.rng
    ck.rule += (" | t34: cases = (layout, old message, new message, cut point k): the simulated tag executes the first k "
                "state-changing commands of the write and is then read by a fresh activation; all k for short writes, "
                "first/last/random k for long ones; non-trivial = 0 < k < number of commands")
    ck.assumptions += [
        "t34: atomicity unit = one tag command (one Type 3 Write Without Encryption block list, one UPDATE BINARY)",
        "t34: Type 4 layouts with MLc smaller than the NLEN field (2 or 4 octets) are excluded from the theorem: "
        "no order of updates can change NLEN atomically there (finding t4-torn-nlen-mlc-below-nlen-size)",
    ]
    ck.trusted += ["Lean models NfcVerif.Model.T3 / T4 tied by drv_t34; harness/sims/t34_sims.py (power cut = the tag "
                   "does not execute command k+1 and stays silent)"]
    ck.lean("NfcVerif.Props.C02T34", THEOREMS)
    if ck.thorough:
        ck.leanchecker(["NfcVerif.Props.C02T34"])
    model = Model("drv_t34")
    var = T.probe_variant()
    ck.notes.append("t34: tree under test has repairs (NLEN loop, short APDU limits) = %s" % var)
    jobs = []
    nl3, nl4 = (120, 200) if ck.thorough else (16, 30)
    lays = T.gen_t3(rng, nl3, ck.thorough, big=ck.thorough) + T.gen_t4(rng, nl4, ck.thorough, big=False)
    for lay in lays:
        cap = lay.cap
        for n in sorted({0, rng.choice([1, 10, 17]), rng.choice([254, 255, 256, 300]), rng.randrange(cap + 1), cap} & set(range(cap + 1))):
            new = T.rbytes(rng, n, 1)
            full = T.SetRun(lay.sim(), new)
            if full.res is None:
                continue
            total = len(full.sim.writes)
            if lay.kind == "t3":
                jobs.append((T.t3_req("set", lay.mem, new), full.line, {"layout": lay.descr(), "data": new.hex()}))
            else:
                jobs.append((T.t4_req("set", var, lay, lay.file, new), full.line, {"layout": lay.descr(), "data": new.hex()}))
            for k in cut_points(rng, total, ck.thorough):
                sim = lay.sim(cut=k)
                run = T.SetRun(sim, new)
                replay = {"layout": lay.descr(), "data": new.hex(), "cut_after": k, "commands": total}
                if len(sim.writes) != min(k, total):
                    ck.fail("tie:t34-cut-harness", "cut %d executed %d commands" % (k, len(sim.writes)), replay)
                if k < total and not (run.res or "").startswith("exc TagCommandError"):
                    ck.fail(lay.kind + "-cut-not-reported", "write interrupted at %d ended %s" % (k, run.res), replay)
                mem = bytes(sim.mem) if lay.kind == "t3" else bytes(sim.file)
                fresh = lay.sim(mem=mem) if lay.kind == "t3" else lay.sim(file=mem)
                line, _ = T.see(fresh)
                jobs.append((T.t3_req("see", mem) if lay.kind == "t3" else T.t4_req("see", var, lay, mem), line, replay))
                cls = T.classify(line, lay.old, new)
                if cls == "corrupt":
                    key = lay.kind + "-cut-corrupt"
                    if lay.kind == "t4" and lay.mlc < lay.nl:
                        key = "t4-torn-nlen-mlc-below-nlen-size"
                    ck.fail(key, "old %d octets, new %d octets, cut after command %d of %d: fresh reader sees %s"
                            % (len(lay.old), n, k, total, line[:90]), replay)
                elif cls == "raises":
                    ck.fail(lay.kind + "-cut-reader-raises", "fresh reader after cut %d/%d: %s" % (k, total, line), replay)
                ck.case((lay.key(), lay.old, new, k), 0 < k < total, "%s:%s" % (lay.kind, cls),
                        sample={"layout": {a: b for a, b in lay.descr().items() if a not in ("mem", "file_head")},
                                "new_len": n, "cut": k, "of": total, "sees": cls} if len(ck.samples) < 3 and 0 < k < total else None)
    failed_writes(ck, lays)
    stale_object_cuts(ck, lays, var, jobs)
    try:
        cached_reader_cuts(ck, lays, var, jobs)
    except Exception as e:  # noqa  nfcpy returned / raised something the oracle code did not foresee
        from common import Infra
        if isinstance(e, Infra):
            raise
        import traceback
        ck.fail("t34-cached-reader-unexpected-behaviour", "exploring cached readers ended with %s: %s"
                % (exc_name(e), traceback.format_exc().strip().split("\n")[-3:]), {"seed": ck.seed})
    T.compare(ck, model, jobs, "t34-cut-model-vs-nfcpy")
    emu_cuts(ck)
    try:
        histories34(ck, lays, var)
    except Exception as e:  # noqa  nfcpy returned / raised something the oracle code did not foresee
        from common import Infra
        if isinstance(e, Infra):
            raise
        import traceback
        ck.fail("t34-history-unexpected-behaviour", "exploring histories ended with %s: %s"
                % (exc_name(e), traceback.format_exc().strip().split("\n")[-3:]), {"seed": ck.seed})


def pick(rng, total, limit):
    ks = list(range(total))
    return ks if total <= limit else sorted(set([0, 1, 2, total - 1] + rng.sample(ks, limit - 4)))


def failed_writes(ck, lays):
    """a write that FAILS at state-changing command k while the tag stays powered: the tag answers that command
    with an error status (Type 3: FF70h, Type 4: 6581h) or - Type 3 - stays silent for as long as the reader
    retries; the command is not executed.  The writer's error path runs; afterwards a fresh reader must see
    old / empty / not readable / new, the model (runW / runU stop at the first failing command) says that no
    further state-changing command is sent, and a retry on the same NDEF object must complete the write."""
    rng = ck.rng
    dis = n_tie = 0
    for lay in lays:
        cap = lay.cap
        if cap < 1 or len(lay.old) < 1:
            continue
        for n in sorted({rng.choice([1, 17, 40]), rng.randrange(cap + 1), cap} & set(range(1, cap + 1))):
            new = T.rbytes(rng, n, 1)
            full = T.SetRun(lay.sim(), new)
            if full.res != "ok":
                continue
            total = len(full.sim.writes)
            for k in pick(rng, total, 40 if ck.thorough else 8):
                for mode in (("status", "lost") if lay.kind == "t3" else ("status",)):
                    sim = lay.sim()
                    sim.inject_failure(k, mode)
                    replay = {"layout": lay.descr(), "data": new.hex(), "fails_at_command": k, "commands": total,
                              "failure": {"status": "error status FF70h / 6581h", "lost": "no response (3 attempts)"}[mode]}
                    try:
                        nd = sim.activate().ndef
                        nd.octets = new
                        res = "ok"
                    except Exception as e:  # noqa
                        res = "exc " + T.xname(e)
                    if not res.startswith("exc TagCommandError"):
                        ck.fail(lay.kind + "-failed-command-not-reported", "command %d of %d failed (%s), the write ended %s"
                                % (k, total, mode, res), replay)
                        continue
                    n_tie += 1
                    if len(sim.writes) != k or sim.writes != full.sim.writes[:k]:
                        dis += 1
                        ck.fail("tie:t34-failed-write-commands", "model: a write failing at command %d sends nothing after it; "
                                "the implementation executed %d state-changing commands" % (k, len(sim.writes)), replay)
                    mem = bytes(sim.mem) if lay.kind == "t3" else bytes(sim.file)
                    line, _ = T.see(lay.sim(mem=mem) if lay.kind == "t3" else lay.sim(file=mem))
                    cls = T.classify(line, lay.old, new)
                    if cls in ("corrupt", "raises"):
                        key = "%s-failed-write-%s" % (lay.kind, cls)
                        if lay.kind == "t4" and lay.mlc < lay.nl and cls == "corrupt":
                            key = "t4-torn-nlen-mlc-below-nlen-size"
                        ck.fail(key, "old %d octets, new %d octets, command %d of %d failed "
                                "(%s, tag stays powered): fresh reader sees %s" % (len(lay.old), n, k, total, mode, line[:90]), replay)
                    ck.case((lay.key(), lay.old, new, k, mode), True, "%s:failed-%s:%s" % (lay.kind, mode, cls))
                    # the application retries on the same object
                    try:
                        nd.octets = new
                        res2 = "ok"
                    except Exception as e:  # noqa
                        res2 = "exc " + T.xname(e)
                    mem = bytes(sim.mem) if lay.kind == "t3" else bytes(sim.file)
                    line2, _ = T.see(lay.sim(mem=mem) if lay.kind == "t3" else lay.sim(file=mem))
                    if res2 != "ok" or T.classify(line2, b"\x00impossible", new) != "new":
                        ck.fail(lay.kind + "-retry-after-failed-write", "retry on the same object after the failure at command %d: "
                                "%s, fresh reader sees %s" % (k, res2, line2[:90]), replay)
    ck.tie("t34-failed-write-commands", n_tie, dis, False)


def stale_object_cuts(ck, lays, var, jobs):
    """the NDEF object was created while the tag held an EMPTY message; meanwhile the tag received the message
    `old` (another writer); the application now writes through the stale object and power is cut after command k.
    The commands must not depend on what the object remembers: they are compared with the model of a write on
    the current contents, and every cut is classified against the message really on the tag."""
    from sims.t34_sims import t3_attr
    rng = ck.rng
    for lay in lays:
        cap = lay.cap
        if len(lay.old) < 1:
            continue
        if lay.kind == "t3":
            empty = t3_attr(lay.ver, lay.nbr, lay.nbw, lay.nmaxb, 0, lay.rw, 0) + lay.mem[16:]
            cur = lay.mem
        else:
            empty = bytes(lay.nl) + lay.file[lay.nl:]
            cur = lay.file

        def run(cut, new):
            sim = lay.sim(mem=empty, cut=cut) if lay.kind == "t3" else lay.sim(file=empty, cut=cut)
            try:
                nd = sim.activate().ndef
            except Exception:  # noqa
                return None, None
            if nd is None or nd.length != 0:
                return None, None
            if lay.kind == "t3":
                sim.mem[:] = cur
            else:
                sim.file[:] = cur
            try:
                nd.octets = new
                res = "ok"
            except Exception as e:  # noqa
                res = "exc " + T.xname(e)
            return sim, res

        for n in sorted({rng.choice([1, 17, 60]), rng.randrange(cap + 1)} & set(range(1, cap + 1))):
            new = T.rbytes(rng, n, 1)
            sim, res = run(None, new)
            if sim is None or res != "ok":
                continue
            total = len(sim.writes)
            replay0 = {"layout": lay.descr(), "data": new.hex(), "stale_object": "created on an empty tag"}
            if lay.kind == "t3":
                line = "%s cmds=%s mem=%s" % (res, T.t3_cmds(sim), hx(sim.mem))
                jobs.append((T.t3_req("set", cur, new), line, replay0))
            else:
                line = "%s cmds=%s mem=%s" % (res, T.t4_cmds(sim), hx(sim.file))
                jobs.append((T.t4_req("set", var, lay, cur, new), line, replay0))
            for k in ([0] + pick(rng, total, 30 if ck.thorough else 8)):
                simk, _ = run(k, new)
                mem = bytes(simk.mem) if lay.kind == "t3" else bytes(simk.file)
                seen, _ = T.see(lay.sim(mem=mem) if lay.kind == "t3" else lay.sim(file=mem))
                cls = T.classify(seen, lay.old, new)
                if cls in ("corrupt", "raises"):
                    key = "%s-stale-object-cut-%s" % (lay.kind, cls)
                    if lay.kind == "t4" and lay.mlc < lay.nl:
                        key = "t4-torn-nlen-mlc-below-nlen-size"
                    ck.fail(key, "object created on the empty tag, tag meanwhile holds %d octets, write of %d octets cut after "
                            "command %d of %d: fresh reader sees %s" % (len(lay.old), n, k, total, seen[:90]),
                            dict(replay0, cut_after=k, commands=total))
                ck.case((lay.key(), "stale", lay.old, new, k), 0 < k < total, "%s:stale:%s" % (lay.kind, cls))


def cached_reader_cuts(ck, lays, var, jobs):
    """a READER that built its tag.ndef object BEFORE the write (Type 4: capability container, file id, NLEN size,
    MLe cached in the object; Type 3: attribute values) looks again with `tag.ndef.has_changed` after another device's
    write was cut at command k: it must see what a fresh reader of that memory sees - old / empty / not readable /
    none / new - and has_changed must say whether the octets differ from the ones it held.  Tie: the cached reader's
    view equals the model's view of that memory (theorem t4_cached_reader_is_fresh: in the model the cached reader IS the
    fresh reader, the capability container does not change)."""
    rng = ck.rng
    n = 0
    for lay in lays:
        cap = lay.cap
        if cap < 1:
            continue
        new = T.rbytes(rng, rng.choice([0, 1, min(cap, 17), rng.randrange(cap + 1), cap]), 1)
        full = T.SetRun(lay.sim(), new)
        if full.res != "ok":
            continue
        total = len(full.sim.writes)
        small_mlc = lay.kind == "t4" and lay.mlc < lay.nl
        for k in sorted(set([0, 1, total - 1, total] + pick(rng, total, 30 if ck.thorough else 6))):
            if k < 0:
                continue
            w = lay.sim(cut=k)
            T.SetRun(w, new)
            image = bytes(w.mem) if lay.kind == "t3" else bytes(w.file)
            fresh, _ = T.see(lay.sim(mem=image) if lay.kind == "t3" else lay.sim(file=image))
            replay = {"layout": lay.descr(), "data": new.hex(), "cut_after": k, "commands": total,
                      "reader": "tag.ndef created before the write; tag.ndef.has_changed after the cut"}
            rs = lay.sim()
            try:
                tag = rs.activate()
                nd = tag.ndef
            except Exception:  # noqa  (judged by the cut exploration)
                continue
            if nd is None:
                continue
            held = bytes(nd.octets)
            if lay.kind == "t3":
                rs.mem[:] = image
            else:
                rs.file[:] = image
            try:
                changed = nd.has_changed
                nd2 = tag.ndef
                line = T.seen_line(nd2)
            except Exception as e:  # noqa
                ck.fail(lay.kind + "-cached-reader-raises", "has_changed after cut %d/%d raised %s" % (k, total, T.xname(e)), replay)
                continue
            n += 1
            jobs.append((T.t3_req("see", image) if lay.kind == "t3" else T.t4_req("see", var, lay, image), line, replay))
            cls = T.classify(line, lay.old, new)
            ck.case((lay.key(), "cached-reader", lay.old, new, k), 0 < k < total, "%s:cached-reader:%s" % (lay.kind, cls))
            if cls == "corrupt":
                ck.fail("t4-torn-nlen-mlc-below-nlen-size" if small_mlc else lay.kind + "-cached-reader-cut-corrupt",
                        "old %d octets, new %d octets, cut after command %d of %d: the reader that cached the tag's management "
                        "data before the write sees %s" % (len(lay.old), len(new), k, total, line[:90]), replay)
            elif line != fresh:
                ck.fail(lay.kind + "-cached-reader-differs-from-fresh", "cut after command %d of %d: cached reader sees %s, a fresh "
                        "reader %s" % (k, total, line[:90], fresh[:90]), replay)
            elif changed != (nd2 is None or bytes(nd2.octets) != held):
                ck.fail(lay.kind + "-has-changed-wrong", "cut after command %d of %d: has_changed = %s, held %d octets, now %s"
                        % (k, total, changed, len(held), line[:60]), replay)
    ck.notes.append("t34: %d looks through tag.ndef objects created before the cut write (has_changed)" % n)


def emu_cuts(ck):
    rng = ck.rng
    for _ in range(40 if ck.thorough else 8):
        nbr, nbw, nmaxb = rng.randrange(1, 16), rng.randrange(1, 13), rng.choice([1, 2, 5, 13, 40])
        cap = nmaxb * 16
        old = T.rbytes(rng, rng.choice([0, cap, rng.randrange(cap + 1)]), 1)
        store = bytearray(T.rbytes(rng, 16 * (nmaxb + 1), 1))
        store[0:16] = t3_attr(0x10, nbr, nbw, nmaxb, 0, 1, len(old))
        store[16:16 + len(old)] = old
        new = T.rbytes(rng, rng.choice([0, cap, rng.randrange(cap + 1)]), 1)
        link = EmuLink(store)
        rep = {"emulated": True, "nbr": nbr, "nbw": nbw, "nmaxb": nmaxb, "old": old.hex(), "new": new.hex()}
        try:
            link.activate().ndef.octets = new
        except Exception as e:  # noqa
            ck.fail("t3emu-write-raises", "uninterrupted write on the emulated tag: " + exc_name(e), rep)
            continue
        total = len(link.writes)
        for k in range(total + 1):
            link = EmuLink(store, cut=k)
            try:
                nd = link.activate().ndef
                nd.octets = new
            except Exception as e:  # noqa
                if not exc_name(e).startswith("TagCommandError"):
                    ck.fail("t3emu-cut-not-reported", exc_name(e), dict(rep, cut=k))
            line, _ = T.see(EmuLink(link.store))
            cls = T.classify(line, old, new)
            if cls in ("corrupt", "raises"):
                ck.fail("t3emu-cut-" + cls, "cut %d/%d: %s" % (k, total, line[:90]),
                        {"emulated": True, "nbr": nbr, "nbw": nbw, "nmaxb": nmaxb, "old": old.hex(), "new": new.hex(), "cut": k})
            ck.case(("emu", nbr, nbw, nmaxb, old, new, k), 0 < k < total, "t3emu:" + cls)


def judge34(ck, h, lay):
    """C02 on the real code, attempt by attempt: after attempt i a fresh reader sees what it saw before the attempt,
    no NDEF, a not-readable area, an empty message or exactly the octets of attempt i; a completed attempt is read
    back; a triggered fault is reported as TagCommandError"""
    from sims.c02_hist import describe
    kind = h.kind
    fam = "t3emu" if kind == "emu" else kind
    small_mlc = kind == "t4" and lay.mlc < lay.nl
    before = h.old
    for i, ((data, fault), res, view) in enumerate(zip(h.attempts, h.results, h.views)):
        where = "%s: %s" % (kind, describe(h))
        trig = fault is not None and h.triggered[i]
        if trig and res == "ok":
            ck.fail(fam + "-failed-command-not-reported", where + ": attempt %d returned normally although command %d "
                    "failed" % (i, fault[0]), h.replay())
            return
        if res.startswith("exc") and not (len(data) > h.cap and res == "exc ValueError"):
            key = fam + "-retry-raises"
            if kind == "t3" and res == "exc ValueError" and lay.nbw == 13 and lay.nmaxb > 255:
                return   # finding of C01 (t3-nbw13-3byte-blocklist-valueerror): no command was sent
            ck.fail(key, where + ": attempt %d raised %s" % (i, res[4:]), h.replay())
            return
        if not trig and len(data) <= h.cap and res != "ok":
            ck.fail(fam + "-retry-raises", where + ": attempt %d (no fault triggered) ended %s" % (i, res), h.replay())
            return
        line = view[0]
        cls = T.classify(line, before if before is not None else b"\x00impossible", data)
        if cls == "raises":
            ck.fail(fam + "-cut-reader-raises", where + ": after attempt %d a fresh reader raises %s" % (i, line), h.replay())
            return
        bad = cls == "corrupt" or (res == "ok" and cls != "new") or (cls == "new" and len(data) > h.cap)
        if bad:
            key = "t4-torn-nlen-mlc-below-nlen-size" if small_mlc else fam + "-history-corrupt"
            ck.fail(key, where + ": after attempt %d a fresh reader sees %s - neither what was there before the attempt, nor "
                    "no NDEF / not readable / empty, nor the octets of the attempt" % (i, line[:90]), h.replay())
            return
        before = view[1] if cls not in ("none", "not-readable") else None


def histories34(ck, lays, var):
    """histories of assignments through ONE tag object with faults of both kinds at every command position, compared
    with the models Hist.t3History / Hist.t4History (driver drv_c02) after every attempt"""
    from sims.c02_hist import HistRun, MODES
    rng = ck.rng
    model = Model("drv_c02")
    limit = 40 if ck.thorough else 6
    n3, n4 = (24, 28) if ck.thorough else (3, 4)
    pool3 = [lay for lay in lays if lay.kind == "t3" and not (lay.nbw == 13 and lay.nmaxb > 255)]
    pool4 = [lay for lay in lays if lay.kind == "t4" and lay.mfs <= 1000]
    small = [lay for lay in pool4 if lay.mlc < lay.nl][:1]
    chosen = [("t3", x) for x in rng.sample(pool3, min(n3, len(pool3)))]
    chosen += [("t4", x) for x in rng.sample([y for y in pool4 if y.mlc >= y.nl], min(n4, len(pool4)))] + [("t4", x) for x in small]
    for nmaxb in ([1, 2, 13, 40] if ck.thorough else [2, 13]):
        nbr, nbw = rng.randrange(1, 16), rng.randrange(1, 13)
        old = T.rbytes(rng, rng.choice([0, 16 * nmaxb, rng.randrange(16 * nmaxb + 1)]), 1)
        chosen.append(("emu", T.L3(nbr, nbw, nmaxb, old, T.rbytes(rng, 16 * (nmaxb + 1), 1))))
    hs = []

    def add(h, lay, bucket):
        hs.append(h)
        if h.obj.nd is None:
            return
        ck.case(("hist", h.kind, h.base, tuple(h.attempts)), any(h.triggered), bucket)
        judge34(ck, h, lay)

    for kind, lay in chosen:
        probe = HistRun(kind, lay, [(b"\x01", None)])
        if probe.obj.nd is None:
            continue
        cap, old = probe.cap, probe.old
        if cap < 1:
            continue
        lens = sorted(set(n for n in [rng.randrange(1, 9), min(cap, rng.choice([17, 33, 47])), min(cap, 300), cap] if 1 <= n <= min(cap, 600)))
        if not ck.thorough and len(lens) > 2:
            lens = [lens[0], rng.choice(lens[1:])]
        for n1 in lens:
            d1 = T.rbytes(rng, n1, 1)
            clean = HistRun(kind, lay, [(d1, None)])
            add(clean, lay, "hist:%s:clean" % kind)
            if clean.results != ["ok"]:
                continue
            ncmd = clean.ncmds[0]
            ks = list(range(ncmd)) if ncmd <= limit else sorted(set([0, 1, ncmd - 2, ncmd - 1] + rng.sample(range(ncmd), limit - 4)))
            other = bytes((b + 1) & 255 or 1 for b in d1)
            pool = [d1, b"", old[:cap], other, T.rbytes(rng, max(0, min(cap, n1 + rng.choice([-1, 1, 16, -16]))), 1),
                    T.rbytes(rng, min(cap, 600), 1)]
            for k in ks:
                for mi, mode in enumerate(MODES[kind]):
                    d2 = pool[(k + mi) % len(pool)]
                    add(HistRun(kind, lay, [(d1, (k, mode)), (d2, None)]), lay, "hist:%s:1-fault:%s" % (kind, mode))
                    m2 = rng.choice(MODES[kind])
                    add(HistRun(kind, lay, [(d1, (k, mode)), (d2, (rng.randrange(0, 4), m2)), (rng.choice(pool), None)]), lay,
                        "hist:%s:2-faults:%s+%s" % (kind, mode, m2))
            for _ in range(12 if ck.thorough else 2):
                atts, d = [], d1
                for _i in range(rng.choice([2, 3, 4])):
                    atts.append((d, (rng.randrange(0, max(1, ncmd)), rng.choice(MODES[kind]))))
                    d = rng.choice(pool)
                if rng.random() < 0.6:
                    atts.append((d, None))
                add(HistRun(kind, lay, atts), lay, "hist:%s:%d-faults" % (kind, len(atts)))
    replies = model.ask_many([h.request(var) for h in hs])
    dis = 0
    for h, r in zip(hs, replies):
        if r != h.line:
            dis += 1
            ck.fail("tie:t34-history-model-vs-nfcpy", "%s: model %r, implementation %r" % (h.kind, r[-300:], h.line[-300:]),
                    dict(h.replay(), request=h.request(var)[:3000], model=r[:3000], impl=h.line[:3000]))
    ck.tie("Hist model vs tt3/tt4/emulated Type 3: assignments through one tag object with faults of both kinds - outcome, "
           "ordered commands and the fresh reader's view after EVERY attempt", len(hs), dis, False)
