"""C02, part t34 - an interrupted NDEF write on Type 3 / Type 4 / emulated Type 3 never leaves a corrupt message.

L1: theorems of NfcVerif.Props.C02T34 (every prefix of the command sequence of a write).
L2: the ordered state-changing commands of the real write (= the crash schedule) and what a
    fresh reader reports on the memory after every cut are compared with the Lean model.
L3: for every k the simulated tag loses power when state-changing command k+1 arrives; a fresh
    activation on that memory is classified: none / old / empty / not readable / new - or corrupt.
"""
from common import Model, hx, exc_name
from sims import t34_lib as T
from sims.t34_sims import EmuLink, t3_attr

LEAN_TARGETS = ["NfcVerif.Props.C02T34", "drv_t34"]

THEOREMS = [
    "NfcVerif.C02T34.t3_cut_safe",
    "NfcVerif.C02T34.t4_cut_safe",
    "NfcVerif.C02T34.t4_cut_counterexample_small_mlc",
]


def cut_points(rng, total, thorough):
    if total <= (400 if thorough else 30):
        return list(range(total + 1))
    ks = set(range(0, 4)) | set(range(total - 3, total + 1))
    while len(ks) < (40 if thorough else 12):
        ks.add(rng.randrange(total + 1))
    return sorted(ks)


def run_part(ck):
    rng = ck.rng
    ck.rule += (" | t34: cases = (layout, old message, new message, cut point k): the simulated tag executes the first k "
                "state-changing commands of the write and is then read by a fresh activation; all k for short writes, "
                "first/last/random k for long ones; non-trivial = 0 < k < number of commands")
    ck.assumptions += [
        "t34: atomicity unit = one tag command (one Type 3 Write Without Encryption block list, one UPDATE BINARY)",
        "t34: Type 4 layouts with MLc smaller than the NLEN field (2 or 4 octets) are excluded from the theorem: "
        "no order of updates can change NLEN atomically there (finding t4-torn-nlen-mlc-below-nlen-size)",
    ]
    ck.trusted += ["Lean models NfcVerif.Model.T3 / T4 tied by drv_t34; harness/sims/t34_sims.py (power cut = the tag "
                   "does not execute command k+1 and stays silent)"]
    ck.lean("NfcVerif.Props.C02T34", THEOREMS)
    if ck.thorough:
        ck.leanchecker(["NfcVerif.Props.C02T34"])
    model = Model("drv_t34")
    var = T.probe_variant()
    ck.notes.append("t34: tree under test has repairs (NLEN loop, short APDU limits) = %s" % var)
    jobs = []
    nl3, nl4 = (120, 200) if ck.thorough else (16, 30)
    lays = T.gen_t3(rng, nl3, ck.thorough, big=ck.thorough) + T.gen_t4(rng, nl4, ck.thorough, big=False)
    for lay in lays:
        cap = lay.cap
        for n in sorted({0, rng.choice([1, 10, 17]), rng.choice([254, 255, 256, 300]), rng.randrange(cap + 1), cap} & set(range(cap + 1))):
            new = T.rbytes(rng, n, 1)
            full = T.SetRun(lay.sim(), new)
            if full.res is None:
                continue
            total = len(full.sim.writes)
            if lay.kind == "t3":
                jobs.append((T.t3_req("set", lay.mem, new), full.line, {"layout": lay.descr(), "data": new.hex()}))
            else:
                jobs.append((T.t4_req("set", var, lay, lay.file, new), full.line, {"layout": lay.descr(), "data": new.hex()}))
            for k in cut_points(rng, total, ck.thorough):
                sim = lay.sim(cut=k)
                run = T.SetRun(sim, new)
                replay = {"layout": lay.descr(), "data": new.hex(), "cut_after": k, "commands": total}
                if len(sim.writes) != min(k, total):
                    ck.fail("tie:t34-cut-harness", "cut %d executed %d commands" % (k, len(sim.writes)), replay)
                if k < total and not (run.res or "").startswith("exc TagCommandError"):
                    ck.fail(lay.kind + "-cut-not-reported", "write interrupted at %d ended %s" % (k, run.res), replay)
                mem = bytes(sim.mem) if lay.kind == "t3" else bytes(sim.file)
                fresh = lay.sim(mem=mem) if lay.kind == "t3" else lay.sim(file=mem)
                line, _ = T.see(fresh)
                jobs.append((T.t3_req("see", mem) if lay.kind == "t3" else T.t4_req("see", var, lay, mem), line, replay))
                cls = T.classify(line, lay.old, new)
                if cls == "corrupt":
                    key = lay.kind + "-cut-corrupt"
                    if lay.kind == "t4" and lay.mlc < lay.nl:
                        key = "t4-torn-nlen-mlc-below-nlen-size"
                    ck.fail(key, "old %d octets, new %d octets, cut after command %d of %d: fresh reader sees %s"
                            % (len(lay.old), n, k, total, line[:90]), replay)
                elif cls == "raises":
                    ck.fail(lay.kind + "-cut-reader-raises", "fresh reader after cut %d/%d: %s" % (k, total, line), replay)
                ck.case((lay.key(), lay.old, new, k), 0 < k < total, "%s:%s" % (lay.kind, cls),
                        sample={"layout": {a: b for a, b in lay.descr().items() if a not in ("mem", "file_head")},
                                "new_len": n, "cut": k, "of": total, "sees": cls} if len(ck.samples) < 3 and 0 < k < total else None)
    T.compare(ck, model, jobs, "t34-cut-model-vs-nfcpy")
    emu_cuts(ck)


def emu_cuts(ck):
    rng = ck.rng
    for _ in range(40 if ck.thorough else 8):
        nbr, nbw, nmaxb = rng.randrange(1, 16), rng.randrange(1, 13), rng.choice([1, 2, 5, 13, 40])
        cap = nmaxb * 16
        old = T.rbytes(rng, rng.choice([0, cap, rng.randrange(cap + 1)]), 1)
        store = bytearray(T.rbytes(rng, 16 * (nmaxb + 1), 1))
        store[0:16] = t3_attr(0x10, nbr, nbw, nmaxb, 0, 1, len(old))
        store[16:16 + len(old)] = old
        new = T.rbytes(rng, rng.choice([0, cap, rng.randrange(cap + 1)]), 1)
        link = EmuLink(store)
        rep = {"emulated": True, "nbr": nbr, "nbw": nbw, "nmaxb": nmaxb, "old": old.hex(), "new": new.hex()}
        try:
            link.activate().ndef.octets = new
        except Exception as e:  # noqa
            ck.fail("t3emu-write-raises", "uninterrupted write on the emulated tag: " + exc_name(e), rep)
            continue
        total = len(link.writes)
        for k in range(total + 1):
            link = EmuLink(store, cut=k)
            try:
                nd = link.activate().ndef
                nd.octets = new
            except Exception as e:  # noqa
                if not exc_name(e).startswith("TagCommandError"):
                    ck.fail("t3emu-cut-not-reported", exc_name(e), dict(rep, cut=k))
            line, _ = T.see(EmuLink(link.store))
            cls = T.classify(line, old, new)
            if cls in ("corrupt", "raises"):
                ck.fail("t3emu-cut-" + cls, "cut %d/%d: %s" % (k, total, line[:90]),
                        {"emulated": True, "nbr": nbr, "nbw": nbw, "nmaxb": nmaxb, "old": old.hex(), "new": new.hex(), "cut": k})
            ck.case(("emu", nbr, nbw, nmaxb, old, new, k), 0 < k < total, "t3emu:" + cls)
