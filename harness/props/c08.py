"""C08 - Activating and reading arbitrary tags terminates safely.

L1  theorems of NfcVerif.Props.C08 about the adversarial-tag readers (Model/AdvT12, AdvT34).
L2  every generated case runs the REAL nfc.tag.activate + tag.ndef (+ has_changed) against an
    adversarial responder behind a fake clf with a command budget; the answers the code received are
    replayed to the Lean model (drv_c08): canonical outcome, number of interactions and a digest of
    all commands sent must agree.
L3  oracle on the real code alone: no exception, no endless loop (budget), interactions within the
    bound of the tag type, result None or an object with length <= capacity (and, for image based
    tags, octets taken from inside the data area as an independent reading of the image finds them).
"""
import json
import struct

from common import Model, hx

from sims import adv_tags as A
from sims.adv_run import run_real, run_dump, script_line, cmd_hash

LEAN_TARGETS = ["NfcVerif.Props.C08", "drv_c08", "NfcVerif.Props.TablesTag", "NfcVerif.Props.TablesIso"]

THEOREMS = ["NfcVerif.C08." + t for t in (
    "session_safe", "t1_read_safe", "t2_read_safe", "t3_read_safe", "t3_polling_shape", "t4_read_safe", "t4_read_safe_frames",
    "isodep_exchange_safe", "isodep_asfound_is_shared_model", "is_present_safe_t1", "is_present_safe_t2", "is_present_safe_t3",
    "is_present_safe_t3rr", "is_present_safe_t4", "ops_safe", "activate_safe", "isodep_wtx_endless_counterexample",
    "isodep_ack_endless_counterexample", "isodep_chain_endless_counterexample")]

# interactions (clf.exchange / clf.sense) one _read_ndef_data may need; stated by the theorems
BOUND = {"t1": 70, "t2": 33000, "t3": 3 * 65537, "t4": None}
ACT_BOUND = 6
# interactions tag.dump() may need: Type 1 RALL + 240 blocks read and written twice, 3 attempts each; Type 2 pages up to
# 0x40000 with a sector select per 256 pages (the simulators end the memory much earlier); Type 3 65536 blocks
DUMP_BUDGET = {"t1": 3 * (1 + 3 * 240) + 10, "t2": 3 * (0x40000 + 3 * 0x400) + 10, "t3": 3 * 65537 + 200}


# --------------------------------------------------------------------------- generators
MAXLEN = [3000]    # longest hostile TLV length (65535 in the thorough tier: such a case costs seconds in the list based model)

def rbytes(rng, n):
    return bytes(rng.randrange(256) for _ in range(n))


def gen_tlvs(rng, room):
    """a TLV stream for a Type 1/2 data area of `room` bytes: mostly plausible, often hostile"""
    out = bytearray()
    for _ in range(rng.choice([0, 0, 1, 1, 2, 3, 6])):
        k = rng.random()
        if k < 0.2:
            out += bytes(rng.choice([1, 2, 5]))                      # NULL TLVs
        elif k < 0.65:
            t = rng.choice([1, 2])
            ln = rng.choice([3, 3, 3, 3, 0, 1, 2, 4, 5, 255])
            if ln == 255:
                out += bytes([t, 255]) + struct.pack(">H", rng.choice([3, 0, 300, MAXLEN[0]]))
                out += rbytes(rng, 3)
            else:
                v = bytes([rng.choice([rng.randrange(256), (room // 8) << 4 & 0xF0 | rng.randrange(8)]),
                           rng.choice([0, 1, 8, 16, 64, 255, rng.randrange(256)]),
                           rng.choice([rng.randrange(256), 0x03, 0x33, 0x0F, 0x04])])
                out += bytes([t, ln]) + (v + rbytes(rng, 5))[:ln]
        else:
            t = rng.choice([0xFD, 0x04, rng.randrange(4, 254)])
            ln = rng.choice([0, 1, 7, 30, 254, rng.randrange(256)])
            out += bytes([t, ln]) + rbytes(rng, min(ln, 12))
    left = max(0, room - len(out))
    k = rng.random()
    if k < 0.55:      # NDEF TLV that fits
        ln = rng.choice([0, 1, 5, max(0, left - 2), max(0, left - 3), rng.randrange(0, max(1, left))])
        if ln >= 255 or rng.random() < 0.2:
            out += bytes([3, 255]) + struct.pack(">H", ln)      # 3-byte length field also for short messages
        else:
            out += bytes([3, ln])
        out += rbytes(rng, ln)
        if rng.random() < 0.7:
            out += b"\xFE"
    elif k < 0.85:    # NDEF TLV beyond the area
        ln = rng.choice([left - 1, left, left + 1, left + 14, 60, 254, 300, 2040, MAXLEN[0]])
        ln = max(0, ln)
        if ln >= 255 or rng.random() < 0.1:
            out += bytes([3, 255]) + struct.pack(">H", ln & 0xFFFF)
        else:
            out += bytes([3, ln])
        out += rbytes(rng, min(ln, 80))
    elif k < 0.93:    # NDEF TLV header at the very end of the area
        pad = max(0, left - rng.choice([1, 2, 3, 4]))
        out += bytes(pad) + bytes([3, rng.choice([0, 0, 1, 255])]) + rbytes(rng, 3)
    else:
        out += rbytes(rng, rng.randrange(0, 20))
    return bytes(out)


def gen_t2(rng):
    cc2 = rng.choice([0, 1, 6, 6, 6, 12, 18, 18, 62, 127, 255, rng.randrange(256)])
    room = cc2 * 8
    mem = bytearray(rbytes(rng, 12))
    mem += bytes([rng.choice([0xE1] * 9 + [0x00, 0xE0]), rng.choice([0x10] * 7 + [0x11, 0x20, 0x00]), cc2,
                  rng.choice([0x00] * 5 + [0x0F, 0xF0, 0x88, rng.randrange(256)])])
    mem += gen_tlvs(rng, room)
    phys = rng.choice([16 + room, 16 + room, 16 + room + 16, len(mem), 64, 20, rng.randrange(16, 16 + room + 40)])
    mem = (mem + rbytes(rng, max(0, phys - len(mem))))[:max(16, phys)] if rng.random() < 0.8 else mem
    nxp = rng.random() < 0.3
    sdd = bytes([0x04 if nxp else rng.choice([0x01, 0x02, 0x05, 0x07])]) + rbytes(rng, rng.choice([3, 6, 6, 9]))
    auth = rng.choice([None, None, b"\xAF" + rbytes(rng, 8), b"", b"\x00", rbytes(rng, 3)])
    ver = rng.choice([None, b"\x00", b"", rbytes(rng, 8), bytes.fromhex("0004040201001103"), bytes.fromhex("0004030101000b03"),
                      bytes.fromhex("0004040502011303"), bytes.fromhex("0004040201000f03")])
    rsp = A.T2Adv(bytes(mem), beyond=rng.choice(["wrap", "wrap", "nak", "nak", "mute", "short"]),
                  sectors=rng.choice(["yes", "yes", "no", "ack2", "junk"]), nak=rng.choice([0x00, 0x01, 0x04, 0x05]),
                  sdd=sdd, sel_res=rng.choice([0x00, 0x00, 0x04, 0x18]), auth=auth, version=ver)
    d = {"kind": "t2", "mem": hx(mem), "beyond": rsp.beyond, "sectors": rsp.sectors, "nak": rsp.nak, "sdd": hx(sdd),
         "sel_res": rsp.sel_res, "auth": None if auth is None else hx(auth), "version": None if ver is None else hx(ver)}
    return rsp, d


def gen_t1(rng):
    hr = rng.choice([b"\x11\x48", b"\x11\x48", b"\x12\x4C", b"\x12\x4C", b"\x1A\x00", b"\x00\x00", rbytes(rng, 2)])
    size = rng.choice([0x0E, 0x0E, 0x0E, 0x3F, 0x3F, 0x0F, 0x1F, 0xFF, 0x00, rng.randrange(256)])
    room = (size + 1) * 8 - 12
    mem = bytearray(rbytes(rng, 8))
    mem += bytes([rng.choice([0xE1] * 9 + [0x00]), rng.choice([0x10] * 7 + [0x11, 0x20]), size,
                  rng.choice([0x00] * 5 + [0x0F, 0xF0, rng.randrange(256)])])
    mem += gen_tlvs(rng, room if rng.random() < 0.7 else max(0, min(room, 92)))
    phys = rng.choice([120, 128, 512, (size + 1) * 8, 2048, len(mem)])
    mem = (mem + rbytes(rng, max(0, phys - len(mem))))
    ov = lambda reg, alts: rng.choice([None] * 8 + alts)
    rsp = A.T1Adv(hr, bytes(mem), uid=rbytes(rng, 4), rall=ov(122, [0, 1, 2, 3, 121, 123, 130]),
                  read8=ov(9, [0, 1, 8, 10]), rseg=ov(129, [0, 1, 128, 130]), wrap=rng.random() < 0.6)
    d = {"kind": "t1", "hr": hx(hr), "mem": hx(mem), "uid": hx(rsp.uid), "rall": rsp.rall, "read8": rsp.read8,
         "rseg": rsp.rseg, "wrap": rsp.wrap}
    return rsp, d


def gen_t3(rng, big=False):
    ln = rng.choice([0, 1, 5, 16, 17, 40, 100, 300] + ([5000] if big else []))
    nmaxb_ok = (ln + 15) // 16
    nmaxb = rng.choice([nmaxb_ok, nmaxb_ok, nmaxb_ok + 3, max(0, nmaxb_ok - 1), 0, 1, 65535 if big else 300])
    ln_attr = rng.choice([ln] * 6 + [nmaxb * 16, nmaxb * 16 + 1, ln + 160, 0xFFFFFF if rng.random() < 0.3 else 4000])
    nbr = rng.choice([1, 2, 4, 4, 12, 15, 0, 16, 121, 255, rng.randrange(256)])
    csum = rng.choice([None] * 9 + [rng.randrange(65536)])
    attr = A.t3_attr(rng.choice([0x10] * 8 + [0x11, 0x20, 0x00]), nbr, rng.choice([0, 1, 8]), nmaxb,
                     rng.choice([0, 0, 0, 0x0F]), rng.choice([0, 1, 1]), ln_attr & 0xFFFFFF, csum=csum)
    ic = rng.choice([0xF0, 0xF1, 0xF2, 0x01, 0x20, 0x06, 0x1F, 0xE0, 0x77, 0xFF, rng.randrange(256)])
    with_sys = rng.random() < 0.6
    sysc = rng.choice([b"\x12\xFC"] * 5 + [b"\xFF\xFF", b"\x88\xB4", b"\x00\x03"])
    poll = rng.choice(["ok"] * 6 + ["mute", "short", "other-idm", "extra", "extra", "noreq", ("len", rng.choice([0, 1, 8, 15, 16, 17, 18, 19, 20, 32]))])
    rr = rng.choice(["mute", "mute", b"\x00", b"\x01", b"\x03", b"\x04", b"\xFF", b"", b"\x00\x00"])
    rsp = A.T3Adv(attr, rbytes(rng, ln), ic=ic, sys=sysc, with_sys=with_sys,
                  lim=rng.choice([15, 15, 4, 1, 12]), nblocks=rng.choice([None, None, 2, 10 ** 9]),
                  beyond=rng.choice(["err", "mute", "data"]), poll=poll, rr=rr)
    d = {"kind": "t3", "attr": hx(attr), "data_len": ln, "data": hx(rsp.data) if ln <= 64 else "random", "ic": ic, "sys": hx(sysc),
         "with_sys": with_sys, "lim": rsp.lim, "nblocks": rsp.nblocks, "beyond": rsp.beyond, "poll": rsp.poll,
         "rr": rr if rr == "mute" else hx(rr)}
    return rsp, d


def gen_ats(rng):
    """every structural variant: any subset of TA/TB/TC, 0..15 historical bytes, truncations, junk"""
    k = rng.random()
    if k < 0.7:
        y = rng.randrange(8)
        t0 = y << 4 | rng.randrange(16)
        body = bytes([t0]) + (bytes([rng.randrange(256)]) if y & 1 else b"") + \
            (bytes([rng.randrange(16) << 4 | rng.randrange(16)]) if y & 2 else b"") + (bytes([rng.randrange(4)]) if y & 4 else b"")
        body += rbytes(rng, rng.randrange(16))
        ats = bytes([1 + len(body)]) + body
        if rng.random() < 0.15:
            ats = ats[:rng.randrange(len(ats) + 1)]      # cut anywhere
        return ats
    if k < 0.8:
        return rng.choice([b"", b"\x01", b"\x02\x00", b"\x03\x10\x78", b"\x02\x28", b"\x03\x28\x70"])
    return rbytes(rng, rng.randrange(0, 21))


def gen_t4(rng, big=False):
    tag = rng.choice([4] * 6 + [6, 6, 5, 0])
    nlen = rng.choice([0, 1, 5, 30, 100, 300] + ([3000] if big else []))
    nls = 4 if tag == 6 else 2
    mfs = rng.choice([nlen + nls] * 5 + [nlen + nls + 10, max(0, nlen + nls - 1), 0, 1, nls, 65535, 0x20000 if tag == 6 else 7])
    mle = rng.choice([15, 59, 59, 255, 256, 1, 0, 300, 65535, rng.randrange(1, 300)])
    if nlen > 2000 and mle < 50:
        mle = 255
    cc = A.t4_cc(rng.choice([0x20] * 6 + [0x10, 0x30, 0x00, 0x40]), mle, rng.choice([52, 1, 0, 255, 65535]), tag, mfs,
                 rf=rng.choice([0, 0, 0, 0xFF]), wf=rng.choice([0, 0, 0xFF]),
                 cclen=rng.choice([None] * 8 + [0, 1, 2, 3, 14, 16, 0xFFFF]), plen=rng.choice([None] * 9 + [0, 3, 8, 9, 255]))
    nlen_field = rng.choice([nlen] * 6 + [nlen + 1, mfs, max(0, mfs - nls + 1), 65535, 0xFFFFFFFF if tag == 6 else 0xFFFF, 70000])
    f = (struct.pack(">I", nlen_field & 0xFFFFFFFF) if tag == 6 else struct.pack(">H", nlen_field & 0xFFFF)) + rbytes(rng, nlen)
    kind = rng.choice(["A", "A", "B"])
    sensb = bytes([0x50]) + rbytes(rng, 4) + rbytes(rng, 4) + bytes([rng.randrange(256), rng.randrange(16) << 4 | 1, rng.randrange(16) << 4 | rng.randrange(16)])
    if rng.random() < 0.3:
        sensb += rbytes(rng, 1)
    fm = rng.choice(["ok"] * 7 + ["wtx", "ack", "chain", "chain0", "badbn", "empty"])
    rsp = A.T4Adv(cc, f, kind=kind, ats=gen_ats(rng), sensb=sensb, attrib=rng.choice([b"\x00", b"", rbytes(rng, 3)]),
                  read_mode=rng.choice(["ok"] * 6 + ["empty", "over", "one", "sw", "nosw"]), sel_app=rng.choice(["v2"] * 5 + ["v1", "none"]),
                  chunk=rng.choice([253, 253, 40, 13, 1]), frame_mode=fm, frame_from=rng.randrange(0, 9),
                  sel_res=rng.choice([0x20, 0x20, 0x60, 0x28]), sdd=rbytes(rng, rng.choice([4, 7, 10])),
                  read_from=rng.choice([2, 2, nls, 0, 10]), cc_over=rng.choice([0] * 9 + [1, 6]),
                  wtxm=rng.choice([59, 59, 30, 1, 0, 60, 63, 0x41, 0xFB]), flood_inf=rng.choice([250, 250, 40, 255]),
                  flood_len=rng.choice([None, None, None, 1, 2, 3, 5, 6, 7, 40]))
    d = {"kind": "t4", "cc": hx(cc), "file_len": len(f), "nlen_field": nlen_field, "type": kind, "ats": hx(rsp.ats), "sensb": hx(sensb),
         "attrib": hx(rsp.attrib), "read_mode": rsp.read_mode, "sel_app": rsp.sel_app, "chunk": rsp.chunk, "frame_mode": fm,
         "frame_from": rsp.frame_from, "sel_res": rsp.sel_res, "read_from": rsp.read_from, "cc_over": rsp.cc_over,
         "wtxm": rsp.wtxm, "flood_inf": rsp.flood_inf, "flood_len": rsp.flood_len}
    return rsp, d


def t4_budget(rsp, d, base=3000, cap=40000):
    """interactions a Type 4 case may need on a tree with the S(WTX) limit: a flood of requests with multiplier m
    is granted max_wtxm_sum / m times (the limit of the tag object the real activation creates).  A flood that
    would need more than `cap` interactions is made finite (the card behaves again after flood_len frames)."""
    if getattr(rsp, "frame_mode", "ok") != "wtx" or not 1 <= rsp.wtxm & 0x3F <= 59 or rsp.flood_len is not None:
        return base
    try:
        import copy
        tag = nfc_activate(copy.copy(rsp))
        lim = getattr(getattr(tag, "_dep", None), "max_wtxm_sum", None)
    except Exception:
        lim = None
    if lim is None:
        return base
    need = lim // (rsp.wtxm & 0x3F) + 2
    if base + 2 * need > cap:
        rsp.flood_len = d["flood_len"] = (cap - base) // 4
        return cap
    return base + 2 * need


def nfc_activate(rsp):
    import nfc.tag
    return nfc.tag.activate(A.AdvClf(rsp, 50), rsp.target())


def gen_script(rng):
    """answers that ignore the command altogether: any bytes, any length"""
    kind = rng.choice(["t1", "t2", "t3", "t4a", "t4b"])
    lens = {"t1": [0, 1, 9, 10, 122, 129], "t2": [0, 1, 1, 16, 16, 16, 4, 17], "t3": [0, 1, 12, 13, 18, 29, 45],
            "t4a": [0, 1, 2, 3, 5, 18], "t4b": [0, 1, 2, 3, 5, 18]}[kind]
    ans = []
    for i in range(rng.randrange(0, 14)):
        if rng.random() < 0.12:
            ans.append(None)
            continue
        n = rng.choice(lens)
        b = bytearray(rbytes(rng, n))
        if kind == "t3" and n and rng.random() < 0.8:
            b[0] = n
            if n > 1:
                b[1] = rng.choice([1, 7, 7])
            if n >= 10 and rng.random() < 0.8:
                b[2:10] = A.IDM
            if n >= 12 and rng.random() < 0.8:
                b[10:12] = b"\0\0"
        if kind == "t2" and n == 16 and i == 0 and rng.random() < 0.7:
            b[12:16] = bytes([0xE1, 0x10, rng.choice([6, 1, 255]), 0])
        if kind.startswith("t4") and n >= 1 and rng.random() < 0.8:
            b[0] = rng.choice([0x02, 0x03, 0x12, 0x13, 0xA2, 0xA3, 0xF2, 0xB2, 0x02, 0x03])
            if n >= 3 and rng.random() < 0.6:
                b[-2:] = b"\x90\x00"
        ans.append(bytes(b))
    import nfc.clf
    if kind == "t1":
        tg = nfc.clf.RemoteTarget("106A", sens_res=bytearray(b"\x00\x0C"), rid_res=bytearray(rng.choice([b"\x11\x48", b"\x12\x4C"]) + rbytes(rng, 4)))
    elif kind == "t2":
        tg = nfc.clf.RemoteTarget("106A", sens_res=bytearray(b"\x44\x00"), sel_res=bytearray(b"\x00"),
                                  sdd_res=bytearray(bytes([rng.choice([1, 4])]) + rbytes(rng, 6)))
    elif kind == "t3":
        tg = nfc.clf.RemoteTarget("212F", sensf_res=bytearray(b"\x01" + A.IDM + bytes([0, rng.choice([0xF0, 0x01, 0x77])]) + bytes(6) +
                                                              rng.choice([b"", b"\x12\xFC"])))
    elif kind == "t4a":
        tg = nfc.clf.RemoteTarget("106A", sens_res=bytearray(b"\x44\x03"), sel_res=bytearray(b"\x20"), sdd_res=bytearray(rbytes(rng, 4)))
    else:
        tg = nfc.clf.RemoteTarget("106B", sensb_res=bytearray(b"\x50" + rbytes(rng, 11)))
    return A.Script(ans, tg), {"kind": "script-" + kind, "answers": [None if a is None else hx(a) for a in ans], "target": str(tg)}


# --------------------------------------------------------------------------- one case
def target_fields(tg):
    g = lambda n: hx(getattr(tg, n) or b"")
    tech = {"A": 0, "B": 1, "F": 2}[tg.brty[-1]]
    return [tech, g("sens_res"), g("sel_res"), g("sdd_res"), g("rid_res"), g("sensb_res"), g("sensf_res")]


def loop_key(kind, log):
    if not kind.endswith("t4") and not kind.startswith("script-t4") and kind != "t4":
        return kind + "-command-bound-exceeded"     # the budget of these types is their bound
    tail = [a for _, a in log[-6:] if a]
    if tail and all(a[0] & 0xFE == 0xF2 and len(a) > 1 for a in tail):
        return "t4-isodep-wtx-endless"
    if tail and all(a[0] & 0xF6 == 0xA2 for a in tail):
        return "t4-isodep-ack-retransmit-endless"
    if tail and all(a[0] & 0xF2 == 0x12 for a in tail):
        return "t4-isodep-chaining-endless"
    return "t4-read-binary-endless"


def reference(rsp, kind):
    """independent reading of an image based Type 1/2 tag -> (addrs, area_end) | None | 'n/a'"""
    try:
        if kind == "t2" and isinstance(rsp, A.T2Adv) and rsp.beyond == "wrap" and rsp.sectors == "yes" and len(rsp.mem) >= 16:
            m = rsp.mem
            if m[12] != 0xE1 or m[13] >> 4 != 1:
                return None
            return A.t2_reference(rsp.at, m[14])
        if kind == "t1" and isinstance(rsp, A.T1Adv) and rsp.wrap and rsp.rall is None and rsp.read8 is None and rsp.rseg is None:
            if rsp.hr[0] >> 4 != 1:
                return None
            return A.t1_reference(rsp.at)
    except Exception:
        pass
    return "n/a"


def probe_fixes():
    """which termination repairs of fixes/C08 (0010-0012) and fixes/C12 (sticky errno) the tree under test contains,
    found by behaviour: -> flags string for the model driver ('s' sticky errno, 'w' S(WTX) limited, 'a' retransmission
    after R(ACK) counted, 'c' response chaining limited)"""
    import nfc.tag.tt4

    class Clf(object):
        def __init__(self, answer):
            self.answer, self.n = answer, 0

        def exchange(self, data, timeout):
            self.n += 1
            if self.n > 400:
                raise A.BudgetExceeded()
            return bytearray(self.answer(bytes(data)))

    def ends(answer):
        dep = nfc.tag.tt4.IsoDepInitiator(Clf(answer), 64, 4096 / 13.56E6 * 2 ** 14)      # FWI 14: limit 59, no retries
        try:
            dep.exchange(b"\x00\xA4\x04\x00", None)
        except A.BudgetExceeded:
            return False
        except Exception:
            pass
        return True
    flags = ""
    try:
        if hasattr(nfc.tag.tt4.IsoDepInitiator(None, 256, 0.01), "errno"):
            flags += "s"
        if ends(lambda c: b"\xF2\x01"):
            flags += "w"
        if ends(lambda c: b"\xA3" if c[0] & 0xE6 == 0x02 else b"\xA3"):
            flags += "a"
        st = {"bn": 0}

        def chain(c):
            st["bn"] ^= 1
            return bytes([0x12 | (st["bn"] ^ 1)])
        if ends(chain):
            flags += "c"
    except Exception:          # a tree on which the probe itself fails is treated as unrepaired; the oracle will tell
        pass
    return flags


OPS = ["nhp"] * 6 + ["pnhp", "np", "pn", "nphph", "hnp", "nnhhp", "p", "ppn"]
PRESENT_BOUND = {"t1": 3, "t2": 3, "t3": 6, "t4": 1}


class Runner(object):
    def __init__(self, ck):
        self.ck = ck
        self.pending = []     # (line, real Result, descr)
        self.model = Model("drv_c08")
        self.flags = probe_fixes()
        self.sticky = "s" in self.flags

    def case(self, rsp, descr, budget, stop_after=None, garble=None, max_send=256, max_recv=256, ops="nhp"):
        ck = self.ck
        kind = descr["kind"]
        r = run_real(rsp, budget, max_send, max_recv, stop_after, garble, ops)
        d = dict(descr, stop_after=stop_after, garble=None if not garble else {k: (None if v is None else hx(v)) for k, v in garble.items()},
                 max_send=max_send, max_recv=max_recv, budget=budget, ops=ops, outcome=r.canon, interactions=r.n)
        base = kind.replace("script-", "")[:2]
        nontrivial = r.n > 1
        ck.case((kind, json.dumps(d, sort_keys=True, default=str)), nontrivial, "%s:%s" % (kind, r.canon.split(" ")[0] + (" ndef" if "n=len" in r.canon else "")),
                sample={"kind": kind, "outcome": r.canon[:120], "interactions": r.n})
        # ---- L3 oracle on the real code
        if r.loop:
            key = loop_key(base, r.log)
            fixed = {"t4-isodep-wtx-endless": "w", "t4-isodep-ack-retransmit-endless": "a", "t4-isodep-chaining-endless": "c"}.get(key)
            if fixed and fixed in self.flags:
                key += "-despite-repair"        # the tree has the repair (probe) and the reader is still kept busy
            ck.fail(key, "%s: more than %d interactions, the reader does not stop (last commands %s)"
                    % (kind, budget, [hx(c) for c, _ in r.log[-3:]]), d)
        elif r.exc is not None:
            ck.fail("%s-%s-raises-%s" % (base, r.where, r.exc.split("(")[0]), "%s: %s during %s after %d interactions" % (kind, r.exc, r.where, r.n), d)
        else:
            for what in r.bad:
                ck.fail("%s-unexpected-return-value" % base, "%s: %s" % (kind, what), d)
            for length, capacity, noct, inside in r.snaps:
                if length > capacity:
                    if inside:
                        # the message IS stored completely inside the data area: get_capacity under-reports
                        ck.fail("t12-capacity-below-stored-length", "%s: ndef.length %d > ndef.capacity %d although the message lies "
                                "inside the data area" % (kind, length, capacity), d)
                    else:
                        ck.fail("%s-length-exceeds-capacity" % base, "%s: ndef.length %d > ndef.capacity %d" % (kind, length, capacity), d)
                if noct != length:
                    ck.fail("%s-length-octets-mismatch" % base, "%s: length %d, %d octets" % (kind, length, noct), d)
            ref = reference(rsp, base) if stop_after is None and not garble else "n/a"
            if ref != "n/a" and r.ndef is not None:
                if ref is None:
                    ck.fail("%s-ndef-where-reference-finds-none" % base, "%s: object returned, independent reading finds no NDEF TLV" % kind, d)
                else:
                    inside = all(a < ref["area_end"] for a in ref["addrs"])
                    if ref["head"] > ref["area_end"]:
                        ck.fail("%s-tlv-header-outside-data-area" % base, "%s: length field of the message TLV at %d ends at %d, behind the "
                                "data area end %d" % (kind, ref["off"], ref["head"], ref["area_end"]), d)
                    elif not inside:
                        ck.fail("%s-octets-outside-data-area" % base, "%s: message TLV at %d length %d ends beyond the data area end %d"
                                % (kind, ref["off"], ref["length"], ref["area_end"]), d)
                    elif r.octets != bytes(rsp.at(a) for a in ref["addrs"]):
                        ck.fail("%s-octets-differ-from-image" % base, "%s: octets are not the image content of the TLV value" % kind, d)
            b = BOUND.get(base)
            reads = sum(1 for o in ops if o in "nh")
            if b is not None and r.n > ACT_BOUND + reads * b + ops.count("p") * PRESENT_BOUND[base]:
                ck.fail("%s-command-bound-exceeded" % base, "%s: %d interactions" % (kind, r.n), d)
            # every presence check on its own: at most PRESENT_BOUND interactions
            k = 1
            for o in ops:
                if k < len(r.n_at) and o == "p" and r.n_at[k] - r.n_at[k - 1] > PRESENT_BOUND[base]:
                    ck.fail("%s-is-present-command-bound-exceeded" % base, "%s: is_present made %d interactions"
                            % (kind, r.n_at[k] - r.n_at[k - 1]), d)
                k += 1
        # ---- L2 request for the model
        try:
            tg = rsp.target()
            line = script_line("run", r.log, target_fields(tg) + [max_send, max_recv, budget, self.flags or "-", ops])
        except Exception as e:      # a target the harness cannot describe to the model
            ck.fail("tie:case-not-expressible", "%s: %r" % (kind, e), d)
            return r
        want = "loop" if r.loop else "%s n=%d h=%d" % (r.canon, r.n, cmd_hash([c for c, _ in r.log]))
        self.pending.append((line, want, d))
        return r

    def dump(self, rsp, descr, budget, stop_after=None):
        """oracle only: activate + tag.dump() ends within the budget and raises nothing but TagCommandError"""
        ck = self.ck
        kind = descr["kind"]
        base = kind.replace("script-", "")[:2]
        out, n, log, detail = run_dump(rsp, budget, stop_after=stop_after)
        d = dict(descr, op="dump", stop_after=stop_after, budget=budget, outcome=out, interactions=n)
        ck.case((kind, "dump", json.dumps(d, sort_keys=True, default=str)), n > 1, "%s:dump %s" % (kind, out.split("(")[0]))
        if out == "loop":
            key = loop_key(base, log) if base == "t4" else base + "-dump-command-bound-exceeded"
            fixed = {"t4-isodep-wtx-endless": "w", "t4-isodep-ack-retransmit-endless": "a", "t4-isodep-chaining-endless": "c"}.get(key)
            if fixed and fixed in self.flags:
                key += "-despite-repair"
            ck.fail(key, "%s: dump() made more than %d interactions (last commands %s)" % (kind, budget, [hx(c) for c, _ in log[-3:]]), d)
        elif out.startswith("exc ") and not out.startswith("exc TagCommandError"):
            ck.fail("%s-%s-raises-%s" % (base, "dump" if detail == "dump" else "activate", out[4:].split("(")[0]),
                    "%s: %s during %s after %d interactions" % (kind, out[4:], detail, n), d)
        elif out.startswith("bad "):
            ck.fail("%s-dump-unexpected-return-value" % base, "%s: dump() returned %s" % (kind, out[4:]), d)
        return out

    def flush(self, tie):
        lines = [p[0] for p in self.pending]
        got = self.model.ask_many(lines) if lines else []
        dis = 0
        for (line, want, d), g in zip(self.pending, got):
            if g != want:
                dis += 1
                self.ck.fail("tie:" + tie, "model '%s', implementation '%s'" % (g[:300], want[:300]), d)
        self.ck.tie(tie, len(lines), dis, False)
        self.pending = []


def run(ck):
    ck.tables("TablesTag", "TablesIso")   # T-tie for constants: source tables re-extracted, bridge theorems re-proved
    ck.lean("NfcVerif.Props.C08", THEOREMS)
    rng = ck.rng
    R = Runner(ck)
    T = ck.thorough
    MAXLEN[0] = 65535 if T else 3000
    gens = [("t2", gen_t2, 2 * BOUND["t2"] + 10), ("t1", gen_t1, 200), ("t3", gen_t3, 2 * BOUND["t3"] + 10), ("t4", gen_t4, 3000)]
    n_img = 900 if T else 170
    for kind, gen, budget in gens:
        for i in range(n_img):
            rsp, d = gen(rng)
            bud = budget if kind != "t4" else t4_budget(rsp, d, cap=400000 if T else 40000)
            ops = rng.choice(OPS)
            r = R.case(rsp, d, bud, max_send=rng.choice([256, 256, 64, 16]) if kind == "t4" else 256,
                       max_recv=rng.choice([256, 256, 255]) if kind == "t4" else 256, ops=ops)
            # the tag stops answering after the n-th interaction, for every n (sampled in the quick tier)
            if not r.loop and r.n <= 60:
                ns = range(r.n) if (T or i % 6 == 0) else rng.sample(range(r.n), min(r.n, 2))
                for n in ns:
                    rsp2, _ = regen(kind, d, rsp)
                    R.case(rsp2, d, bud, stop_after=n, ops=ops)
            # one answer replaced by junk
            if not r.loop and r.n and i % 2 == 0:
                k = rng.randrange(r.n)
                junk = rng.choice([None, b"", rbytes(rng, 1), rbytes(rng, rng.choice([2, 4, 15, 16, 17, 18, 20, 122, 129])), b"\x00", b"\x0A", b"\x90\x00"])
                rsp2, _ = regen(kind, d, rsp)
                R.case(rsp2, d, bud, garble={k: junk}, ops=ops)
            # tag.dump() on the same tag (oracle only)
            # (a Type 2 / Type 3 Tag that answers every address makes dump() read 65536 pages / blocks: fewer of those)
            long_dump = (kind == "t2" and rsp.beyond == "wrap") or (kind == "t3" and (rsp.beyond == "data" or rsp.nblocks > 70000))
            if i % (24 if long_dump and not T else 3) == 0:
                rsp2, _ = regen(kind, d, rsp)
                R.dump(rsp2, d, DUMP_BUDGET[kind] if kind != "t4" else bud)
        R.flush("adversarial %s tag: outcome, interaction count, commands" % kind)
    for i in range(2500 if T else 500):
        rsp, d = gen_script(rng)
        R.case(rsp, d, 3000, ops=rng.choice(OPS))
        if i % 4 == 0:
            rsp, d = gen_script(rng)
            R.dump(rsp, d, 3000)
    R.flush("command-blind random answers: outcome, interaction count, commands")
    corpus(R)
    R.flush("witness corpus (section 9 findings F12-F15 and the new ones)")
    sweep_t2_reserved(R, rng, T)
    sweep_t1_tail(R, rng, T)
    sweep_t1_reserved(R, rng, T)
    R.flush("structured sweeps: reserved octets inside the area x boundary lengths, TLV headers at the end of the area")
    sweep_activation(R, rng, T)
    R.flush("activation sweeps: all IC codes, GET_VERSION / authenticate answers, HR0/HR1, SENSB_RES, ATS T0, SEL_RES")
    sweep_activation2(R, rng, T)
    R.flush("activation variants x first answers x order of ndef / is_present: SENSF_RES x polling answers x Request Response, "
            "RID x READ answers, SENS_RES x UID size, ATS shapes, ATTRIB answers")
    if T:
        for kind, gen, budget in (("t3", gen_t3, 2 * BOUND["t3"] + 10), ("t4", gen_t4, 12000)):
            for i in range(40):
                rsp, d = gen(rng, big=True)
                R.case(rsp, d, budget)
        R.flush("long messages")
        # the repaired ISO-DEP loops at (nearly) their full length: at FWI 5 59 * 2^9 = 30208 S(WTX) requests with WTXM 1 are
        # granted, the next one ends the exchange; 65538 chained blocks of one octet are accepted, the next one is a
        # protocol error  (the list based model needs quadratic time in the number of frames: FWI 0 is left out)
        cc = A.t4_cc(0x20, 59, 52, 4, 100)
        f = struct.pack(">H", 5) + b"hello" + bytes(93)
        if "w" in R.flags:
            for n in (None, 30207, 30208, 30209):
                R.case(A.T4Adv(cc, f, ats=b"\x05\x78\x80\x50\x02", frame_mode="wtx", frame_from=2, wtxm=1, flood_len=n),
                       {"kind": "t4", "witness": "t4:FWI 5, %s S(WTX) requests with WTXM 1 (limit 30208)" % (n or "endless")}, 30208 + 200, ops="n")
        if "c" in R.flags:
            R.case(A.T4Adv(cc, f, frame_mode="chain", frame_from=2, flood_inf=1),
                   {"kind": "t4", "witness": "t4:endless chained response blocks of one octet (65538 are accepted)"}, 70000, ops="n")
        R.flush("repaired ISO-DEP loops at full length")

    ck.rule = ("cases = (responder description, sequence of operations on the tag object out of tag.ndef / has_changed / is_present, "
               "'stops answering after n' point, garbled answer) per tag type: Type 1/2 memory images "
               "with hostile TLV streams (control TLVs of any length pointing anywhere, NDEF TLV fitting / ending at / beyond the data "
               "area, reserved ranges inside and at the end of the area, 3-byte length fields), physical memory shorter or longer than "
               "announced, NAK / mute / roll-over / truncated answers, sector select variants, NXP authenticate / GET_VERSION probing; "
               "Type 3 attribute blocks (Nbr 0..255, Ln vs Nmaxb, checksums, versions), polling answers of 0..21 data octets with "
               "unrequested / without requested request data, Request Response answers, all IC codes, with/without system code; Type 4 "
               "A/B with every ATS shape (TL, T0 with every TA/TB/TC subset, every FSCI / FWI, 0..15 historical bytes, truncations), "
               "SENS_RES / SEL_RES / UID size variants, SENSB_RES / ATTRIB variants, CC mutations, NLEN vs file size, READ BINARY "
               "returning nothing / too much / one octet, response chaining, frame level S(WTX) / R(ACK) / chaining floods of every "
               "length around the limits of the repaired initiator; plus answers that ignore the command entirely. tag.dump() runs as "
               "oracle-only cases on a third of the responders. Non-trivial = the reader made more than one interaction. "
               "Distinct = distinct (description, operations, cut, garble) tuples.")
    ck.assumptions += [
        "well-framed = the driver delivered a frame with correct CRC/parity; content and length are arbitrary. A missing answer is "
        "nfc.clf.TimeoutError; TransmissionError/ProtocolError bursts are the subject of C16",
        "activation inputs have the lengths the drivers deliver (WellFramedS): SENS_RES 2, SEL_RES 1, SDD_RES 4/7/10, RID_RES 6, "
        "SENSB_RES 12/13, SENSF_RES 17/19 octets; clf.max_send_data_size >= 16",
        "the model is of the tree WITH fixes/C08 (0001-0016); which of the ISO-DEP termination repairs 0010-0012 and fixes/C12/0003 "
        "the tree under test contains is found by behaviour (probe_fixes: flags '%s' on this tree) and the model follows; on a tree "
        "without the other repairs the oracle reports the defects" % R.flags,
        "tag.dump() is outside the model: the oracle demands that it ends within the budget of the tag type and raises nothing "
        "but TagCommandError (a tag that stops answering makes dump() of Type 1 / FeliCa Lite raise TagCommandError by design)",
    ]
    ck.trusted += ["harness/sims/adv_tags.py (adversarial responders, budgeted fake clf)", "drv_c08 (compiled Lean model driver)",
                   "Python set of skip bytes = list of ranges in the model",
                   "int(MAX_WTX_TIME / fwt) = 59 * 2^(14 - FWI) and min(int(1 / fwt), 5) as integer formulas (checked for FWI 0..14 "
                   "by the boundary cases of the corpus: one request more / less than the limit)"]


def mem_ctl_tlv(start, size, lock=False):
    """control TLV reserving `size` octets from address `start` (16 octets per page)"""
    return bytes([1 if lock else 2, 3, (start // 16) << 4 | start % 16, (size * 8 if lock else size) & 0xFF, 0x04])


def sweep_t2_reserved(R, rng, full):
    """reserved octets INSIDE the data area, message lengths around 'room' and 'room minus reserved'"""
    for cc2 in ((6, 12, 18) if full else (6, rng.choice([12, 18]))):
        end = 16 + cc2 * 8
        for rs in ((1, 4, 8) if full else (rng.choice([1, 4]), 8)):
            for lock in (False, True):
                rsz = rs if not lock else 1          # a lock TLV reserves whole octets: 8 bits = 1 octet
                start = end - rng.randrange(rsz + 1, 12)       # reserved range inside the value of the message
                ctl = mem_ctl_tlv(start, rsz, lock)
                off = 16 + len(ctl)
                for hdr in (2, 4):
                    room = end - (off + hdr)
                    for ln in range(room - rsz - 1, room + 2):
                        if ln < 0 or (hdr == 2 and ln > 254):
                            continue
                        body = ctl + (bytes([3, ln]) if hdr == 2 else bytes([3, 255]) + struct.pack(">H", ln))
                        mem = bytearray(rbytes(rng, 12)) + bytes([0xE1, 0x10, cc2, 0x00]) + body
                        mem += rbytes(rng, end + 32 - len(mem))
                        rsp = A.T2Adv(bytes(mem), beyond="wrap", sectors="yes")
                        R.case(rsp, {"kind": "t2", "sweep": "reserved-inside", "cc2": cc2, "reserved": [start, rsz], "lock": lock,
                                     "hdr": hdr, "len": ln, "room": room, "mem": hx(mem)}, 3000)


def ctl_tlv_any(start, size, lock=False):
    """lock / memory control TLV for a byte range starting anywhere below 4096: page address nibble, byte offset
    nibble and a page size 2^e that express `start`"""
    for e in (4, 5, 6, 7, 8):
        p, o = divmod(start, 1 << e)
        if p <= 15 and o <= 15:
            return bytes([1 if lock else 2, 3, p << 4 | o, (size * 8 if lock else size) & 0xFF, e])
    raise ValueError(start)


def sweep_t1_reserved(R, rng, full):
    """Type 1 dynamic memory: a reserved range that reaches (almost) up to the end of the data area, message
    lengths around the number of usable octets - the value must not be continued behind the area"""
    for tms in (0x1F, 0x3F):
        end = (tms + 1) * 8
        for k in ((1, 8, 16) if full else (rng.choice([1, 8]), 16)):
            for gap in ((0, 1, 4) if full else (0, rng.choice([1, 4]))):
                for lock in ((False, True) if full else (rng.random() < 0.5,)):
                    size = 1 if lock else k
                    start = end - gap - size
                    try:
                        ctl = ctl_tlv_any(start, size, lock)
                    except ValueError:
                        continue
                    for hdr in ((2, 4) if end == 256 else (4,)):
                        skip = set(range(104, 128)) | set(range(start, start + size))
                        usable = len([a for a in range(17 + hdr, end) if a not in skip])
                        for ln in (usable - 1, usable, usable + 1, usable + size, usable + size + 1):
                            if ln < 0 or (hdr == 2 and ln > 254):
                                continue
                            mem = bytearray(rbytes(rng, 8)) + bytes([0xE1, 0x10, tms, 0x00]) + ctl
                            mem += (bytes([3, ln]) if hdr == 2 else bytes([3, 255]) + struct.pack(">H", ln))
                            mem += rbytes(rng, end + 64 - len(mem))
                            R.case(A.T1Adv(b"\x12\x4C", bytes(mem), wrap=True),
                                   {"kind": "t1", "sweep": "reserved-at-end", "tms": tms, "reserved": [start, size], "lock": lock,
                                    "hdr": hdr, "len": ln, "usable": usable, "head": hx(mem[:24])}, 300, ops="n")


def sweep_t1_tail(R, rng, full):
    """TLV headers 1..8 octets before the end of the data area, every memory size class incl. TMS = FFh"""
    heads = [b"\x03\x00", b"\x03\x02ab", b"\x03\xff\x00\x00", b"\x03\xff\x00\x03abc", b"\x01\x03\xf0\x10\x04", b"\xfd\xff\x00\x01x",
             b"\x03\xfe", b"\x03"]
    for tms in (0x0E, 0x0F, 0x1F, 0x3F, 0xFF):
        end = (tms + 1) * 8
        hr = b"\x11\x48" if tms == 0x0E else b"\x12\x4C"
        for back in range(1, 9):
            for h in (heads if full or tms in (0x0E, 0xFF) else rng.sample(heads, 3)):
                pos = end - back
                if 104 <= pos < (120 if end == 120 else 128):
                    continue
                mem = bytearray(rbytes(rng, 8)) + bytes([0xE1, 0x10, tms, 0x00]) + bytes(pos - 12) + h
                mem += rbytes(rng, max(0, end + 16 - len(mem)))
                rsp = A.T1Adv(hr, bytes(mem), wrap=rng.random() < 0.8)
                R.case(rsp, {"kind": "t1", "sweep": "tlv-at-tail", "tms": tms, "back": back, "head": hx(h), "wrap": rsp.wrap,
                             "mem_tail": hx(mem[pos - 2:pos + 12])}, 300)
    # the same for Type 2
    for cc2 in (1, 6, 18, 255):
        end = 16 + cc2 * 8
        for back in range(1, 6):
            for h in (heads[:4] if full or cc2 in (6, 255) else rng.sample(heads[:4], 2)):
                pos = end - back
                mem = bytearray(rbytes(rng, 12)) + bytes([0xE1, 0x10, cc2, 0x00]) + bytes(pos - 16) + h
                mem += rbytes(rng, max(0, end + 16 - len(mem)))
                R.case(A.T2Adv(bytes(mem), beyond="wrap", sectors="yes"),
                       {"kind": "t2", "sweep": "tlv-at-tail", "cc2": cc2, "back": back, "head": hx(h)}, 3000)


def sweep_activation(R, rng, full):
    """the activation inputs have tiny domains: sweep them completely"""
    import nfc.clf
    attr = A.t3_attr(0x10, 4, 1, 1, 0, 1, 3)
    for ic in range(256):                                    # every IC code of PMm
        for with_sys in ((True, False) if full or ic % 16 == 0 else (ic % 2 == 0,)):
            R.case(A.T3Adv(attr, b"abc", ic=ic, with_sys=with_sys), {"kind": "t3", "sweep": "ic-code", "ic": ic, "with_sys": with_sys}, 100)
    img = bytearray(16) + b"\x03\x01a\xfe" + bytes(44)
    img[12:16] = b"\xE1\x10\x06\x00"
    import nfc.tag.tt2_nxp
    versions = [bytes(k) for k in nfc.tag.tt2_nxp.VERSION_MAP]
    variants = set(versions)
    for v in versions:                                       # every known GET_VERSION answer and its neighbours
        for i in range(len(v)):
            for delta in (1, 255):
                variants.add(v[:i] + bytes([(v[i] + delta) & 255]) + v[i + 1:])
        variants.add(v[:-1])
        variants.add(v + b"\x00")
    variants |= {b"", b"\x00", b"\x00\x00", None}
    vs = sorted(variants, key=lambda x: (x is None, x or b""))
    if not full:
        vs = [v for v in vs if v is None or v in versions or len(v) < 3] + rng.sample([v for v in vs if v is not None], 40)
    for v in vs:
        for auth in (None, b"\x00"):
            R.case(A.T2Adv(bytes(img), sdd=b"\x04\x11\x22\x33\x44\x55\x66", version=v, auth=auth),
                   {"kind": "t2", "sweep": "get-version", "version": None if v is None else hx(v), "auth": None if auth is None else hx(auth)}, 200)
    for a0 in range(256):                                    # every first octet of the authenticate answer
        if full or a0 in (0xAF, 0x00, 0xAE, 0xB0) or a0 % 16 == 0:
            R.case(A.T2Adv(bytes(img), sdd=b"\x04\x11\x22\x33\x44\x55\x66", auth=bytes([a0, 1, 2])),
                   {"kind": "t2", "sweep": "auth-answer", "a0": a0}, 200)
    t1mem = bytearray(rbytes(rng, 8)) + b"\xE1\x10\x0E\x00\x03\x01a\xfe" + bytes(104)
    for hr0 in range(256):                                   # every HR0, with HR1 of the known products and others
        for hr1 in ((0x48, 0x4C, 0x00) if full or hr0 in (0x11, 0x12) else (rng.choice([0x48, 0x4C, 0x00, 0xFF]),)):
            R.case(A.T1Adv(bytes([hr0, hr1]), bytes(t1mem)), {"kind": "t1", "sweep": "hr", "hr0": hr0, "hr1": hr1}, 100)
    cc = A.t4_cc(0x20, 59, 52, 4, 20)
    f = struct.pack(">H", 3) + b"abc" + bytes(15)
    for b in range(256):                                     # SENSB_RES protocol info: FSCI/FWI nibbles, 12 and 13 octets
        sensb = bytes([0x50, 1, 2, 3, 4, 0, 0, 0, 0, 0x00, (b >> 4) << 4 | 1, (b & 15) << 4])
        if full or b % 16 in (0, 8, 9, 15) or b >> 4 in (0, 8, 9, 15):
            R.case(A.T4Adv(cc, f, kind="B", sensb=sensb + (b"\x00" if b % 2 else b"")), {"kind": "t4", "sweep": "sensb", "fsci": b >> 4, "fwi": b & 15}, 200,
                   max_send=rng.choice([256, 64]))
    for t0 in range(256):                                    # every format byte T0 with all, with missing interface bytes
        n_if = bin(t0 >> 4 & 7).count("1")
        full_ats = bytes([2 + n_if, t0]) + bytes([0x80, 0x70, 0x02][:n_if])
        cuts = range(len(full_ats) + 1) if (full or t0 % 16 in (0, 8, 9)) else (len(full_ats), rng.randrange(len(full_ats) + 1))
        for cut in cuts:
            R.case(A.T4Adv(cc, f, ats=full_ats[:cut]), {"kind": "t4", "sweep": "ats-t0", "t0": t0, "ats": hx(full_ats[:cut])}, 200)
    for sel in range(256):                                   # every SEL_RES / SENS_RES platform nibble
        if full or sel % 8 == 0 or sel in (0x20, 0x24, 0x28, 0x40, 0x60):
            rsp = A.T2Adv(bytes(img), sel_res=sel, sdd=b"\x01\x02\x03\x04")
            rsp.ats = b"\x05\x78\x80\x70\x02"
            R.case(rsp, {"kind": "script-t4a" if sel >> 5 & 1 else "t2", "sweep": "sel-res", "sel_res": sel}, 200)


def sweep_activation2(R, rng, full):
    """standard-conformant variants of the activation responses x what the tag answers to the first commands x the
    order of tag.ndef / tag.is_present; tag.dump() on a part of them"""
    pick = (lambda seq, n: list(seq)) if full else (lambda seq, n: rng.sample(list(seq), min(n, len(list(seq)))))
    # ---- Type 3: SENSF_RES with/without request data (system code 12FCh or another one) x polling answers with
    # 0..20 data octets, with unrequested / without requested request data x IC code families x Request Response
    attr = A.t3_attr(0x10, 4, 1, 2, 0, 1, 20)
    polls = ["ok", "extra", "noreq", "mute", "short", "other-idm"] + [("len", n) for n in range(0, 22)]
    fams = [(0xF0, "mute"), (0xF1, "mute"), (0x01, b"\x00"), (0x01, "mute"), (0x01, b"\x04"), (0x01, b""), (0x06, b"\x03"),
            (0x06, b"\x00\x00"), (0x77, "mute"), (0xE0, "mute")]
    combos = [(ws, sc, pl, fam, ops) for ws in (False, True) for sc in (b"\x12\xFC", b"\x88\xB4") for pl in polls for fam in fams
              for ops in ("n", "p", "pn", "nhp")]
    for i, (ws, sc, pl, (ic, rr), ops) in enumerate(pick(combos, 500)):
        rsp = A.T3Adv(attr, bytes(range(20)), ic=ic, sys=sc, with_sys=ws, poll=pl, rr=rr)
        d = {"kind": "t3", "sweep": "sensf x polling", "with_sys": ws, "sys": hx(sc), "poll": pl, "ic": ic,
             "rr": rr if rr == "mute" else hx(rr)}
        R.case(rsp, d, 100, ops=ops)
        if i % 5 == 0:
            R.dump(A.T3Adv(attr, bytes(range(20)), ic=ic, sys=sc, with_sys=ws, poll=pl, rr=rr), d, DUMP_BUDGET["t3"])
    # ---- Type 1: RID (HR0, HR1, UID) x what READ answers (presence check): 0..3 octets, mute
    t1mem = bytearray(rbytes(rng, 8)) + b"\xE1\x10\x0E\x00\x03\x01a\xfe" + bytes(104)
    for hr in (b"\x11\x48", b"\x12\x4C", b"\x10\x00", b"\x1F\xFF"):
        for uid in (bytes(t1mem[0:4]), b"\x00\x00\x00\x00", rbytes(rng, 4)):
            for ops in ("np", "pn", "p"):
                for k, junk in ((None, None), (0, b""), (0, b"\x00"), (0, bytes([0, t1mem[0]])), (0, b"\x00\x01\x02"), (0, None)):
                    # the presence check is the LAST interaction of 'np' / the first of 'pn', 'p': garble that one
                    rsp = A.T1Adv(hr, bytes(t1mem), uid=uid)
                    d = {"kind": "t1", "sweep": "rid x read answer", "hr": hx(hr), "uid": hx(uid), "read_answer": None if junk is None else hx(junk)}
                    if k is None:
                        R.case(rsp, d, 100, ops=ops)
                    else:
                        base = run_real(A.T1Adv(hr, bytes(t1mem), uid=uid), 100, ops=ops)
                        pos = base.n - 1 if ops == "np" else 0
                        R.case(rsp, d, 100, ops=ops, garble={pos: junk})
        R.dump(A.T1Adv(hr, bytes(t1mem)), {"kind": "t1", "sweep": "rid", "hr": hx(hr)}, DUMP_BUDGET["t1"])
        for n in (0, 1, 2, 121, 122):
            R.dump(A.T1Adv(hr, bytes(t1mem), rall=n), {"kind": "t1", "sweep": "rid, short RALL", "hr": hx(hr), "rall": n}, DUMP_BUDGET["t1"])
    # ---- Type 2 / Type 4A: SENS_RES (every platform octet), UID sizes 4 / 7 / 10, SEL_RES
    img = bytearray(16) + b"\x03\x01a\xfe" + bytes(44)
    img[12:16] = b"\xE1\x10\x06\x00"
    cc = A.t4_cc(0x20, 59, 52, 4, 20)
    f = struct.pack(">H", 3) + b"abc" + bytes(15)
    for s1 in pick(range(256), 48):
        for s0 in (0x00, 0x44, 0x84, 0x04):                # UID size bits b8 b7 of the first octet, bit frame anticollision
            uid = {0x00: 4, 0x04: 4, 0x44: 7, 0x84: 10}[s0]
            if s1 & 0x0F == 0x0C:                           # Type 1 Tag platform: RID response
                rsp = A.T1Adv(b"\x11\x48", bytes(t1mem))
                rsp.target = (lambda s0=s0, s1=s1, rsp=rsp: __import__("nfc").clf.RemoteTarget(
                    "106A", sens_res=bytearray([s0, s1]), rid_res=bytearray(rsp.hr + rsp.uid)))
                R.case(rsp, {"kind": "t1", "sweep": "sens-res", "sens_res": hx(bytes([s0, s1]))}, 100, ops=rng.choice(["np", "pn"]))
                continue
            rsp = A.T2Adv(bytes(img), sdd=bytes([rng.choice([0x04, 0x01])]) + rbytes(rng, uid - 1), version=rng.choice([None, b"\x00"]))
            rsp.sens = bytes([s0, s1])
            R.case(rsp, {"kind": "t2", "sweep": "sens-res x uid size", "sens_res": hx(rsp.sens), "sdd": hx(rsp.sdd)}, 200, ops=rng.choice(["np", "pn"]))
            rsp = A.T4Adv(cc, f, sdd=rbytes(rng, uid), sel_res=rng.choice([0x20, 0x24, 0x60]))
            rsp.sens = bytes([s0, s1])
            R.case(rsp, {"kind": "t4", "sweep": "sens-res x uid size", "sens_res": hx(rsp.sens), "sdd": hx(rsp.sdd)}, 200, ops=rng.choice(["np", "pn"]))
    for i, n in enumerate((4, 7, 10)):
        R.dump(A.T2Adv(bytes(img) + bytes(960), beyond="nak", sdd=rbytes(rng, n)), {"kind": "t2", "sweep": "uid size", "n": n}, DUMP_BUDGET["t2"])
        R.dump(A.T4Adv(cc, f, sdd=rbytes(rng, n)), {"kind": "t4", "sweep": "uid size", "n": n}, 3000)
    # ---- Type 4A: ATS shapes: TL 1..20, T0 with every subset of TA/TB/TC and every FSCI, every FWI/SFGI in TB,
    # 0..15 historical octets; TL consistent and not
    shapes = [(y, fsci, tb, nh) for y in range(8) for fsci in (0, 2, 5, 8, 9, 15) for tb in (0x00, 0x40, 0x70, 0x80, 0xB0, 0xC0, 0xE0, 0xF0, 0xE1, 0x7F)
              for nh in (0, 1, 7, 15)]
    for i, (y, fsci, tb, nh) in enumerate(pick(shapes, 260)):
        body = bytes([y << 4 | fsci]) + (b"\x80" if y & 1 else b"") + (bytes([tb]) if y & 2 else b"") + (b"\x02" if y & 4 else b"") + rbytes(rng, nh)
        ats = bytes([1 + len(body)]) + body
        if i % 9 == 0:
            ats = bytes([rng.choice([0, 1, len(ats) - 1, len(ats) + 1, 255])]) + body        # TL that disagrees with the length
        rsp = A.T4Adv(cc, f, ats=ats)
        d = {"kind": "t4", "sweep": "ats shape", "ats": hx(ats)}
        R.case(rsp, d, 400, ops=rng.choice(["nhp", "pn", "np", "p"]), max_send=rng.choice([256, 64, 16]), max_recv=rng.choice([256, 255]))
        if i % 6 == 0:
            R.dump(A.T4Adv(cc, f, ats=ats), d, 3000)
    # ---- Type 4B: SENSB_RES 12 / 13 octets, every FSCI / FWI (exists above), ATTRIB answers of 0..4 octets, none
    for attrib in (b"", b"\x00", b"\x10", b"\x00\x01", rbytes(rng, 3), rbytes(rng, 4), None):
        for ext in (b"", b"\x00"):
            for fwi in (0, 4, 9, 14, 15):
                sensb = bytes([0x50, 1, 2, 3, 4, 0, 0, 0, 0, 0x00, 0x81, fwi << 4]) + ext
                rsp = A.T4Adv(cc, f, kind="B", sensb=sensb, attrib=attrib)
                d = {"kind": "t4", "sweep": "attrib answer", "attrib": None if attrib is None else hx(attrib), "sensb": hx(sensb)}
                R.case(rsp, d, 400, ops=rng.choice(["nhp", "pn", "np"]), max_recv=rng.choice([256, 255]))
        R.dump(A.T4Adv(cc, f, kind="B", attrib=attrib), {"kind": "t4", "sweep": "attrib answer", "attrib": None if attrib is None else hx(attrib)}, 3000)


def regen(kind, d, rsp):
    """a fresh responder with the same behaviour (responders are stateful)"""
    import copy
    c = copy.copy(rsp)
    for attr, v in (("sector", 0), ("pending", False), ("sel", None), ("bn", 1), ("rx", b""), ("txq", []), ("nframes", 0), ("i", 0)):
        if hasattr(c, attr):
            setattr(c, attr, v)
    return c, d


def corpus(R):
    def t2img(cc2, body, total=None):
        m = bytearray(16) + bytearray(body)
        m[12:16] = bytes([0xE1, 0x10, cc2, 0])
        m += bytes(max(0, (total or 16 + cc2 * 8) - len(m)))
        return bytes(m)

    def t1img(size, body, total=None):
        m = bytearray(12) + bytearray(body)
        m[8:12] = bytes([0xE1, 0x10, size, 0])
        m += bytes(max(0, (total or max(120, (size + 1) * 8)) - len(m)))
        return bytes(m)

    def c(rsp, name, budget=3000, **kw):
        d = {"kind": name.split(":")[0], "witness": name, "flood_len": getattr(rsp, "flood_len", None)}
        if isinstance(rsp, A.T4Adv):
            budget = max(budget, t4_budget(rsp, d, cap=40000))
        R.case(rsp, d, budget, **kw)

    c(A.T2Adv(t2img(6, b"\x03\x3c" + bytes(range(46)))), "t2:F15 length 60 in a 48 byte area, tag rolls over")
    c(A.T2Adv(t2img(6, b"\x03\xff\x17\x70" + bytes(44))), "t2:length 6000, tag rolls over", budget=20000)
    c(A.T2Adv(t2img(6, bytes(47) + b"\x03")), "t2:NDEF TLV type byte is the last byte of the area (capacity -1)")
    c(A.T2Adv(t2img(6, b"\x03\xff\x00\x2e" + bytes(range(44)))), "t2:3-byte length field, length 46 = capacity, value ends 2 bytes behind the area")
    c(A.T2Adv(t2img(6, b"\x03\xff\x00\x2c" + bytes(range(44)))), "t2:3-byte length field, length 44 fits exactly")
    c(A.T2Adv(t2img(33, bytes(7) + b"\x03\xfe" + bytes(range(254)) + b"\xfe")),
      "t2:257 free bytes from the message TLV, 254 octets stored with a one byte length field (capacity 253)")
    c(A.T1Adv(b"\x12\x4c", t1img(0x29, b"\x01\x03\xf0\x1d\x04" + bytes(34) + b"\x03\xfe" + bytes(range(254)) * 2, total=512)),
      "t1:C01 witness: dynamic tag, lock bytes 240..243, message TLV at 51 with 254 octets ends at 334 < 336")
    c(A.T1Adv(b"\x11\x48", t1img(0x0E, b"\x03\xff\x00\x5a" + bytes(range(88)))), "t1:3-byte length field, length 90 = capacity")
    c(A.T2Adv(t2img(6, b"\x01\x03\xf0\x00\x0f" + b"\x03\x00")), "t2:lock TLV pointing at page 15 * 2^15")
    c(A.T2Adv(t2img(255, b""), sectors="no"), "t2:2040 byte area of NULL TLVs, no sector select")
    c(A.T1Adv(b"\x11\x48", t1img(0x0E, b"\x01\x00\x03\x01a\xfe")), "t1:F12 lock control TLV with L=0")
    c(A.T1Adv(b"\x11\x48", t1img(0x0E, b"\x02\x02\x11\x22\x03\x01a\xfe")), "t1:F12 memory control TLV with L=2")
    c(A.T1Adv(b"\x11\x48", t1img(0x0E, b"\x03\xc8abc")), "t1:F15 length 200 on a static tag")
    c(A.T1Adv(b"\x12\x4c", t1img(0x3F, b"\x03\xff\xff\xffabc")), "t1:length 65535 -> RSEG 16")
    c(A.T1Adv(b"\x12\x4c", t1img(0xFF, bytes(2035) + b"\x03")), "t1:TLV type byte at 2047")
    c(A.T1Adv(b"\x11\x48", t1img(0x0E, b"\x03\x03abc\xfe"), rall=0), "t1:empty RALL answer")
    c(A.T1Adv(b"\x11\x48", t1img(0x0E, bytes(90) + b"\x03\x00")), "t1:empty message TLV right before the reserved octets 104..119 (capacity -1)")
    c(A.T1Adv(b"\x12\x4c", t1img(0x3F, b"\x03\xf0abc")), "t1:tag leaves after RALL", stop_after=1)
    c(A.T3Adv(A.t3_attr(0x10, 0, 1, 10, 0, 1, 5), b"hello"), "t3:F15 Nbr = 0")
    c(A.T3Adv(A.t3_attr(0x10, 4, 1, 2, 0, 1, 100), bytes(100)), "t3:F15 Ln 100 > Nmaxb*16 = 32")
    c(A.T3Adv(A.t3_attr(0x10, 200, 1, 40, 0, 1, 600), bytes(600), lim=255), "t3:Nbr 200 -> command longer than 255 octets")
    c(A.T3Adv(A.t3_attr(0x10, 15, 1, 2, 0, 1, 0xFFFFFF), bytes(64), lim=15, nblocks=10 ** 9, beyond="data"),
      "t3:Ln 0xFFFFFF -> block number 65536", budget=15000)
    cc = A.t4_cc(0x20, 59, 52, 4, 100)
    f = struct.pack(">H", 5) + b"hello" + bytes(93)
    for ats in (b"", b"\x01", b"\x02\x00", b"\x03\x10\x78", b"\x02\x28", b"\x03\x28\x70", b"\x04\x38\x80\x70", b"\x03\x48\x02", b"\x06\x75\x77\x81\x02\x80"):
        c(A.T4Adv(cc, f, ats=ats), "t4:F13 ATS %s" % hx(ats))
    c(A.T4Adv(cc, f, read_mode="empty"), "t4:F14 READ BINARY answered with 9000 and no data")
    c(A.T4Adv(cc, f, read_mode="over"), "t4:READ BINARY returns 7 octets more than Le")
    c(A.T4Adv(cc, f, cc_over=4), "t4:CC read returns more than Le")
    c(A.T4Adv(A.t4_cc(0x20, 59, 52, 4, 20), struct.pack(">H", 90) + bytes(98)), "t4:NLEN 90 in a 20 octet file")
    c(A.T4Adv(A.t4_cc(0x20, 59, 52, 4, 0), struct.pack(">H", 0) + bytes(8)), "t4:max file size 0 (capacity -2)")
    c(A.T4Adv(A.t4_cc(0x30, 255, 52, 6, 80000), struct.pack(">I", 70000) + bytes(70100)), "t4:NLEN 70000 with the extended control TLV")
    for fm in ("wtx", "ack", "chain", "chain0"):
        for ff in (0, 3, 5):
            c(A.T4Adv(cc, f, frame_mode=fm, frame_from=ff, wtxm=59, flood_inf=250), "t4:frame level flood %s from frame %d" % (fm, ff))
    # the S(WTX) limit max_wtxm_sum = 59 * 2^(14 - FWI): requests granted up to the limit exactly, one more is refused
    for fwi, lim in ((14, 59), (13, 118), (10, 944)):
        ats = bytes([0x05, 0x78, 0x80, fwi << 4, 0x02])
        for m in (59, 58, 1, 0, 60, 63):
            for extra in (-1, 0, 1):
                n = lim // m + extra if m else 2
                if n >= 0:
                    c(A.T4Adv(cc, f, ats=ats, frame_mode="wtx", frame_from=2, wtxm=m, flood_len=n),
                      "t4:FWI %d, %d S(WTX) requests with WTXM %d (limit %d)" % (fwi, n, m, lim))
    # retransmission requests: exactly n_retry_nak + 1 R(ACK) (n_retry_nak = min(int(1/fwt), 5)) are followed, one more is
    # refused (the retransmission that answers an R(NAK) / R(ACK) pair is always within the limit)
    for fwi, nretry in ((14, 0), (11, 1), (10, 3), (9, 5), (4, 5)):
        ats = bytes([0x05, 0x78, 0x80, fwi << 4, 0x02])
        for n in (nretry - 1, nretry, nretry + 1, nretry + 2):
            if n >= 0:
                c(A.T4Adv(cc, f, ats=ats, frame_mode="ack", frame_from=2, flood_len=n), "t4:FWI %d, %d R(ACK) with the other block number" % (fwi, n))
    # response chaining: chained blocks without INF, a response that ends just below / above 65538 octets
    for inf, n in ((0, 1), (0, 2), (255, 256), (255, 257), (255, 258), (254, 258), (254, 259)):
        c(A.T4Adv(cc, f, frame_mode="chain" if inf else "chain0", frame_from=2, flood_inf=inf or 1, flood_len=n),
          "t4:%d chained response blocks of %d octets" % (n, inf), budget=6000)
