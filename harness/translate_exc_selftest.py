"""Self-test of the exception-flow tie (harness/translate_exc.py + Model/ExcFlow.lean).

Part 1 - validation against CPython.  For every translated function the real source of the function is
recompiled with every classified call / operation replaced by a hook (the *statements* - try/except/else/
finally, raise, bare raise, assert, with, loops, break/continue/return - stay exactly as written and are
executed by CPython).  All values are "chaotic" objects: every condition and loop count is random.  A random
script decides which site raises which class (within the assumption table, callee summaries for translated
callees) at which call.  The class that leaves the function must be a member of the set the Lean analysis
computes (`summTable`, printed by Lean); a member of the set that is never observed is reported as coverage,
not as an error.  Zero contradictions expected.

Part 2 - mutations.  Source mutations on a temporary copy of src/nfc (dropped handler, reordered handlers,
widened / narrowed class tuple, call moved out of the try, raise X -> bare raise, return in finally, changed
base class, new unknown call, ...): for each the table says which statements of Props/ExcFlow.lean break
(diagnosis from the Lean-computed summaries) and - with --lean - that `lake build NfcVerif.Props.ExcFlow`
really fails in a private copy of the Lean workspace (the shared workspace is never touched).

    /venv/bin/python harness/translate_exc_selftest.py [--runs N] [--seed S] [--lean] [--only validate|mutate]
                                                       [--mut name-prefix[,name-prefix...]]
"""
import ast
import importlib
import os
import random
import re
import shutil
import subprocess
import sys
import time

HERE = os.path.dirname(os.path.abspath(__file__))
sys.path.insert(0, HERE)
import translate_exc  # noqa: E402
import excflow  # noqa: E402

REPO = os.environ.get("NFCPY_REPO", "/repo")
WORK = os.environ.get("EXCFLOW_SELFTEST_DIR", "/tmp/w2-selftest")


# ------------------------------------------------------------------------------------------------
# private Lean workspace (only the four ExcFlow files; nothing else is needed)
# ------------------------------------------------------------------------------------------------

def private_workspace():
    return excflow.private_workspace(WORK)


PROPS_TARGETS = [excflow.MODULE] + sorted(excflow.MODULES.values())


def lake_build(ws, targets, timeout=1800):
    p = subprocess.run(["lake", "build"] + list(targets), cwd=ws, stdout=subprocess.PIPE, stderr=subprocess.STDOUT,
                       text=True, timeout=timeout)
    return p.returncode, p.stdout


# ------------------------------------------------------------------------------------------------
# part 1: chaotic values, hooks, recompilation
# ------------------------------------------------------------------------------------------------

class Budget(BaseException):
    """the run took too many steps (random loops): discarded"""


class Runtime:
    def __init__(self, rng, plan, budget=4000):
        self.rng, self.plan, self.budget = rng, plan, budget
        self.count = {}
        self.fired = []

    def tick(self):
        self.budget -= 1
        if self.budget < 0:
            raise Budget()


RT = None   # the runtime of the current run (the chaotic values need it without carrying a reference)


def _u(*_a, **_k):
    return U()


def _rb(*_a):
    RT.tick()
    return RT.rng.random() < 0.5


class U(int):
    """a value about which nothing is known: every operation works, every test is random"""

    def __new__(cls):
        RT.tick()
        # mostly small: chaotic values index literal tuples such as `(0, 9, 18)[self.brs]`
        return int.__new__(cls, RT.rng.choice((0, 0, 1, 1, 2, RT.rng.randrange(256))))

    def __getattr__(self, name):
        if name.startswith("__") and name.endswith("__"):
            raise AttributeError(name)
        return U()

    def __setattr__(self, name, value):
        pass

    __call__ = _u
    __getitem__ = _u

    def __setitem__(self, k, v):
        RT.tick()

    def __delitem__(self, k):
        RT.tick()

    def __iter__(self):
        RT.tick()
        return iter([U() for _ in range(RT.rng.choice((0, 1, 1, 2, 3)))])

    def __len__(self):
        RT.tick()
        return RT.rng.choice((0, 1, 2, 3))

    __bool__ = _rb
    __contains__ = _rb
    __eq__ = _rb
    __ne__ = _rb
    __lt__ = _rb
    __le__ = _rb
    __gt__ = _rb
    __ge__ = _rb

    def __hash__(self):
        return id(self)

    def __index__(self):
        return int.__int__(self)

    def __str__(self):
        return "U"

    __repr__ = __str__

    def __format__(self, spec):
        return "U"

    def __bytes__(self):
        return b"U"

    def __enter__(self):
        return self

    def __exit__(self, *a):
        return False

    def keys(self):
        return []


for _n in ("add", "sub", "mul", "truediv", "floordiv", "mod", "pow", "lshift", "rshift", "and", "or", "xor", "matmul"):
    for _p in ("__%s__", "__r%s__", "__i%s__"):
        setattr(U, _p % _n, _u)
for _n in ("__neg__", "__pos__", "__invert__", "__abs__"):
    setattr(U, _n, _u)


class StoreProxy:
    """target of `X[i] = v` / `X[i] op= v` at a store site: the hook fires when the item is stored"""

    def __init__(self, names_store, names_load, fire):
        self.ns, self.nl, self.fire = names_store, names_load, fire

    def __getitem__(self, k):
        if self.nl:
            self.fire(self.nl)
        return U()

    def __setitem__(self, k, v):
        if self.ns:
            self.fire(self.ns)


class Instrument(ast.NodeTransformer):
    """replace every node the translator classified by a hook call"""

    def __init__(self, marks, root, stored=None):
        self.marks, self.root, self.table = marks, root, []
        self.stored = stored or {}      # source of a raised attribute -> class stored there (Config.STORED_EXC)

    def visit_Raise(self, node):
        self.generic_visit(node)
        if node.exc is not None and ast.unparse(node.exc) in self.stored:
            # `raise self._attribute_error`: on a chaotic `self` the attribute is not an exception; raise what the
            # configuration says is stored there
            node.exc = ast.copy_location(ast.Call(func=ast.Name("__xf_stored__", ast.Load()),
                                                  args=[ast.Constant(self.stored[ast.unparse(node.exc)])], keywords=[]), node.exc)
        return node

    def key(self, node, ctx):
        return (type(node).__name__, ctx, node.lineno, node.col_offset, node.end_lineno, node.end_col_offset)

    def idx(self, names):
        self.table.append(tuple(names))
        return ast.Constant(len(self.table) - 1)

    def visit_FunctionDef(self, node):
        if node is not self.root:
            return node            # nested functions: their calls are hooks of the enclosing function's marks only
        self.generic_visit(node)
        node.decorator_list = []
        return node

    def visit_Lambda(self, node):
        return node

    def visit_Call(self, node):
        k = self.key(node, "load")
        self.generic_visit(node)
        if k not in self.marks:
            return node
        recv = node.func.value if isinstance(node.func, ast.Attribute) else \
            (node.func if not isinstance(node.func, ast.Name) else None)
        args = ([recv] if recv is not None else []) + \
            [a.value if isinstance(a, ast.Starred) else a for a in node.args] + [kw.value for kw in node.keywords]
        new = ast.Call(func=ast.Name("__xf_site__", ast.Load()), args=[self.idx(self.marks[k])] + args, keywords=[])
        return ast.copy_location(new, node)

    def visit_Attribute(self, node):
        k = self.key(node, "load")
        self.generic_visit(node)
        if k in self.marks and isinstance(node.ctx, ast.Load):
            new = ast.Call(func=ast.Name("__xf_site__", ast.Load()), args=[self.idx(self.marks[k]), node.value], keywords=[])
            return ast.copy_location(new, node)
        return node

    def visit_Compare(self, node):
        """`x is None` / `x is not None` on a chaotic value is a random test as well (identity cannot be overloaded)"""
        self.generic_visit(node)
        if len(node.ops) == 1 and isinstance(node.ops[0], (ast.Is, ast.IsNot)) and \
                isinstance(node.comparators[0], ast.Constant) and node.comparators[0].value is None:
            new = ast.Call(func=ast.Name("__xf_isnone__", ast.Load()),
                           args=[node.left, ast.Constant(isinstance(node.ops[0], ast.Is))], keywords=[])
            return ast.copy_location(new, node)
        return node

    def visit_Subscript(self, node):
        kl, ks = self.key(node, "load"), self.key(node, "store")
        self.generic_visit(node)
        if isinstance(node.ctx, ast.Load):
            if kl in self.marks:
                new = ast.Call(func=ast.Name("__xf_site__", ast.Load()),
                               args=[self.idx(self.marks[kl]), node.value, node.slice], keywords=[])
                return ast.copy_location(new, node)
            return node
        if ks in self.marks or kl in self.marks:
            proxy = ast.Call(func=ast.Name("__xf_store__", ast.Load()),
                             args=[self.idx(self.marks.get(ks, [])), self.idx(self.marks.get(kl, [])), node.value], keywords=[])
            node.value = ast.copy_location(proxy, node.value)
        return node


REAL_BUILTINS = ("type", "isinstance", "issubclass", "bool", "len", "range", "int", "str", "repr", "min", "max", "list",
                 "tuple", "enumerate", "zip", "sorted", "sum", "any", "all", "dict", "set", "hasattr", "bytes",
                 "bytearray")


class Validator:
    def __init__(self, repo, seed, runs, code_repo=None, only=None):
        """analysis (tables, summaries) of `repo`; the code that is executed comes from `code_repo` (default: the
        same tree; a different tree is used to show that the comparison is sensitive)"""
        self.repo, self.rng, self.runs, self.only = repo, random.Random(seed), runs, only
        if os.path.join(REPO, "src") not in sys.path:
            sys.path.insert(0, os.path.join(REPO, "src"))
        self.ws = private_workspace()
        self.tr = translate_exc.emit(repo, os.path.join(self.ws, "NfcVerif", "Gen"))
        self.summ, err = excflow.summaries(lean_dir=self.ws)
        if self.summ is None:
            raise SystemExit("cannot compute summaries: " + err)
        if code_repo is not None:
            analysis = self.tr
            self.tr = translate_exc.Translator(code_repo).run()
            self.tr.site_kinds, self.tr.site_asm = dict(analysis.site_kinds, **self.tr.site_kinds), \
                dict(analysis.site_asm, **self.tr.site_asm)
        self.tree = self.tr.repo.class_tree()
        self.below = {}
        self.classes = {}
        self.stats = {"runs": 0, "raised": 0, "normal": 0, "implicit": 0, "budget": 0, "contradictions": []}
        self.coverage = {}

    # ---- classes
    def is_below(self, c, d):
        return c == d or any(self.is_below(b, d) for b in self.tree.get(c, []))

    def expand(self, c):
        return [k for k in self.tree if self.is_below(k, c)]

    def real_class(self, name):
        if name in self.classes:
            return self.classes[name]
        import builtins
        cls = None
        if hasattr(builtins, name):
            cls = getattr(builtins, name)
        elif name == "struct.error":
            import struct
            cls = struct.error
        elif name.startswith("ndef."):
            import ndef
            cls = getattr(ndef, name[5:])
        else:
            parts = name.split(".")
            for i in range(len(parts) - 1, 0, -1):
                try:
                    obj = importlib.import_module(".".join(parts[:i]))
                except ImportError:
                    continue
                for p in parts[i:]:
                    obj = getattr(obj, p)
                cls = obj
                break
        self.classes[name] = cls
        return cls

    def canonical(self, exc):
        if not hasattr(self, "foreign"):      # pyserial / libusb1 classes live in submodules (serial.serialutil, usb1._libusb1)
            self.foreign = {}
            for k in self.tree:
                if k.startswith(("serial.", "usb1.")):
                    try:
                        self.foreign[self.real_class(k)] = k
                    except Exception:      # noqa: BLE001  (library not installed: the name-based lookup below applies)
                        pass
        for c in type(exc).__mro__:
            if c in self.foreign:
                return self.foreign[c]
            n = c.__qualname__ if c.__module__ == "builtins" else c.__module__ + "." + c.__qualname__
            n = {"ndef.record.DecodeError": "ndef.DecodeError", "ndef.record.EncodeError": "ndef.EncodeError",
                 "serial.serialutil.SerialException": "serial.SerialException",
                 "serial.serialutil.SerialTimeoutException": "serial.SerialTimeoutException"}.get(n, n)
            if n in self.tree:
                return n
        return None

    def instance(self, name):
        cls = self.real_class(name)
        e = cls.__new__(cls)
        for a, v in (("_errno", self.rng.choice((0, -1, -2, 1, 2))), ("errno", self.rng.choice((0, 1, 5, 32, 110))),
                     ("strerr", "injected"), ("args", ("injected",))):
            try:
                setattr(e, a, v)
            except Exception:
                pass
        e._xf_injected = True
        return e

    # ---- one function
    def site_classes(self, name):
        """concrete classes a site may raise"""
        kind = self.tr.site_kinds.get(name)
        if kind == "fn":
            return list(self.summ.get(name[3:], []))
        if kind == "prim":
            return sorted({k for c in self.tr.site_asm[name] for k in self.expand(c)})
        return sorted(self.tree)

    def prepare(self, spec, ft):
        mod = importlib.import_module(spec["module"])
        fn_node = spec["_fn"]
        tree = ast.parse(spec["_mod"].src)
        target = None
        for n in ast.walk(tree):
            if isinstance(n, ast.FunctionDef) and n.lineno == fn_node.lineno and n.name == fn_node.name:
                target = n
        stored = {src: c for (m, src), c in self.tr.cfg.STORED_EXC.items() if m == spec["module"]}
        ins = Instrument(ft.marks, target, stored)
        new = ins.visit(target)
        ast.fix_missing_locations(new)
        code = compile(ast.Module(body=[new], type_ignores=[]), "<xf:%s>" % spec["id"], "exec")
        raise_lines = {n.lineno for n in ast.walk(new) if isinstance(n, (ast.Raise, ast.Assert))}
        # an exception on the line of an `assert` that is not an AssertionError comes from evaluating the test (a data
        # operation such as a subscript), not from the statement
        self.assert_only = {n.lineno for n in ast.walk(new) if isinstance(n, ast.Assert)} - \
            {n.lineno for n in ast.walk(new) if isinstance(n, ast.Raise)}
        return mod, code, new.name, ins.table, raise_lines

    def run_function(self, spec, ft):
        global RT
        try:
            mod, code, name, table, raise_lines = self.prepare(spec, ft)
        except Exception as e:   # pragma: no cover
            return "cannot instrument: %r" % e
        expected = set(self.summ.get(spec["id"], []))
        names = sorted({n for t in table for n in t})
        cover = self.coverage.setdefault(spec["id"], {"expected": expected, "seen": set(), "runs": 0, "valid": 0})
        for _ in range(self.runs):
            plan = {}
            for n in names:
                cl = self.site_classes(n)
                if cl and self.rng.random() < 0.45:
                    plan[n] = (self.rng.choice(cl), self.rng.choice((0, 0, 1, 2, None)))
            RT = rt = Runtime(self.rng, plan)

            def fire(ns, rt=rt):
                n = ns[rt.rng.randrange(len(ns))] if len(ns) > 1 else ns[0]
                c = rt.count.get(n, 0)
                rt.count[n] = c + 1
                if n in rt.plan and (rt.plan[n][1] is None or rt.plan[n][1] == c):
                    rt.fired.append((n, rt.plan[n][0]))
                    raise self.instance(rt.plan[n][0])

            def site(i, *args, table=table, rt=rt):
                rt.tick()
                if table[i]:
                    fire(table[i])
                return U()

            def store(i_s, i_l, x, table=table):
                return StoreProxy(table[i_s], table[i_l], fire)

            def isnone(x, positive):
                if isinstance(x, U):
                    return _rb()
                return (x is None) == positive

            ns = dict(mod.__dict__)
            ns.update({"__xf_site__": site, "__xf_store__": store, "__xf_isnone__": isnone,
                       "__xf_stored__": lambda c: self.real_class(c).__new__(self.real_class(c))})
            exec(code, ns)
            import builtins
            for free in self._names(ns[name].__code__):       # closure variables of a nested function
                if free not in ns and not hasattr(builtins, free):
                    ns[free] = U()
            f = ns[name]
            args = []
            a = f.__code__
            npos = a.co_argcount
            ndef = len(f.__defaults__ or ())
            for j in range(npos):
                if j >= npos - ndef and self.rng.random() < 0.5:
                    break
                args.append(U())
            self.stats["runs"] += 1
            cover["runs"] += 1
            try:
                f(*args)
                self.stats["normal"] += 1
                cover["valid"] += 1
                continue
            except Budget:
                self.stats["budget"] += 1
                continue
            except BaseException as e:
                exc = e
            # explicit (raise statement of the function / injected at a site) or implicit (data operation)?
            tb, line = exc.__traceback__, None
            while tb is not None:
                if tb.tb_frame.f_code.co_filename == "<xf:%s>" % spec["id"]:
                    line = tb.tb_lineno
                tb = tb.tb_next
            explicit = getattr(exc, "_xf_injected", False) or (line in raise_lines and exc.__traceback__ is not None
                                                                and self._raised_in_function(exc, spec["id"])
                                                                and not (line in self.assert_only and
                                                                         not isinstance(exc, AssertionError)))
            if not explicit:
                self.stats["implicit"] += 1
                continue
            c = self.canonical(exc)
            self.stats["raised"] += 1
            cover["valid"] += 1
            cover["seen"].add(c)
            if c not in expected:
                self.stats["contradictions"].append((spec["id"], c, sorted(plan.items()), rt.fired))
        return None

    def _names(self, code):
        out = set(code.co_names)
        for c in code.co_consts:
            if hasattr(c, "co_names"):
                out |= self._names(c)
        return out

    def _raised_in_function(self, exc, fid):
        tb = exc.__traceback__
        last = None
        while tb is not None:
            last = tb
            tb = tb.tb_next
        return last.tb_frame.f_code.co_filename == "<xf:%s>" % fid

    def run(self):
        skipped = []
        for spec in self.tr.specs:
            term, ft = self.tr.results[spec["id"]]
            if ft is None or spec.get("when") or (self.only and spec["id"] not in self.only):
                if not self.only:
                    skipped.append(spec["id"])
                continue
            err = self.run_function(spec, ft)
            if err:
                skipped.append("%s (%s)" % (spec["id"], err))
        return skipped


def validate(seed, runs):
    t0 = time.time()
    v = Validator(REPO, seed, runs)
    skipped = v.run()
    s = v.stats
    print("part 1: %d functions, %d runs: %d ended normally, %d with an exception of a raise statement / injected site, "
          "%d discarded (implicit exception of a data operation), %d discarded (step budget)"
          % (len(v.coverage), s["runs"], s["normal"], s["raised"], s["implicit"], s["budget"]))
    exp = sum(len(c["expected"]) for c in v.coverage.values())
    seen = sum(len(c["seen"] & c["expected"]) for c in v.coverage.values())
    print("        classes predicted by the analysis and observed in CPython: %d of %d (function, class) pairs" % (seen, exp))
    never = sorted((k, sorted(c["expected"] - c["seen"])) for k, c in v.coverage.items() if c["expected"] - c["seen"])
    for k, m in never[:12]:
        print("        not observed: %-40s %s" % (k, " ".join(m)))
    if len(never) > 12:
        print("        ... and %d more functions with unobserved classes" % (len(never) - 12))
    print("        skipped (specialised copies, run through their general version): %d" % len(skipped))
    for sk in skipped:
        if "(" in sk:
            print("        SKIPPED:", sk)
    print("        CONTRADICTIONS: %d   (%.1fs)" % (len(s["contradictions"]), time.time() - t0))
    for c in s["contradictions"][:20]:
        print("        ", c)
    return len(s["contradictions"])


def sensitivity(seed, runs):
    """the comparison must fail when the analysis is of another program: analysis of /repo, code of a mutant"""
    cases = [("tt2-narrow-handler", ["tt2.transceive"]), ("tt3-raise-wrong-class", ["tt3.send_cmd_recv_rsp"]),
             ("tt4-ispresent-narrow", ["tt4.is_present"]), ("llc-exchange-narrow", ["llc.exchange"]),
             ("snep-serve-narrow", ["snep.server.serve"]),
             ("dep-retransmit-narrow", ["dep.Initiator.send_dep_req_recv_dep_res"]), ("sock-recv-epipe-narrow", ["tco.RAW.recv"]),
             ("clients-handover-recv-unfixed", ["handover.client.recv_records"]), ("disc-clf-close-ioerror", ["clf.close"])]
    muts = {m[0]: m for m in MUTATIONS}
    bad = 0
    for name, fns in cases:
        root = os.path.join(WORK, "sens", name)
        shutil.rmtree(root, ignore_errors=True)
        os.makedirs(root)
        shutil.copytree(os.path.join(REPO, "src"), os.path.join(root, "src"))
        muts[name][3](root)
        v = Validator(REPO, seed, runs * 4, code_repo=root, only=fns)
        v.run()
        n = len(v.stats["contradictions"])
        print("        sensitivity: analysis of /repo against the code of mutant %-24s -> %d contradictions (%s)"
              % (name, n, "detected" if n else "NOT DETECTED"))
        bad += 0 if n else 1
    return bad


# ------------------------------------------------------------------------------------------------
# part 2: mutations
# ------------------------------------------------------------------------------------------------

def sub(path, old, new, count=1, after=None):
    def f(root):
        p = os.path.join(root, "src", "nfc", path)
        s = open(p).read()
        start = s.index(after) if after else 0
        i = s.index(old, start)
        s = s[:i] + new + s[i + len(old):]
        open(p, "w").write(s)
    return f


MUTATIONS = [
    # (name, kind, what is expected to break, mutator)
    ("tt2-narrow-handler", "narrow a class tuple", "tt2_transceive_escapes",
     sub("tag/tt2.py", "except nfc.clf.CommunicationError as e:", "except nfc.clf.TimeoutError as e:", after="def transceive")),
    ("tt1-drop-except", "drop an except (retry loop without handler)", "tt1_transceive_escapes",
     sub("tag/tt1.py", "            except nfc.clf.CommunicationError as e:\n                error = e\n                reason = error.__class__.__name__\n                log.debug(\"%s after %d retries\" % (reason, retry))\n",
         "            finally:\n                pass\n", after="def transceive")),
    ("tt3-call-out-of-try", "move a call out of the try", "tt3_send_cmd_recv_rsp_escapes",
     sub("tag/tt3.py", "        started = time.time()\n        error = None\n", "        started = time.time()\n        self.clf.exchange(cmd, timeout)\n        error = None\n",
         after="def send_cmd_recv_rsp")),
    ("tt3-raise-wrong-class", "raise another class", "tt3_send_cmd_recv_rsp_escapes",
     sub("tag/tt3.py", "raise Type3TagCommandError(RSP_LENGTH_ERROR)", "raise ValueError(RSP_LENGTH_ERROR)", after="def send_cmd_recv_rsp")),
    ("tt4-reorder-handlers", "reorder handlers (base class first, its handler re-raises)", "tt4_exchange_cmd_escapes",
     sub("tag/tt4.py", "                except nfc.clf.TransmissionError:\n                    if i <= self.n_retry_nak:",
         "                except nfc.clf.CommunicationError:\n                    raise\n                except nfc.clf.TransmissionError:\n                    if i <= self.n_retry_nak:",
         after="def _exchange_command")),
    ("tt4-bare-raise", "replace raise X by bare raise", "tt4_exchange_cmd_escapes",
     sub("tag/tt4.py", "                    log.error(\"ISO-DEP unrecoverable protocol error\")\n                    raise Type4TagCommandError(nfc.tag.PROTOCOL_ERROR)",
         "                    log.error(\"ISO-DEP unrecoverable protocol error\")\n                    raise", after="def _exchange_command")),
    ("tt4-wtx-outside", "call outside every handler (the repaired defect isodep-wtx-raw-exception)", "tt4_exchange_cmd_escapes",
     sub("tag/tt4.py", "        return response\n\n\nclass Type4Tag", "        self.clf.exchange(data, timeout)\n        return response\n\n\nclass Type4Tag")),
    ("tt4-ispresent-narrow", "narrow the handler of _is_present", "is_present_escapes",
     sub("tag/tt4.py", "        except nfc.clf.CommunicationError:\n            return False", "        except nfc.clf.TimeoutError:\n            return False")),
    ("tag-activate-narrow", "narrow the handler of nfc.tag.activate", "tag_activate_escapes",
     sub("tag/__init__.py", "    except nfc.clf.CommunicationError:\n        return None", "    except nfc.clf.TimeoutError:\n        return None")),
    ("tt2-ndef-drop-handler", "handler catches an unrelated class (read_tlv)", "ndef_read_escapes",
     sub("tag/tt2.py", "                except Type2TagCommandError:\n                    return None", "                except ValueError:\n                    return None")),
    ("tt4-ndef-else-raise", "handler re-raises instead of returning None", "ndef_read_escapes",
     sub("tag/tt4.py", "            except Type4TagCommandError:\n                return None\n            else:\n                return data",
         "            except Type4TagCommandError:\n                raise\n            else:\n                return data")),
    ("base-class-changed", "change a base class (Type2TagCommandError no longer a TagCommandError)", "tt2_transceive_escapes",
     sub("tag/tt2.py", "class Type2TagCommandError(TagCommandError):", "class Type2TagCommandError(Exception):")),
    ("base-class-commerror", "change a base class (TimeoutError no longer a CommunicationError)", "rcs380_send_cmd_recv_rsp_escapes",
     sub("clf/__init__.py", "class TimeoutError(CommunicationError):", "class TimeoutError(Error):")),
    ("pn53x-drop-outer-handler", "drop an except (the repaired defect pn53x-chipset-error-escapes)", "pn53x_send_cmd_recv_rsp_escapes",
     sub("clf/pn53x.py", "        except Chipset.Error as error:", "        except IndexError as error:", after="    def send_cmd_recv_rsp")),
    ("pn53x-raise-internal", "handler raises the driver-internal class", "pn53x_send_rsp_recv_cmd_escapes",
     sub("clf/pn53x.py", "                self.log.warning(error)\n                raise nfc.clf.TransmissionError(str(error))",
         "                self.log.warning(error)\n                raise", after="def send_rsp_recv_cmd")),
    ("rcs380-status-unhandled", "drop an except (the repaired defect rcs380-status-error-escapes)", "rcs380_send_cmd_recv_rsp_escapes",
     sub("clf/rcs380.py", "        except StatusError as error:", "        except IndexError as error:", after="def send_cmd_recv_rsp")),
    ("rcs380-widen-swallow", "widen a class tuple (handler now also takes IOError and turns it into TransmissionError)", None,
     sub("clf/rcs380.py", "        except CommunicationError as error:\n            log.debug(error)\n            if error == \"RECEIVE_TIMEOUT_ERROR\":",
         "        except (CommunicationError, IOError) as error:\n            log.debug(error)\n            if error == \"RECEIVE_TIMEOUT_ERROR\":")),
    ("udp-valueerror-outside", "move a call out of the try (the repaired defect udp-bad-datagram-internal-error)", "udp_exchange_escapes",
     sub("clf/udp.py", "                try:\n                    brty, data = data.split()\n                    brty = brty.decode(\"ascii\")\n                    data = bytearray(unhexlify(data))\n                except ValueError:",
         "                data = bytearray(unhexlify(data))\n                try:\n                    brty, data = data.split()\n                    brty = brty.decode(\"ascii\")\n                except ValueError:")),
    ("connect-drop-keyboardinterrupt", "drop an except (KeyboardInterrupt in connect)", "clf_connect_escapes",
     sub("clf/__init__.py", "        except KeyboardInterrupt:\n            log.debug(\"terminated by keyboard interrupt\")\n            return False\n", "")),
    ("connect-catch-systemexit", "widen a class tuple (connect catches SystemExit: the open finding would be repaired)", "clf_connect_systemexit",
     sub("clf/__init__.py", "        except KeyboardInterrupt:\n            log.debug(\"terminated by keyboard interrupt\")",
         "        except (KeyboardInterrupt, SystemExit):\n            log.debug(\"terminated by keyboard interrupt\")")),
    ("card-connect-listen-unhandled", "move a call out of the try (the repaired defect connect-raises-communication-error-from-listen)", "clf_card_connect_escapes",
     sub("clf/__init__.py", "        try:\n            target = self.listen(options['target'], timeout)\n        except nfc.clf.CommunicationError as error:\n            log.debug(error)\n            return None\n",
         "        target = self.listen(options['target'], timeout)\n")),
    ("sense-handler-narrow", "narrow a class tuple (the repaired defect sense-valueerror-invalid-target-among-several)", "clf_sense_several_escapes",
     sub("clf/__init__.py", "                    except (UnsupportedTargetError, ValueError) as error:", "                    except ValueError as error:")),
    ("llc-exchange-narrow", "narrow a class tuple (pdu.Error no longer absorbed)", "llc_exchange_escapes",
     sub("llcp/llc.py", "        except (nfc.clf.CommunicationError, pdu.Error) as error:", "        except nfc.clf.CommunicationError as error:")),
    ("llc-run-return-in-finally", "add an early return in finally (swallows KeyboardInterrupt/SystemExit)", "llc_run_systemexit",
     sub("llcp/llc.py", "            log.debug(\"llc run loop terminated on initiator\")", "            log.debug(\"llc run loop terminated on initiator\")\n            return")),
    ("llc-run-new-raise", "handler raises another class", "llc_run_escapes",
     sub("llcp/llc.py", "        except sec.EncryptionError:\n            self.terminate(reason=\"encryption error\")\n            raise SystemExit",
         "        except sec.EncryptionError:\n            self.terminate(reason=\"encryption error\")\n            raise", after="def run_as_target")),
    ("snep-serve-narrow", "handler catches a subclass only (ConnectRefused instead of Error)", "snep_server_threads_escape",
     sub("snep/server.py", "        except nfc.llcp.Error as e:", "        except nfc.llcp.ConnectRefused as e:")),
    ("snep-listen-no-handler", "drop an except (listen thread)", "snep_server_threads_escape",
     sub("snep/server.py", "        except nfc.llcp.Error as error:\n            (log.debug if error.errno == errno.EPIPE else log.error)(error)\n        finally:\n            listen_socket.close()",
         "        finally:\n            listen_socket.close()")),
    ("handover-decode-unhandled", "narrow a class tuple (the repaired defect handover-server-thread-ValueError)", "handover_server_threads_escape",
     sub("handover/server.py", "        except (ndef.DecodeError, ValueError) as error:\n            log.error(repr(error))\n            return b''",
         "        except ndef.DecodeError as error:\n            log.error(repr(error))\n            return b''")),
    ("unknown-call", "new call the tables do not know (may raise anything)", "tt2_transceive_escapes",
     sub("tag/tt2.py", "        started = time.time()\n        error = None\n        for retry in range(1 + retries):",
         "        started = time.time()\n        self.recalibrate()\n        error = None\n        for retry in range(1 + retries):")),
    ("untranslatable-statement", "statement kind the translator refuses (match)", "tt1_transceive_escapes",
     sub("tag/tt1.py", "        started = time.time()\n        error = None\n        for retry in range(3):",
         "        started = time.time()\n        match timeout:\n            case 0:\n                pass\n        error = None\n        for retry in range(3):", after="def transceive")),
    # ---- nfc/dep.py (group dep)
    ("dep-retransmit-narrow", "narrow a handler (TransmissionError no longer answered with NAK)", "dep_initiator_exchange_no_transmission_error",
     sub("dep.py", "            except nfc.clf.TransmissionError:\n                res = request_retransmission(self, 2, rwt, deadline)",
         "            except nfc.clf.ProtocolError:\n                res = request_retransmission(self, 2, rwt, deadline)")),
    ("dep-deactivate-narrow", "narrow a handler (Initiator.deactivate)", "dep_deactivate_escapes",
     sub("dep.py", "        except nfc.clf.CommunicationError:\n            return\n        else:", "        except nfc.clf.TimeoutError:\n            return\n        else:")),
    ("dep-target-deactivate-narrow", "narrow a handler (Target._deactivate)", "dep_deactivate_escapes",
     sub("dep.py", "                req = self.send_res_recv_req(res, deadline)\n            except nfc.clf.CommunicationError:\n                return",
         "                req = self.send_res_recv_req(res, deadline)\n            except nfc.clf.TransmissionError:\n                return")),
    ("dep-psl-typeerror-unhandled", "handler catches an unrelated class (PSL decode)", "dep_pdu_codec_escapes",
     sub("dep.py", "            except TypeError:\n                errstr = \"invalid format of the \" + cls.PDU_NAME", "            except IndexError:\n                errstr = \"invalid format of the \" + cls.PDU_NAME")),
    ("dep-decode-frame-wrong-class", "raise another class (decode_frame)", "dep_frame_codec_escapes",
     sub("dep.py", "            error = \"NFC-DEP frame length byte must be from 3 to 255\"\n            raise nfc.clf.TransmissionError(error)",
         "            error = \"NFC-DEP frame length byte must be from 3 to 255\"\n            raise ValueError(error)", after="class Target")),
    ("dep-rtox-wrong-class", "raise another class (RTOX range check)", "dep_initiator_exchange_escapes",
     sub("dep.py", "                error = \"NFC-DEP RTOX must be in range 1 to 59\"\n                raise nfc.clf.ProtocolError(error)",
         "                error = \"NFC-DEP RTOX must be in range 1 to 59\"\n                raise IndexError(error)")),
    ("dep-attention-outside-try", "move a call out of the try (attention request)", "dep_recovery_escapes",
     sub("dep.py", "                try:\n                    res = self.send_req_recv_res(req, timeout)\n                except nfc.clf.CommunicationError:\n                    continue\n                if res.pfb.fmt == DEP_RES.TimeoutExtension:\n                    error = \"received NFC-DEP RTOX response to NACK or ATN\"\n                    raise nfc.clf.ProtocolError(error)\n                if res.pfb.fmt != DEP_RES.Attention:",
         "                res = self.send_req_recv_res(req, timeout)\n                if res.pfb.fmt == DEP_RES.TimeoutExtension:\n                    error = \"received NFC-DEP RTOX response to NACK or ATN\"\n                    raise nfc.clf.ProtocolError(error)\n                if res.pfb.fmt != DEP_RES.Attention:")),
    ("dep-benign-refactor", "harmless edit (log line in the retry loop): nothing may break", None,
     sub("dep.py", "            except nfc.clf.TimeoutError:\n                request_attention(self, 2, rwt, deadline)", "            except nfc.clf.TimeoutError:\n                log.debug(\"attention\")\n                request_attention(self, 2, rwt, deadline)")),
    # ---- LLCP socket API (group sock)
    ("sock-recv-epipe-narrow", "handler catches an unrelated class (RawAccessPoint.recv: the wake-up IndexError)", "socket_wakeup_indexerror_mapped",
     sub("llcp/tco.py", "                return super(RawAccessPoint, self).recv()\n            except IndexError:", "                return super(RawAccessPoint, self).recv()\n            except KeyError:")),
    ("sock-accept-unprotected", "move a call out of the try (DataLinkConnection.accept)", "socket_wakeup_indexerror_mapped",
     sub("llcp/tco.py", "            try:\n                rcvd_pdu = super(DataLinkConnection, self).recv()\n            except IndexError:\n                raise err.Error(errno.EPIPE)\n            self.recv_buf -= 1",
         "            rcvd_pdu = super(DataLinkConnection, self).recv()\n            self.recv_buf -= 1")),
    ("sock-bind-reraise", "replace raise X by bare raise (no free address)", "socket_api_escapes",
     sub("llcp/llc.py", "            except ValueError:\n                raise err.Error(errno.EAGAIN)", "            except ValueError:\n                raise")),
    ("sock-send-wrong-class", "raise another class (DataLinkConnection.send: message too long)", "socket_api_escapes",
     sub("llcp/tco.py", "            if len(message) > self.send_miu:\n                raise err.Error(errno.EMSGSIZE)\n            while self.send_window_slots",
         "            if len(message) > self.send_miu:\n                raise ValueError(\"message too long\")\n            while self.send_window_slots")),
    ("sock-connectrefused-base", "change a base class (ConnectRefused no longer an nfc.llcp.Error)", "socket_api_escapes",
     sub("llcp/err.py", "class ConnectRefused(Error):", "class ConnectRefused(Exception):")),
    ("sock-sap-shutdown-narrow", "handler catches an unrelated class (ServiceAccessPoint.shutdown)", "sap_shutdown_never_raises",
     sub("llcp/llc.py", "                socket = self.sock_list.pop()\n            except IndexError:\n                return",
         "                socket = self.sock_list.pop()\n            except KeyError:\n                return")),
    ("sock-sd-enqueue-keyerror", "handler catches an unrelated class (ServiceDiscovery.enqueue, called by dispatch)", "llc_collect_dispatch_escape",
     sub("llcp/llc.py", "                        name = self.sent[tid]\n                    except KeyError:\n                        continue",
         "                        name = self.sent[tid]\n                    except IndexError:\n                        continue")),
    ("sock-benign-refactor", "harmless edit (log line in bind): nothing may break", None,
     sub("llcp/llc.py", "            if self.terminated:\n                raise err.Error(errno.ESHUTDOWN)\n            self._bind(socket, addr_or_name)",
         "            if self.terminated:\n                raise err.Error(errno.ESHUTDOWN)\n            log.debug(\"bind\")\n            self._bind(socket, addr_or_name)")),
    # ---- SNEP / handover clients (group clients)
    ("clients-handover-recv-unfixed", "handler catches an unrelated class (the repaired findings handover-client-recv-ValueError/DecodeError)", "handover_client_escapes",
     sub("handover/client.py", "            records = list(ndef.message_decoder(octets, 'relax'))\n        except (ndef.DecodeError, ValueError) as error:",
         "            records = list(ndef.message_decoder(octets, 'relax'))\n        except KeyError as error:")),
    ("clients-handover-octets-narrow", "narrow a class tuple (recv_octets: ValueError of an unknown record type)", "handover_client_no_ndef_error",
     sub("handover/client.py", "            except (ndef.DecodeError, ValueError):\n                # ValueError is raised for an invalid record type\n                log.debug(\"message is incomplete",
         "            except ndef.DecodeError:\n                # ValueError is raised for an invalid record type\n                log.debug(\"message is incomplete")),
    ("clients-handover-encode-unhandled", "handler catches an unrelated class (send_records)", "handover_client_no_ndef_error",
     sub("handover/client.py", "        except ndef.EncodeError as error:", "        except KeyError as error:")),
    ("clients-snep-put-wrong-class", "raise another class (put_octets: response code)", "snep_client_escapes",
     sub("snep/client.py", "                if response[1] != 0x81:\n                    raise SnepError(response[1])\n\n            return True",
         "                if response[1] != 0x81:\n                    raise ValueError(response[1])\n\n            return True")),
    ("clients-snep-return-in-finally", "add a return in finally (swallows SnepError and nfc.llcp.Error)", "snep_client_can_fail",
     sub("snep/client.py", "            return True\n\n        finally:\n            if self.release_connection:\n                self.close()",
         "            return True\n\n        finally:\n            if self.release_connection:\n                self.close()\n            return False")),
    ("clients-snep-recv-new-raise", "new raise in a helper (recv_response: short fragment)", "snep_client_escapes",
     sub("snep/client.py", "            log.debug(\"snep response initial fragment too short\")\n            return None",
         "            log.debug(\"snep response initial fragment too short\")\n            raise IndexError(\"short\")")),
    ("clients-benign-refactor", "harmless edit (log line in send_octets): nothing may break", None,
     sub("handover/client.py", "        miu = self.socket.getsockopt(nfc.llcp.SO_SNDMIU)\n", "        miu = self.socket.getsockopt(nfc.llcp.SO_SNDMIU)\n        log.debug(\"miu\")\n")),
    # ---- target discovery of the drivers, open / close, connect(llcp) (group discovery)
    ("disc-rcs380-internal-commerror", "handler catches an unrelated class (RC-S380 listen_dep: driver-internal CommunicationError)", "rcs380_discovery_no_internal_commerror",
     sub("clf/rcs380.py", "            except (CommunicationError) as error:\n                log.warning(str(error))\n                data = None",
         "            except (IndexError) as error:\n                log.warning(str(error))\n                data = None")),
    ("disc-clf-close-ioerror", "handler catches an unrelated class (ContactlessFrontend.close)", "clf_sense_absorbs_commerror",
     sub("clf/__init__.py", "                    self.device.close()\n                except IOError:", "                    self.device.close()\n                except KeyError:")),
    ("disc-clf-sense-commerror-narrow", "narrow a handler (sense: CommunicationError of a driver)", "clf_sense_absorbs_commerror",
     sub("clf/__init__.py", "                    except CommunicationError as error:\n                        log.debug(error)\n                    else:",
         "                    except TimeoutError as error:\n                        log.debug(error)\n                    else:")),
    ("disc-pn53x-sense-wrong-class", "raise another class (pn53x sense_ttf: unsupported bit rate)", "pn53x_sense_escapes",
     sub("clf/pn53x.py", "            self.log.warning(message)\n            raise ValueError(message)\n\n        if not self.chipset.read_register(\"CIU_TxControl\")",
         "            self.log.warning(message)\n            raise KeyError(message)\n\n        if not self.chipset.read_register(\"CIU_TxControl\")")),
    ("disc-udp-listen-dep-unrepaired", "move calls out of the try (reverts fixes/C18/0005: the peer falls silent after ATR_REQ)", "clf_connect_no_commerror",
     sub("clf/udp.py", "                try:\n                    self._send_data(brty, data, addr)\n                    brty, data, addr = self._recv_data(wait, brty)\n                except nfc.clf.CommunicationError:\n                    return None\n",
         "                self._send_data(brty, data, addr)\n                brty, data, addr = self._recv_data(wait, brty)\n")),
    ("disc-device-connect-wrong-class", "raise another class (device.connect: access denied)", "frontend_escapes",
     sub("clf/device.py", "                        raise IOError(errno.EACCES, os.strerror(errno.EACCES))", "                        raise RuntimeError(os.strerror(errno.EACCES))")),
    ("disc-benign-refactor", "harmless edit (log line in listen): nothing may break", None,
     sub("clf/__init__.py", "            self.target = None  # forget captured target\n            self.device.mute()  # deactivate the rf field\n\n            info = \"listen %.3f seconds for %s\"",
         "            self.target = None  # forget captured target\n            log.debug(\"mute\")\n            self.device.mute()  # deactivate the rf field\n\n            info = \"listen %.3f seconds for %s\"")),
    ("tr-usb-read-narrow", "narrow the catch-all handler of USB.read (USBError -> USBErrorIO)", "transport_read_escapes",
     sub("clf/transport.py", "            except libusb.USBError as error:", "            except libusb.USBErrorIO as error:", after="def read(self, timeout=0)")),
    ("tr-usb-write-call-out-of-try", "move a call out of the try (USB.write: first bulkWrite)", "transport_write_escapes",
     sub("clf/transport.py", "            try:\n                ep_addr = self.usb_out.getAddress()\n                self.usb_dev.bulkWrite(ep_addr, bytes(frame), timeout)\n",
         "            ep_addr = self.usb_out.getAddress()\n            self.usb_dev.bulkWrite(ep_addr, bytes(frame), timeout)\n            try:\n")),
    ("tr-tty-read-wrong-class", "raise another class (TTY.read: silent line)", "transport_read_escapes",
     sub("clf/transport.py", "                raise IOError(errno.ETIMEDOUT, os.strerror(errno.ETIMEDOUT))", "                raise RuntimeError(os.strerror(errno.ETIMEDOUT))",
         after="def read(self, timeout)")),
    ("tr-usb-read-zero-wrong-class", "raise another class (USB.read: zero-length bulk read)", "transport_read_escapes",
     sub("clf/transport.py", "                log.error(\"bulk read returned zero data\")\n                raise IOError(errno.EIO, os.strerror(errno.EIO))",
         "                log.error(\"bulk read returned zero data\")\n                raise ValueError(os.strerror(errno.EIO))")),
    ("tr-usb-close-raises", "call that can raise added (USB.close releases the interface first)", "transport_close_escapes",
     sub("clf/transport.py", "        if self.usb_dev:\n            self.usb_dev.close()", "        if self.usb_dev:\n            self.usb_dev.releaseInterface(0)\n            self.usb_dev.close()")),
    ("tr-usb-open-repaired", "catch-all handler added to USB.open (claimInterface): the finding statement goes stale only when ALL leaks are closed - nothing may break", None,
     sub("clf/transport.py", "        except libusb.USBErrorNoDevice:\n            raise IOError(errno.ENODEV, os.strerror(errno.ENODEV))\n\n    def close(self):",
         "        except libusb.USBErrorNoDevice:\n            raise IOError(errno.ENODEV, os.strerror(errno.ENODEV))\n        except libusb.USBError:\n            raise IOError(errno.EIO, os.strerror(errno.EIO))\n\n    def close(self):")),
    ("tr-benign-refactor", "harmless edit (log line in USB.write): nothing may break", None,
     sub("clf/transport.py", "                ep_addr = self.usb_out.getAddress()\n                self.usb_dev.bulkWrite(ep_addr, bytes(frame), timeout)",
         "                ep_addr = self.usb_out.getAddress()\n                log.debug(\"bulk write\")\n                self.usb_dev.bulkWrite(ep_addr, bytes(frame), timeout)")),
    ("benign-refactor", "harmless edit (log line added, handler body reformatted): nothing may break", None,
     sub("tag/tt2.py", "                error = e\n                reason = error.__class__.__name__", "                error = e\n                log.debug(\"retry\")\n                reason = error.__class__.__name__", after="def transceive")),
]


def mutate(with_lean, select=None):
    ws = private_workspace()
    gen = os.path.join(ws, "NfcVerif", "Gen")
    rows = []
    lean_modules = {}
    t0 = time.time()
    # baseline
    tr = translate_exc.emit(REPO, gen)
    base = excflow.diagnose(tr, lean_dir=ws)
    if with_lean:
        rc, out = lake_build(ws, PROPS_TARGETS)
        print("baseline: diagnosis %s, lake build rc=%d" % (base or "clean", rc))
    else:
        print("baseline: diagnosis %s" % (base or "clean"))
    for name, kind, expect, mut in MUTATIONS:
        if select and not any(name.startswith(p) for p in select.split(",")):
            continue
        root = os.path.join(WORK, "mut", name)
        shutil.rmtree(root, ignore_errors=True)
        os.makedirs(root)
        shutil.copytree(os.path.join(REPO, "src"), os.path.join(root, "src"))
        try:
            mut(root)
        except ValueError as e:
            rows.append((name, kind, expect, "MUTATION DOES NOT APPLY: %s" % e, [], None))
            continue
        t1 = time.time()
        tr = translate_exc.emit(root, gen)
        diag = excflow.diagnose(tr, lean_dir=ws)
        broken = excflow.broken_theorems(diag, lean_dir=ws)
        rc = None
        if with_lean:
            rc, out = lake_build(ws, PROPS_TARGETS)
            failed_modules = sorted(set(re.findall(r"error: (?:\S*/)?NfcVerif/Props/(ExcFlow\w*)\.lean", out)))
            lean_modules[name] = failed_modules
        others = sum(len(ft.others) for _, ft in tr.results.values() if ft)
        unknown = sum(len(ft.unknown) for _, ft in tr.results.values() if ft)
        rows.append((name, kind, expect, diag, broken, rc, others, unknown, time.time() - t1))
    translate_exc.emit(REPO, gen)
    bad = 0
    print("\npart 2: %d mutations (%.0fs)" % (len(rows), time.time() - t0))
    print("%-32s | %-34s | %s" % ("mutation", "expected to break", "statements that break (diagnosis) / lake build"))
    for r in rows:
        name, kind, expect, diag, broken = r[:5]
        if isinstance(diag, str):
            print("%-32s | %s" % (name, diag))
            bad += 1
            continue
        rc = r[5]
        hit = (expect in broken) if expect else not diag
        if with_lean and rc is not None:
            hit = hit and ((rc != 0) == bool(diag))
        bad += 0 if hit else 1
        print("%-32s | %-34s | %s%s%s" % (name, expect or "(nothing)", "OK " if hit else "MISSED ",
                                         "%d statements: %s" % (len(diag), "; ".join(d.split(" (allowed")[0].split(": ", 1)[1] for d in diag[:2])) if diag else "none",
                                         "" if rc is None else " | lake build %s" % (
                                             "fails in " + ",".join(lean_modules.get(name, [])) if rc else "passes")))
        print("%-32s   kind: %s; theorems: %s%s" % ("", kind, ", ".join(broken[:6]) + (" ..." if len(broken) > 6 else "") or "-",
                                                 "; untranslatable=%d unknown=%d" % (r[6], r[7]) if (r[6] or r[7]) else ""))
    print("mutations with an unexpected result: %d" % bad)
    return bad


if __name__ == "__main__":
    args = sys.argv[1:]
    seed = int(args[args.index("--seed") + 1]) if "--seed" in args else 1
    runs = int(args[args.index("--runs") + 1]) if "--runs" in args else 60
    only = args[args.index("--only") + 1] if "--only" in args else None
    rc = 0
    if only in (None, "validate"):
        rc += validate(seed, runs)
        rc += sensitivity(seed, runs)
    if only in (None, "mutate"):
        rc += mutate("--lean" in args, args[args.index("--mut") + 1] if "--mut" in args else None)
    sys.exit(1 if rc else 0)
