"""Shared machinery of the nfcpy property checks.

One property check = one module harness/props/cXX.py with a function
``run(ck)`` that receives a ``Check`` object and

* declares its proof obligations (``ck.lean(...)``)  -> layer L1,
* runs correspondence ties model <-> implementation  -> layer L2,
* runs property oracles on the real code             -> layer L3,

and reports failing cases through ``ck.fail(key, what, replay)``.  ``Check``
decides between KNOWN-FINDING / VIOLATION / broken-tie-without-input, writes
the evidence file and the replay files, and returns the exit code.

Exit codes: 0 property held on everything explored (known findings are
printed), 1 VIOLATION, 2 infrastructure failure (never a VIOLATION line).
"""
import hashlib
import json
import os
import random
import re
import subprocess
import sys
import time
import traceback

VERIF = os.path.dirname(os.path.dirname(os.path.abspath(__file__)))
REPO = os.environ.get("NFCPY_REPO", "/repo")
LEAN = os.path.join(VERIF, "lean")
EVID = os.path.join(VERIF, "evidence")
REPLAYS = os.path.join(VERIF, "replays")
ALLOWED_AXIOMS = {"propext", "Classical.choice", "Quot.sound"}
FORBIDDEN = re.compile(
    r"\bsorry\b|\badmit\b|^\s*axiom\s|native_decide|bv_decide|implemented_by"
    r"|\bunsafe\s|maxHeartbeats\s+0\b|@\[extern|set_option\s+debug\.skipKernelTC")

sys.path.insert(0, os.path.join(REPO, "src"))
os.environ.setdefault("NFCPY_VERIF", "1")


class Infra(Exception):
    """machinery failure -> exit 2"""


def _strip_comments(text):
    # remove /- ... -/ (nested) and -- ... comments, good enough for the grep gate
    out, depth, i = [], 0, 0
    while i < len(text):
        if text.startswith("/-", i):
            depth += 1
            i += 2
        elif depth and text.startswith("-/", i):
            depth -= 1
            i += 2
        elif depth:
            if text[i] == "\n":
                out.append("\n")
            i += 1
        elif text.startswith("--", i):
            while i < len(text) and text[i] != "\n":
                i += 1
        else:
            out.append(text[i])
            i += 1
    return "".join(out)


IN_LAKE = [0]        # > 0 while this process waits for / runs lake (excluded from the wall-clock watchdog)
LAKE_TIME = [0.0]


def released():
    """which regenerated-from-source groups are part of the registered checks (harness/released.json)"""
    return json.load(open(os.path.join(VERIF, "harness", "released.json")))


def fn_spec_modules():
    """the released spec tables of the function translator (harness/fnspecs/<name>.py)"""
    import importlib.util
    mods = []
    for name in released()["fn_spec_files"]:
        sp = importlib.util.spec_from_file_location("fnspecs_" + name, os.path.join(VERIF, "harness", "fnspecs", name + ".py"))
        m = importlib.util.module_from_spec(sp)
        sp.loader.exec_module(m)
        mods.append(m)
    mods.sort(key=lambda m: (getattr(m, "ORDER", 100), m.__name__))
    return mods


def regen_all():
    """T-tie: rewrite every lean/NfcVerif/Gen/*.lean from the tree under test (REPO).  Called with the lake lock held
    before every build, so that a build never sees files generated from another tree (parallel checks against
    scratch worktrees).  Files are only touched when their text changes."""
    import shutil
    import tempfile
    import translate_exc
    import translate_fn
    import translate_lock
    import translate_tables
    gen = os.path.join(LEAN, "NfcVerif", "Gen")
    tmp = tempfile.mkdtemp(prefix="gen-")
    try:
        translate_tables.emit(REPO, os.path.join(tmp, "Tables.lean"))
        translate_lock.emit(REPO, os.path.join(tmp, "ClfLock.lean"))
        translate_exc.emit(REPO, tmp)
        if released().get("monitor"):
            import translate_mon
            translate_mon.emit(REPO, os.path.join(tmp, "Monitor.lean"))
        mods = fn_spec_modules()
        specs = [sp for m in mods for sp in m.SPECS]
        translate_fn.emit(REPO, tmp, specs=specs, only=[m.GROUP for m in mods])
        for f in sorted(os.listdir(tmp)):
            new = open(os.path.join(tmp, f)).read()
            dst = os.path.join(gen, f)
            if not os.path.exists(dst) or open(dst).read() != new:
                with open(dst, "w") as out:
                    out.write(new)
    finally:
        shutil.rmtree(tmp, ignore_errors=True)


def lake(args, timeout=3000):
    """run lake under a lock so that parallel checks do not race; Gen/ is regenerated from REPO under the same lock"""
    import fcntl
    t_in = time.time()
    IN_LAKE[0] += 1
    lock = open(os.path.join(LEAN, ".lake.lock"), "w")
    fcntl.flock(lock, fcntl.LOCK_EX)
    try:
        if args and args[0] == "build":
            regen_all()
        p = subprocess.run(["lake"] + args, cwd=LEAN, stdout=subprocess.PIPE,
                           stderr=subprocess.STDOUT, text=True, timeout=timeout)
    finally:
        fcntl.flock(lock, fcntl.LOCK_UN)
        lock.close()
        IN_LAKE[0] -= 1
        LAKE_TIME[0] += time.time() - t_in
    return p.returncode, p.stdout


def module_files(module, seen=None):
    """source files of `module` and its NfcVerif imports (transitively)"""
    seen = seen if seen is not None else {}
    path = os.path.join(LEAN, module.replace(".", "/") + ".lean")
    if module in seen or not os.path.exists(path):
        return seen
    text = open(path).read()
    seen[module] = path
    for m in re.findall(r"^import\s+((?:NfcVerif|Drv)\.[\w.]+)", text, re.M):
        module_files(m, seen)
    return seen


class Model:
    """line-protocol client of a compiled model driver (lean/Drv/Cxx.lean)"""

    def __init__(self, exe):
        self.exe = exe
        path = os.path.join(LEAN, ".lake", "build", "bin", exe)
        rc, out = lake(["build", exe])
        if rc != 0 or not os.path.exists(path):
            raise Infra("cannot build model driver %s:\n%s" % (exe, out[-3000:]))
        self.path = path
        self.n = 0

    def ask_many(self, lines, timeout=1200):
        """send all request lines, return the reply lines (same order)"""
        lines = list(lines)
        if not lines:
            return []
        for l in lines:
            if "\n" in l:
                raise Infra("newline in model request")
        p = subprocess.run([self.path], input="\n".join(lines) + "\n", stdout=subprocess.PIPE,
                           stderr=subprocess.PIPE, text=True, timeout=timeout)
        out = p.stdout.split("\n")
        if out and out[-1] == "":
            out.pop()
        if p.returncode != 0 or len(out) != len(lines):
            raise Infra("model driver %s: rc=%s, %d replies for %d requests; stderr=%s"
                        % (self.exe, p.returncode, len(out), len(lines), p.stderr[-500:]))
        self.n += len(lines)
        return out

    def ask(self, line):
        return self.ask_many([line])[0]


def hx(b):
    """bytes -> protocol hex ('-' for empty)"""
    b = bytes(b)
    return b.hex() if b else "-"


def exc_name(e):
    """canonical name of a Python exception, matching NfcVerif.Exc.name"""
    import struct
    try:
        import nfc.clf
        import nfc.tag
        import nfc.llcp
        import nfc.llcp.pdu
    except Exception:  # pragma: no cover
        pass
    t = type(e)
    table = [
        ("nfc.llcp.pdu", "DecodeError", "DecodeError"), ("nfc.llcp.pdu", "EncodeError", "EncodeError"),
        ("nfc.clf", "TimeoutError", "TimeoutError"), ("nfc.clf", "TransmissionError", "TransmissionError"),
        ("nfc.clf", "ProtocolError", "ProtocolError"), ("nfc.clf", "BrokenLinkError", "BrokenLinkError"),
        ("nfc.clf", "UnsupportedTargetError", "UnsupportedTargetError"),
        ("nfc.clf", "CommunicationError", "CommunicationError"),
    ]
    for mod, cls, name in table:
        m = sys.modules.get(mod)
        if m is not None and isinstance(e, getattr(m, cls)):
            return name
    m = sys.modules.get("nfc.tag")
    if m is not None and isinstance(e, m.TagCommandError):
        return "TagCommandError(%d)" % e.errno
    m = sys.modules.get("nfc.llcp")
    if m is not None and isinstance(e, m.ConnectRefused):
        return "ConnectRefused"
    if m is not None and isinstance(e, m.Error):
        return "llcp.Error(%d)" % e.errno
    if isinstance(e, struct.error):
        return "struct.error"
    if isinstance(e, UnboundLocalError):
        return "UnboundLocalError"
    if isinstance(e, (IOError, OSError)):
        return "IOError(%s)" % (e.errno if e.errno is not None else 0)
    names = {IndexError: "IndexError", ValueError: "ValueError", TypeError: "TypeError", KeyError: "KeyError",
             AttributeError: "AttributeError", RecursionError: "RecursionError",
             AssertionError: "AssertionError", RuntimeError: "RuntimeError", OverflowError: "OverflowError",
             ZeroDivisionError: "ZeroDivisionError", SystemExit: "SystemExit",
             KeyboardInterrupt: "KeyboardInterrupt"}
    for c in t.__mro__:
        if c in names:
            return names[c]
    return t.__name__


INTERNAL = {"IndexError", "ValueError", "TypeError", "struct.error", "KeyError", "AttributeError",
            "UnboundLocalError", "RecursionError", "AssertionError", "RuntimeError", "OverflowError",
            "ZeroDivisionError", "OutOfFuel"}


class Hang(BaseException):
    """raised by the CPU-time watchdog of main(); not an Exception, so that guards in the property modules
    (`except Exception`) do not swallow it"""


class Check:
    def __init__(self, pid, tier, seed, replay=None):
        self.pid, self.tier, self.seed, self.replay = pid, tier, seed, replay
        self.rng = random.Random(seed * 1000003 + int(pid[1:]))
        self.t0 = time.time()
        self.obligations = []      # (module, theorem, axioms|None, ok)
        self.lean_errors = []      # (module, message)  broken proof obligations
        self.ties = {}             # name -> dict(cases, disagreements, exhaustive)
        self.fails = []            # (key, what, replay)
        self.cases = {}            # bucket -> set(hash)
        self.nontrivial = set()
        self.evals = 0
        self.samples = []
        self.dist = {}
        self.assumptions = []
        self.trusted = ["Lean 4.33.0 kernel", "axioms: propext, Classical.choice, Quot.sound (as reported by #print axioms per theorem)"]
        self.notes = []
        self.rule = ""
        self.checker_cmds = []
        self.thorough = tier == "thorough"
        kf = json.load(open(os.path.join(VERIF, "known_findings.json")))["findings"]
        import glob
        for extra in sorted(glob.glob(os.path.join(VERIF, "findings", pid + "*.json"))):   # work in progress, merged by tools/merge.py
            kf = kf + json.load(open(extra))
        self.known = {f["key"]: f for f in kf if f["property"] == pid and f["status"] == "open"}
        self.known_hit = {}

    # ------------------------------------------------------------- L1
    def lean(self, module, theorems, gen_dependent=False):
        """Build `module`, audit `theorems` (fully qualified names).

        A failure is a *broken proof obligation*.  It can only be caused by
        the code under test when the module depends on regenerated Gen/ files
        (gen_dependent=True); otherwise it is a machinery defect (Infra)."""
        files = module_files(module)
        for m, path in files.items():
            for n, line in enumerate(_strip_comments(open(path).read()).split("\n"), 1):
                if FORBIDDEN.search(line):
                    raise Infra("forbidden construct in %s:%d: %s" % (path, n, line.strip()))
        cmd = "cd lean && lake build %s" % module
        self.checker_cmds.append(cmd)
        rc, out = lake(["build", module])
        if rc != 0:
            if not gen_dependent:
                raise Infra("lake build %s failed:\n%s" % (module, out[-4000:]))
            errs = re.findall(r"error: ([^\n]*\.lean:\d+:\d+: [^\n]*)", out)
            self.lean_errors.append((module, errs[:5] or [out[-1500:]]))
            for t in theorems:
                self.obligations.append((module, t, None, False))
            return False
        audit_dir = os.path.join(LEAN, ".lake", "audit")
        os.makedirs(audit_dir, exist_ok=True)
        apath = os.path.join(audit_dir, "%s_%s.lean" % (self.pid, module.replace(".", "_")))
        with open(apath, "w") as f:
            f.write("import %s\n" % module)
            for t in theorems:
                f.write("#print axioms %s\n" % t)
        self.checker_cmds.append("cd lean && lake env lean %s   # '#print axioms' for each obligation" % os.path.relpath(apath, LEAN))
        p = subprocess.run(["lake", "env", "lean", apath], cwd=LEAN, stdout=subprocess.PIPE,
                           stderr=subprocess.STDOUT, text=True, timeout=1200)
        text = p.stdout.replace("\n ", " ").replace("\n  ", " ")
        ok_all = True
        for t in theorems:
            m = re.search(r"'%s' depends on axioms: \[([^\]]*)\]" % re.escape(t), text)
            m0 = re.search(r"'%s' does not depend on any axioms" % re.escape(t), text)
            if m:
                ax = [a.strip() for a in m.group(1).replace("\n", " ").split(",") if a.strip()]
            elif m0:
                ax = []
            else:
                if gen_dependent:
                    self.lean_errors.append((module, ["obligation %s not found: %s" % (t, text[-600:])]))
                    self.obligations.append((module, t, None, False))
                    ok_all = False
                    continue
                raise Infra("obligation %s missing from %s: %s" % (t, module, text[-1500:]))
            bad = [a for a in ax if a not in ALLOWED_AXIOMS]
            if bad:
                raise Infra("theorem %s depends on non-standard axioms %s" % (t, bad))
            self.obligations.append((module, t, ax, True))
        return ok_all

    def lean_many(self, pairs, gen_dependent=True):
        """`lean()` for several (module, theorems) pairs with ONE lake invocation and ONE audit run (the lake lock is
        contended when checks run in parallel).  Falls back to the per-module path when the combined build fails, so
        that the failing module is attributed."""
        pairs = [(m, t) for m, t in pairs if t]
        if not pairs:
            return True
        for module, _ in pairs:
            for m, path in module_files(module).items():
                for n, line in enumerate(_strip_comments(open(path).read()).split("\n"), 1):
                    if FORBIDDEN.search(line):
                        raise Infra("forbidden construct in %s:%d: %s" % (path, n, line.strip()))
        mods = [m for m, _ in pairs]
        rc, out = lake(["build"] + mods)
        if rc != 0:
            ok = True
            for module, theorems in pairs:
                ok = self.lean(module, theorems, gen_dependent=gen_dependent) and ok
            return ok
        self.checker_cmds.append("cd lean && lake build %s" % " ".join(mods))
        audit_dir = os.path.join(LEAN, ".lake", "audit")
        os.makedirs(audit_dir, exist_ok=True)
        apath = os.path.join(audit_dir, "%s_structural.lean" % self.pid)
        with open(apath, "w") as f:
            for m in mods:
                f.write("import %s\n" % m)
            for _, theorems in pairs:
                for t in theorems:
                    f.write("#print axioms %s\n" % t)
        self.checker_cmds.append("cd lean && lake env lean %s   # '#print axioms' for each obligation" % os.path.relpath(apath, LEAN))
        p = subprocess.run(["lake", "env", "lean", apath], cwd=LEAN, stdout=subprocess.PIPE,
                           stderr=subprocess.STDOUT, text=True, timeout=1800)
        text = p.stdout.replace("\n ", " ").replace("\n  ", " ")
        ok_all = True
        for module, theorems in pairs:
            for t in theorems:
                m = re.search(r"'%s' depends on axioms: \[([^\]]*)\]" % re.escape(t), text)
                m0 = re.search(r"'%s' does not depend on any axioms" % re.escape(t), text)
                if m:
                    ax = [a.strip() for a in m.group(1).replace("\n", " ").split(",") if a.strip()]
                elif m0:
                    ax = []
                else:
                    if gen_dependent:
                        self.lean_errors.append((module, ["obligation %s not found: %s" % (t, text[-600:])]))
                        self.obligations.append((module, t, None, False))
                        ok_all = False
                        continue
                    raise Infra("obligation %s missing from %s: %s" % (t, module, text[-1500:]))
                bad = [a for a in ax if a not in ALLOWED_AXIOMS]
                if bad:
                    raise Infra("theorem %s depends on non-standard axioms %s" % (t, bad))
                self.obligations.append((module, t, ax, True))
        return ok_all

    TABLES = {   # bridge module -> theorems (lean/NfcVerif/Props/Tables*.lean)
        "TablesDep": ["lr_table_bridge", "psl_brs_bridge"],
        "TablesIso": ["fsc_table_bridge"],
        "TablesSap": ["wks_map_bridge"],
        "TablesPdu": ["pdu_type_map_bridge", "dlc_pdu_names_bridge"],
        "TablesTag": ["tag_errno_bridge"],
        "TablesFrame": ["pn53x_frame_constants_bridge"],
    }

    def tables(self, *modules):
        """T-tie for constants: regenerate Gen/Tables.lean from the source and re-prove the bridge
        theorems (source constant = model constant) of the named modules"""
        # Gen/Tables.lean is rewritten from REPO by regen_all() under the lake lock before the build
        self.trusted.append("harness/translate_tables.py (ast extraction of literal tables -> Gen/Tables.lean)")
        ok = True
        for m in modules:
            ok = self.lean("NfcVerif.Props." + m, ["NfcVerif.Tables." + t for t in self.TABLES[m]],
                           gen_dependent=True) and ok
        return ok

    def structural_ties(self):
        """T-ties regenerated from the source on every run (harness/released.json): bridge theorems of the function
        translator (regenerated Lean definition = model function, for all inputs) and the exception-flow instance
        theorems of this property.  A module that no longer builds is a broken proof obligation of this check."""
        rel = released()
        ok = True
        mods = [m for m in fn_spec_modules() if self.pid in m.BRIDGE["properties"]]
        if mods:
            self.trusted.append("harness/translate_fn.py + lean/NfcVerif/PyFn.lean (Python subset -> Lean, "
                                "docs/fn_translator.md; validated by harness/translate_fn_selftest.py)")
        ok = self.lean_many([(m.BRIDGE["module"], m.BRIDGE["theorems"]) for m in mods]) and ok
        if rel.get("excflow"):
            import excflow
            if excflow.BY_PROPERTY.get(self.pid):
                ok = excflow.run(self) and ok
        if rel.get("monitor"):
            import monitor
            if self.pid in monitor.BY_PROPERTY:
                ok = monitor.run(self) and ok
        if ok and self.thorough:
            # independent re-check of the compiled regenerated-proof modules
            todo = sorted({m for m, _, _, good in self.obligations if good and (
                ".FnBridge" in m or ".ExcFlow" in m or m.endswith(".Monitor"))})
            if todo:
                self.leanchecker(todo)
        return ok

    def leanchecker(self, modules):
        """thorough tier: independent re-check of the compiled .olean files"""
        cmd = ["lake", "env", "leanchecker"] + modules
        self.checker_cmds.append("cd lean && " + " ".join(cmd))
        p = subprocess.run(cmd, cwd=LEAN, stdout=subprocess.PIPE, stderr=subprocess.STDOUT, text=True, timeout=3000)
        if p.returncode != 0:
            raise Infra("leanchecker failed: %s" % p.stdout[-2000:])
        self.notes.append("leanchecker re-checked %s" % " ".join(modules))

    # ------------------------------------------------------------- bookkeeping
    def case(self, canon, nontrivial=True, bucket=None, sample=None):
        """count one explored case; `canon` any hashable/jsonable canonical form"""
        self.evals += 1
        h = hashlib.blake2b(repr(canon).encode(), digest_size=8).digest()
        if nontrivial:
            self.nontrivial.add(h)
        if bucket is not None:
            self.dist[bucket] = self.dist.get(bucket, 0) + 1
        if sample is not None and len(self.samples) < 6 and (nontrivial or not self.samples):
            self.samples.append(sample)

    def count(self, bucket, n=1):
        self.dist[bucket] = self.dist.get(bucket, 0) + n

    def tie(self, name, cases=0, disagreements=0, exhaustive=False):
        t = self.ties.setdefault(name, {"cases": 0, "disagreements": 0, "exhaustive": exhaustive})
        t["cases"] += cases
        t["disagreements"] += disagreements
        t["exhaustive"] = t["exhaustive"] and exhaustive if t["cases"] != cases else exhaustive

    def fail(self, key, what, replay):
        """a concrete failing case on the real code (property violated) or a
        model/implementation disagreement (key starts with 'tie:')"""
        if key in self.known:
            if key not in self.known_hit:
                self.known_hit[key] = what
            return
        # keep real-code failures and correspondence failures apart so that neither crowds out the other
        n_real = sum(1 for f in self.fails if not f[0].startswith("tie:"))
        n_tie = len(self.fails) - n_real
        if (key.startswith("tie:") and n_tie < 25) or (not key.startswith("tie:") and n_real < 50):
            self.fails.append((key, what, replay))

    # ------------------------------------------------------------- finish
    def finish(self):
        os.makedirs(EVID, exist_ok=True)
        os.makedirs(REPLAYS, exist_ok=True)
        lines = []
        for key, what in self.known_hit.items():
            lines.append("KNOWN-FINDING: property=%s %s %s" % (self.pid, key, what))
        rc = 0
        violations = 0
        real = [f for f in self.fails if not f[0].startswith("tie:")]
        tiebreak = [f for f in self.fails if f[0].startswith("tie:")]
        if real:
            key, what, replay = real[0]
            path = self._write_replay(key, what, replay, found=True, others=real[1:10])
            lines.append("VIOLATION property=%s replay=%s" % (self.pid, path))
            violations = len(real)
            rc = 1
        elif tiebreak or self.lean_errors:
            broken = []
            for key, what, replay in tiebreak[:10]:
                broken.append({"correspondence": key[4:], "what": what, "input": replay})
            for module, errs in self.lean_errors:
                broken.append({"theorem_module": module, "errors": errs})
            path = self._write_replay("broken-proof-or-correspondence",
                                      "proof obligation or correspondence no longer checks; "
                                      "failing-input search on the real code found nothing",
                                      {"broken": broken}, found=False)
            lines.append("VIOLATION property=%s replay=%s no-failing-input-found" % (self.pid, path))
            violations = 1
            rc = 1
        wall = time.time() - self.t0
        nobl = len(self.obligations)
        ndis = sum(1 for o in self.obligations if o[3])
        ev = {
            "property_id": self.pid, "tier": self.tier, "seed": self.seed, "level": "proof",
            "coverage": {
                "obligations": nobl, "discharged": ndis,
                "checker_cmd": " && ".join(self.checker_cmds) or "none",
                "trusted_base": self.trusted,
                "theorems": [{"module": m, "name": t, "axioms": a, "ok": ok} for m, t, a, ok in self.obligations],
                "evaluations": self.evals,
                "distinct_nontrivial": len(self.nontrivial),
                "rule": self.rule,
                "samples": self.samples or ["(no dynamic cases in this run)"],
                "correspondence": self.ties,
                "traces_validated_against_impl": sum(t["cases"] for t in self.ties.values()),
                "distribution": self.dist,
                "known_findings_reproduced": sorted(self.known_hit),
                "notes": self.notes,
            },
            "assumptions": self.assumptions,
            "wall_s": round(wall, 2),
            "violations": violations,
        }
        with open(os.path.join(EVID, self.pid + ".json"), "w") as f:
            json.dump(ev, f, indent=1, default=str)
        for l in lines:
            print(l)
        print("%s %s: %d/%d obligations, %d cases (%d distinct non-trivial), ties %s, %.1fs -> exit %d"
              % (self.pid, self.tier, ndis, nobl, self.evals, len(self.nontrivial),
                 {k: (v["cases"], v["disagreements"]) for k, v in self.ties.items()}, wall, rc))
        return rc

    def _write_replay(self, key, what, replay, found, others=()):
        name = "%s_%s_%d.json" % (self.pid, re.sub(r"[^A-Za-z0-9_.-]+", "_", key)[:60], self.seed)
        path = os.path.join(REPLAYS, name)
        with open(path, "w") as f:
            json.dump({"property": self.pid, "key": key, "what": what, "seed": self.seed, "tier": self.tier,
                       "failing_input_found": found, "input": replay,
                       "others": [{"key": k, "what": w, "input": r} for k, w, r in others],
                       "rerun": "./check %s --replay replays/%s" % (self.pid, name)}, f, indent=1, default=str)
        return os.path.relpath(path, VERIF)


def main(argv):
    import argparse
    import importlib
    ap = argparse.ArgumentParser()
    ap.add_argument("pid")
    ap.add_argument("--tier", default=os.environ.get("VERIF_TIER", "quick"), choices=["quick", "thorough"])
    ap.add_argument("--replay")
    ap.add_argument("--part", help="development aid: run only props/<pid>_<part>.py:run_part")
    a = ap.parse_args(argv)
    seed = int(os.environ.get("VERIF_SEED", "1"))
    pid = a.pid.upper()
    try:
        mod = importlib.import_module("props." + pid.lower() + ("_" + a.part if a.part else ""))
        tier = a.tier
        rp = None
        if a.replay:
            # a replay re-runs the deterministic exploration that produced the file
            # (same seed, same tier); the failing case is reproduced and reported again
            rp = json.load(open(a.replay if os.path.exists(a.replay) else os.path.join(VERIF, a.replay)))
            seed, tier = int(rp.get("seed", seed)), rp.get("tier", tier)
        ck = Check(pid, tier, seed, rp)
        # CPU-time watchdog (load independent): code under test that no longer terminates must not hang the check.
        # The signal is delivered to the main thread between two bytecodes (also while it waits for a lock).
        import signal
        budget = float(os.environ.get("VERIF_CPU_BUDGET", "7200" if tier == "thorough" else "480"))

        def _on_budget(signum, frame):
            raise Hang("the exploration used more than %d s of processor time" % budget)
        # wall-clock watchdog for threads of the code under test that block each other for ever (no CPU is used then);
        # time spent waiting for the lake lock or building Lean is not counted
        wall = float(os.environ.get("VERIF_WALL_BUDGET", "10800" if tier == "thorough" else "1500"))
        t_start = time.time()

        def _on_wall(signum, frame):
            if IN_LAKE[0] == 0 and time.time() - t_start - LAKE_TIME[0] > wall:
                raise Hang("the exploration did not finish within %d s (lake time excluded)" % wall)
        try:
            signal.signal(signal.SIGPROF, _on_budget)
            signal.setitimer(signal.ITIMER_PROF, budget, 20.0)     # and again every 20 s, should something swallow it
            signal.signal(signal.SIGALRM, _on_wall)
            signal.setitimer(signal.ITIMER_REAL, 30.0, 30.0)
        except (ValueError, OSError, AttributeError):     # not in the main thread / not available
            pass
        try:
            if a.part:
                mod.run_part(ck)
            else:
                mod.run(ck)
                for part in getattr(mod, "PARTS", []):
                    importlib.import_module("props.%s_%s" % (pid.lower(), part)).run_part(ck)
                ck.structural_ties()
        except (Infra, subprocess.TimeoutExpired, KeyboardInterrupt, MemoryError):
            raise
        except (Exception, Hang) as e:
            try:
                signal.setitimer(signal.ITIMER_PROF, 0)
                signal.setitimer(signal.ITIMER_REAL, 0)
            except Exception:
                pass
            # The exploration itself died.  On the unchanged tree this never happens (every check is run with
            # several seeds before it is registered), so it is the code under test that behaved in a way the
            # harness did not foresee: the correspondence no longer checks.  When the exception was raised
            # inside nfcpy it is a concrete failing execution (the seed/tier in the replay reproduce it).
            tb = traceback.extract_tb(e.__traceback__)
            srcdir = os.path.join(REPO, "src") + os.sep
            inner = tb[-1].filename if tb else ""
            text = traceback.format_exc()
            print(text)
            frames = ["%s:%d %s" % (os.path.relpath(f.filename, REPO) if f.filename.startswith(REPO) else
                                    os.path.relpath(f.filename, VERIF), f.lineno, f.name) for f in tb[-8:]]
            if isinstance(e, Hang):
                where = [f for f in frames if f.startswith("src/")]
                ck.fail("does-not-terminate" if where else "tie:exploration-does-not-terminate",
                        "%s; the main thread was executing %s" % (e, (where or frames)[-1]),
                        {"exception": repr(e), "frames": frames})
            elif inner.startswith(srcdir) and exc_name(e) in INTERNAL:
                ck.fail("uncaught-internal-exception-%s" % type(e).__name__,
                        "%s raised inside nfcpy (%s) ended the exploration: %s" % (type(e).__name__, frames[-1], e),
                        {"exception": repr(e), "frames": frames})
            else:
                ck.fail("tie:exploration-aborted", "the harness could not complete the correspondence run: %s: %s"
                        % (type(e).__name__, e), {"exception": repr(e), "frames": frames})
        try:
            signal.setitimer(signal.ITIMER_PROF, 0)
            signal.setitimer(signal.ITIMER_REAL, 0)
        except Exception:
            pass
        return ck.finish()
    except Infra as e:
        print("INFRASTRUCTURE FAILURE (%s): %s" % (pid, e))
        return 2
    except subprocess.TimeoutExpired as e:
        print("INFRASTRUCTURE FAILURE (%s): timeout %s" % (pid, e))
        return 2
    except Exception:
        traceback.print_exc()
        print("INFRASTRUCTURE FAILURE (%s): harness crashed" % pid)
        return 2
