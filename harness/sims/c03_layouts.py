"""Layout generator of the C03 check for the whole Lock Control / Memory Control TLV field space
(Type 1 / Type 2 Tag).

Everything here is computed from the NFC Forum Type 1 / Type 2 Tag Operation specifications,
never from nfcpy: the reserved ranges of a layout are what the SPECIFICATION says the TLVs
declare, so that a reader/writer that mis-decodes a field (size field 00h = 256, the lock BIT
count rounded up to bytes, the page size exponent, the byte offset nibble, the page address
nibble) is caught by the memory-diff oracle.

  Lock Control TLV    01 03 PPPPBBBB SSSSSSSS LLLLEEEE   first lock byte  = P * 2**E + B
                                                         lock bits        = S (00h: 256)
                                                         lock bytes       = ceil(bits / 8)
  Memory Control TLV  02 03 PPPPBBBB SSSSSSSS ....EEEE   first rsvd byte  = P * 2**E + B
                                                         reserved bytes   = S (00h: 256)

A layout is a dict with the keys used by sims/t12_run.Run and sims/t12_tags.make_sim:
kind ('t2' | 't1s' | 't1d'), mem, off, skip (set), end, ok, hdr3, nctl, hr (Type 1) plus
'ctl' (the TLVs as (type, d0, d1, d2, first, count, where)) and 'free'.
"""
from sims.t12_tags import put_ndef

LOCK_BITS = [0, 1, 2, 7, 8, 9, 15, 16, 17, 24, 31, 32, 33, 63, 64, 65, 127, 128, 129, 248, 249, 255]
RSVD_SIZE = [0, 1, 2, 3, 4, 7, 8, 9, 16, 31, 32, 33, 64, 100, 128, 200, 255]

T2_UNITS = [6, 6, 12, 18, 32, 33, 40, 62, 62, 110, 126, 127, 128, 129, 200, 255]     # CC size byte (x 8 byte)
T1_BLOCKS = [16, 32, 64, 64, 64, 128, 255, 256]                                      # CC size byte + 1


def spec_range(t, d0, d1, d2):
    """(first byte address, number of bytes) declared by a control TLV value, by the specification"""
    n = d1 if d1 != 0 else 256
    count = (n + 7) // 8 if t == 1 else n
    return (d0 >> 4) * (1 << (d2 & 15)) + (d0 & 15), count


def encodings(first):
    """all (d0, exponent) that address byte `first`"""
    out = []
    for e in range(16):
        for bo in range(16):
            if first >= bo and (first - bo) % (1 << e) == 0 and (first - bo) >> e <= 15:
                out.append(((((first - bo) >> e) << 4) | bo, e))
    return out


def nearest_encodable(first, lo=0):
    for d in range(0, 64):
        for s in (first + d, first - d):
            if s >= lo and encodings(s):
                return s
    return None


def size_field(rng, t, count=None):
    """a size field value; `count`: wanted number of reserved bytes (None: boundary biased choice)"""
    if count is None:
        x = rng.random()
        if x < 0.12:
            return 0                             # 00h = 256 lock bits / reserved bytes
        if x < 0.75:
            return rng.choice(LOCK_BITS if t == 1 else RSVD_SIZE)
        return rng.randrange(256)
    if t == 2:
        return count & 255                       # 256 -> 00h
    bits = count * 8 - (rng.randrange(0, 8) if rng.random() < 0.7 else 0)
    return bits & 255                            # 256 -> 00h


def frame(kind, size, rng, aligned=False):
    """empty memory image with identifier and capability container: (mem, start of TLV area, end of
    data area, static skip set, header rom)"""
    if kind == "t2":
        end = 16 + size * 8
        extra = rng.choice([0, 0, 4, 8, 12, 16, 20, 32, 48])
        phys = end + extra
        if aligned or rng.random() < 0.7:
            phys += (-phys) % 16          # otherwise the last 16-byte READ rolls over to page 0 (as real tags do)
        mem = bytearray(rng.randrange(256) for _ in range(phys))
        mem[12:16] = bytes([0xE1, 0x10 | rng.choice([0, 0, 1, 2]), size, 0x00])
        return mem, 16, end, set(), None
    if kind == "t1s":
        end, phys, hr = 120, rng.choice([120, 128]), b"\x11\x48"
    else:
        end = size * 8
        phys = max(128, end + (-end) % 128)
        hr = b"\x12\x4C"
    mem = bytearray(rng.randrange(256) for _ in range(phys))
    mem[0:8] = b"\x01\x02\x03\x04\x05\x06\x07\x00"
    mem[8:12] = bytes([0xE1, 0x10 | rng.choice([0, 0, 1]), end // 8 - 1, 0x00])
    return mem, 12, end, set(range(104, 120 if end == 120 else 128)), hr


def assemble(kind, mem, start0, end, skip0, hr, tlvs, nulls, prop=None):
    """put the control TLVs `tlvs` = [(t, d0, d1, d2, where)], an optional proprietary TLV and
    `nulls` NULL TLVs at the start of the TLV area; the NDEF TLV position follows.  Returns the
    layout (ok False when a reserved range falls on the TLV structure in front of the NDEF TLV,
    its tag byte or its length byte - outside the property's quantifier)."""
    o = start0
    skip = set(skip0)
    ctl = []
    items = [("c", x) for x in tlvs]
    if prop is not None:
        items.insert(prop[0] % (len(items) + 1), ("p", prop))
    for what, x in items:
        if what == "c":
            t, d0, d1, d2, where = x
            if o + 5 > len(mem):
                return None
            mem[o:o + 5] = bytes([t, 3, d0, d1, d2])
            o += 5
            first, count = spec_range(t, d0, d1, d2)
            skip |= set(range(min(first, len(mem) + 64), min(first + count, len(mem) + 64)))
            ctl.append((t, d0, d1, d2, first, count, where))
        else:
            _, tag, val = x
            if o + 2 + len(val) > len(mem):
                return None
            mem[o:o + 2 + len(val)] = bytes([tag, len(val)]) + val
            o += 2 + len(val)
    for _ in range(nulls):
        if o < len(mem):
            mem[o] = 0
        o += 1
    hdr_free = all(a not in skip for a in range(start0, o + 2))
    ok = hdr_free and o + 2 <= end
    hdr3 = ok and o + 4 <= end and (o + 2) not in skip and (o + 3) not in skip
    free = len([a for a in range(o, end) if a not in skip]) if ok else 0
    d = dict(kind=kind, mem=mem, off=o, skip=skip, end=end, ok=ok, hdr3=hdr3, nctl=len(ctl), ctl=ctl, free=free)
    if hr is not None:
        d["hr"] = hr
    return d


WHERE = ["inside", "inside", "near", "hdr", "straddle", "tail", "atend", "beyond", "before", "overlap", "raw", "raw"]


def pick_first(rng, where, count, o_pred, start0, end, phys, prev):
    if where == "inside":
        lo, hi = o_pred + 6, end - count - 1
        return rng.randrange(lo, hi) if hi > lo else None
    if where == "near":
        return o_pred + rng.randrange(4, 24)
    if where == "hdr":
        return o_pred + rng.choice([2, 2, 3, 4])
    if where == "straddle":
        return end - rng.randrange(1, count) if count > 1 else None
    if where == "tail":
        return end - count
    if where == "atend":
        return end
    if where == "beyond":
        return end + rng.randrange(1, 64)
    if where == "before":
        return rng.randrange(0, start0 - count + 1) if start0 >= count else None
    if where == "overlap" and prev:
        pf, pc = rng.choice(prev)
        return max(0, pf + rng.randrange(-count, pc + 1))
    return None


def gen_field_layout(rng, kind, size=None, nctl=None, wheres=WHERE, aligned=False):
    """random well-formed layout over the whole control TLV field space"""
    for _ in range(60):
        sz = size if size is not None else (rng.choice(T2_UNITS) if kind == "t2" else
                                            15 if kind == "t1s" else rng.choice(T1_BLOCKS))
        mem, start0, end, skip0, hr = frame(kind, sz, rng, aligned)
        n = nctl if nctl is not None else rng.choice([1, 1, 1, 2, 2, 3, 4])
        if kind == "t1s" and nctl is None:
            n = rng.choice([0, 1, 1, 2])
        prop = None
        if rng.random() < 0.12:
            prop = (rng.randrange(8), rng.choice([0xFD, 0x04, 0x7F]), bytes(rng.randrange(256) for _ in range(rng.randrange(0, 5))))
        nulls = rng.choice([0, 0, 0, 1, 2, 3, 5, 9])
        if rng.random() < 0.06:
            nulls = max(0, end - rng.choice([2, 3, 4, 6, 9]) - start0 - 5 * n - (2 + len(prop[2]) if prop else 0))
        o_pred = start0 + 5 * n + nulls + (2 + len(prop[2]) if prop else 0)
        tlvs, prev = [], []
        for _i in range(n):
            for _a in range(30):
                t = rng.choice([1, 2])
                where = rng.choice(wheres)
                if where == "raw":
                    d0, d1, d2 = rng.randrange(256), rng.randrange(256), rng.randrange(256)
                    if rng.random() < 0.5:
                        d1 = rng.choice(LOCK_BITS if t == 1 else RSVD_SIZE)
                    if rng.random() < 0.7:
                        d2 = (d2 & 0xF0) | rng.choice([0, 1, 2, 3, 3, 4, 5, 6, 7, 8])
                else:
                    d1 = size_field(rng, t)
                    _, count = spec_range(t, 0, d1, 0)
                    first = pick_first(rng, where, count, o_pred, start0, end, len(mem), prev)
                    if first is None:
                        continue
                    first = nearest_encodable(first)
                    if first is None:
                        continue
                    d0, e = rng.choice(encodings(first))
                    d2 = (rng.randrange(16) << 4) | e
                first, count = spec_range(t, d0, d1, d2)
                # keep the TLV structure free (well-formedness), otherwise try another one
                if first < o_pred + 2 and first + count > start0:
                    continue
                tlvs.append((t, d0, d1, d2, where))
                prev.append((first, count))
                break
        lay = assemble(kind, mem, start0, end, skip0, hr, tlvs, nulls, prop)
        if lay is not None and lay["ok"]:
            return lay
    raise RuntimeError("field space layout generator exhausted for " + kind)


def sweep(kind, size, rng, tier_all, stride, phase):
    """deterministic neighbourhood of one control TLV: type x size field boundary value x position
    class x every page size exponent that can express the position.  `stride`/`phase` thin the
    list out (quick tier), `tier_all` keeps everything."""
    k = 0
    for t in (1, 2):
        for d1 in (LOCK_BITS if t == 1 else RSVD_SIZE):
            _, count = spec_range(t, 0, d1, 0)
            for where in ("hdr", "near", "inside", "straddle", "tail", "atend"):
                k += 1
                if not tier_all and k % stride != phase:
                    continue
                mem, start0, end, skip0, hr = frame(kind, size, rng)
                nulls = rng.choice([0, 0, 1, 3])
                o_pred = start0 + 5 + nulls
                first = pick_first(rng, where, count, o_pred, start0, end, len(mem), [])
                if first is None or first < o_pred + 2:
                    continue
                first = nearest_encodable(first, o_pred + 2)
                if first is None:
                    continue
                encs = encodings(first)
                by_e = {}
                for d0, e in encs:
                    by_e.setdefault(e, []).append(d0)
                for e in sorted(by_e) if tier_all else [rng.choice(sorted(by_e))]:
                    d0 = rng.choice(by_e[e])
                    m2 = bytearray(mem)
                    lay = assemble(kind, m2, start0, end, skip0, hr, [(t, d0, d1, (rng.randrange(16) << 4) | e, where)], nulls)
                    if lay is not None and lay["ok"]:
                        yield lay


def with_old(rng, lay, oldlens):
    """store a previous message on the layout"""
    free = lay["free"]
    oldlen = rng.choice(oldlens)
    if callable(oldlen):
        oldlen = oldlen(free)
    oldlen = max(0, min(oldlen, free - (4 if oldlen >= 255 else 2)))
    if oldlen >= 255 and not lay["hdr3"]:
        oldlen = min(254, max(0, free - 2))
    old = bytes(rng.randrange(256) for _ in range(oldlen))
    if rng.random() < 0.2:
        old = bytes([rng.choice([0, 0xFF, 0xFE, 3])]) * oldlen
    if not put_ndef(lay["mem"], lay["off"], lay["skip"], old, lay["end"]):
        if not put_ndef(lay["mem"], lay["off"], lay["skip"], b"", lay["end"]):
            return None
        old = b""
    lay["old"] = old
    return lay


def describe(lay):
    return ", ".join("%s TLV %02x %02x %02x = bytes %d..%d (%s)" % ("lock" if t == 1 else "memory", d0, d1, d2, f, f + c - 1, w)
                     for t, d0, d1, d2, f, c, w in lay.get("ctl", [])) or "no control TLV"
