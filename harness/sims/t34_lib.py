"""Shared code of the t34 parts (Type 3, Type 4, emulated Type 3 Tag) of C01/C02/C03:
layout generators, runners of the real nfcpy code on the simulators, canonical
lines matching lean/Drv/T34.lean, the probe that tells which repairs the tree
under test contains."""
import logging

from common import hx, exc_name
from sims.t34_sims import T3Sim, T4Sim, EmuLink, t3_attr, t4_cc

logging.disable(logging.CRITICAL)

THEOREM_MODULES = {"C01": "NfcVerif.Props.C01T34", "C02": "NfcVerif.Props.C02T34", "C03": "NfcVerif.Props.C03T34"}


def rbytes(rng, n, lo=0):
    return bytes(rng.randrange(lo, 256) for _ in range(n))


# ------------------------------------------------------------------ layouts
class L3:
    """Type 3 layout: attribute values + previous contents"""
    kind = "t3"

    def __init__(self, nbr, nbw, nmaxb, old, garbage, ver=0x10, rw=1, extra_blocks=0):
        self.nbr, self.nbw, self.nmaxb, self.old, self.ver, self.rw = nbr, nbw, nmaxb, old, ver, rw
        mem = bytearray(garbage[:16 * (nmaxb + 1 + extra_blocks)].ljust(16 * (nmaxb + 1 + extra_blocks), b"\0"))
        mem[0:16] = t3_attr(ver, nbr, nbw, nmaxb, 0, rw, len(old))
        mem[16:16 + len(old)] = old
        self.mem = bytes(mem)
        self.cap = nmaxb * 16

    def sim(self, mem=None, cut=None):
        return T3Sim(self.mem if mem is None else mem, self.nbr, self.nbw, cut)

    def descr(self):
        return {"type": 3, "nbr": self.nbr, "nbw": self.nbw, "nmaxb": self.nmaxb, "ver": self.ver, "rw": self.rw,
                "old_len": len(self.old), "mem": self.mem.hex()}

    def key(self):
        return ("t3", self.nbr, self.nbw, self.nmaxb, self.ver, self.rw)


class L4:
    """Type 4 layout: CC values + previous contents of the NDEF file"""
    kind = "t4"

    def __init__(self, ver, tag, mle, mlc, mfs, old, garbage, wf=0, extra=0):
        self.ver, self.tag, self.mle, self.mlc, self.mfs, self.old, self.wf = ver, tag, mle, mlc, mfs, old, wf
        self.nl = tag - 2
        self.cc = t4_cc(ver, mle, mlc, tag, mfs, 0, wf)
        f = bytearray(garbage[:mfs + extra].ljust(mfs + extra, b"\0"))
        f[0:self.nl] = len(old).to_bytes(self.nl, "big")
        f[self.nl:self.nl + len(old)] = old
        self.file = bytes(f)
        self.cap = mfs - self.nl
        self.fid = b"\xE1\x04"

    def sim(self, file=None, cut=None):
        return T4Sim(self.cc, self.file if file is None else file, self.mle, self.mlc, self.fid, cut)

    def descr(self):
        return {"type": 4, "ver": self.ver, "tlv": self.tag, "mle": self.mle, "mlc": self.mlc, "mfs": self.mfs,
                "old_len": len(self.old), "cc": self.cc.hex(), "file_len": len(self.file),
                "file_head": self.file[:64].hex()}

    def key(self):
        return ("t4", self.ver, self.tag, self.mle, self.mlc, self.mfs, self.wf)


def gen_t3(rng, n, thorough, big=True):
    sizes = [1, 2, 3, 5, 13, 16, 17, 40] + ([255, 256, 300] if big else [])
    if thorough and big:
        sizes += [257, 270, 600]
    out = []
    if big:   # regression corpus: F37 witness (13 blocks with 3-byte block list elements)
        out.append(L3(4, 13, 300, rbytes(rng, 100, 1), rbytes(rng, 16 * 301, 1)))
    for k in range(n):
        nbr = rng.choice([1, 2, 3, 4, 7, 12, 15]) if k % 3 else rng.randrange(1, 16)
        nbw = rng.choice([1, 2, 3, 8, 12, 13]) if k % 3 else rng.randrange(1, 14)
        nmaxb = rng.choice(sizes)
        if k % 7 == 0 and big:
            nbw, nmaxb = 13, rng.choice([256, 300])      # F37 territory
        cap = nmaxb * 16
        oldlen = rng.choice([0, cap, rng.randrange(0, cap + 1), rng.randrange(0, cap + 1)])
        old = rbytes(rng, oldlen, 1)
        out.append(L3(nbr, nbw, nmaxb, old, rbytes(rng, 16 * (nmaxb + 1), 1)))
    return out


def gen_t4(rng, n, thorough, big=True):
    out = []
    # regression corpus: F35/F36 witnesses (MLc below the NLEN field size, old length 0248h)
    out.append(L4(0x20, 4, 59, 1, 1000, rbytes(rng, 0x248, 1), rbytes(rng, 1000, 1)))
    out.append(L4(0x30, 6, 255, 3, 1000, rbytes(rng, 0x248, 1), rbytes(rng, 1000, 1)))
    out.append(L4(0x10, 4, 15, 1, 100, rbytes(rng, 47, 1), rbytes(rng, 100, 1)))
    for k in range(n):
        ver = rng.choice([0x10, 0x20, 0x30, 0x21, 0x3F])
        tag = 6 if (ver >> 4 == 3 and rng.random() < 0.7) or rng.random() < 0.05 else 4
        nl = tag - 2
        mle = rng.choice([15, 16, 59, 128, 255, 256])
        mlc = rng.choice([nl, nl + 1, 5, 13, 52, 254, 255])
        sizes = [nl, nl + 1, 7, 50, 128, 300, 1000] + ([4000] if thorough else [])
        mfs = rng.choice(sizes)
        r = rng.random()
        if r < 0.15:
            mlc = rng.randrange(1, nl)            # F35 / F36 territory: MLc below the NLEN field size
        elif r < 0.25 and big:
            mle = rng.choice([257, 300, 0x1000, 0xFFFF])    # beyond a short Le
            mfs = rng.choice([300, 1000])
        elif r < 0.35 and big:
            mlc = rng.choice([256, 300, 0xFFFF])            # beyond a short Lc
            mfs = rng.choice([300, 1000])
        cap = mfs - nl
        oldlen = rng.choice([0, cap, rng.randrange(0, cap + 1), rng.randrange(0, cap + 1)])
        old = rbytes(rng, oldlen, 1)
        out.append(L4(ver, tag, mle, mlc, mfs, old, rbytes(rng, mfs + 3, 1), extra=rng.choice([0, 0, 3])))
    return out


def lengths(rng, cap, extra_random=2):
    ls = set(range(0, 9)) | {253, 254, 255, 256, cap - 1, cap, cap + 1}
    for _ in range(extra_random):
        ls.add(rng.randrange(0, cap + 2))
    return sorted(l for l in ls if 0 <= l <= cap + 1)


# ------------------------------------------------------------------ canonical lines
def xname(e):
    """exception name on the line protocol; the simulator's command budget = the model's OutOfFuel"""
    return "OutOfFuel" if type(e).__name__ == "CommandBudgetExceeded" else exc_name(e)


def seen_line(ndef):
    if ndef is None:
        return "ok none"
    return "ok cap=%d r=%d w=%d data=%s" % (ndef.capacity, int(ndef.is_readable), int(ndef.is_writeable), hx(ndef.octets))


def see(sim):
    """fresh activation of the simulated tag -> (canonical line, ndef object or None)"""
    try:
        tag = sim.activate()
        n = tag.ndef
    except Exception as e:  # noqa
        return "exc " + xname(e), None
    try:
        return seen_line(n), n
    except Exception as e:  # noqa
        return "exc " + xname(e), None


def t3_cmds(sim):
    out = []
    for bl, d in sim.writes:
        if bl == list(range(bl[0], bl[0] + len(bl))):
            out.append("%d+%d:%s" % (bl[0], len(bl), hx(d)))
        else:
            out.append("%s:%s" % (bl, hx(d)))
    return ",".join(out) or "-"


def t4_cmds(sim):
    return ",".join("%d:%s" % (off, hx(d)) if fid == sim.fid else "%s@%d:%s" % (fid.hex(), off, hx(d))
                    for fid, off, d in sim.writes) or "-"


class SetRun:
    """tag.ndef.octets = data on a fresh activation of `sim`"""

    def __init__(self, sim, data):
        self.sim = sim
        self.ndef = None
        self.pre_cmds = None
        self.cmds_during = None
        try:
            tag = sim.activate()
            self.ndef = n = tag.ndef
        except Exception as e:  # noqa
            self.res = None
            self.line = "exc " + xname(e)
            return
        if n is None:
            self.res = None
            self.line = "none"
            return
        self.capacity = n.capacity
        before = sim.ncmd
        try:
            n.octets = data
            self.res = "ok"
        except Exception as e:  # noqa
            self.res = "exc " + xname(e)
        self.cmds_during = sim.ncmd - before
        mem = sim.mem if isinstance(sim, T3Sim) else sim.file
        cmds = t3_cmds(sim) if isinstance(sim, T3Sim) else t4_cmds(sim)
        self.line = "%s cmds=%s mem=%s" % (self.res, cmds, hx(mem))


def probe_variant():
    """which repairs does the tree under test contain? -> 'abc' (a: NLEN loop, b: short APDU limits,
    c: capacity limited to the 16 bit offset range)"""
    lay = L4(0x20, 4, 59, 1, 20, b"", bytes(20))
    s = lay.sim()
    r = SetRun(s, b"\x01\x02\x03")
    a = int(r.res == "ok" and bytes(s.file[:5]) == b"\x00\x03\x01\x02\x03")
    lay = L4(0x20, 4, 300, 300, 20, b"", bytes(20))
    tag = lay.sim().activate()
    n = tag.ndef
    b = int(n is not None and n._max_le == 256 and n._max_lc == 255)
    lay = L4(0x30, 6, 59, 52, 70000, b"", b"")
    n = lay.sim().activate().ndef
    c = int(n is not None and n.capacity == 65532)
    return "%d%d%d" % (a, b, c)


def t3_req(op, mem, data=None):
    return "t3.%s %s" % (op, hx(mem)) + ("" if data is None else " " + hx(data))


def t4_req(op, var, lay, file, data=None):
    return "t4.%s %s %s %s %s %d %d" % (op, var, hx(lay.cc), hx(file), hx(lay.fid), lay.mle, lay.mlc) + \
        ("" if data is None else " " + hx(data))


def classify(line, old, new):
    """C02 classification of what a fresh reader sees"""
    if line == "ok none":
        return "none"
    if line.startswith("exc"):
        return "raises"
    f = dict(p.split("=") for p in line[3:].split(" "))
    d = b"" if f["data"] == "-" else bytes.fromhex(f["data"])
    if f["r"] == "0":
        return "not-readable"
    if d == new:
        return "new"
    if d == old:
        return "old"
    if d == b"":
        return "empty"
    return "corrupt"


def compare(ck, model, jobs, tie_name):
    """jobs: list of (request, real line, replay dict) -> asks the model, reports disagreements"""
    replies = model.ask_many([j[0] for j in jobs])
    dis = 0
    for (req, real, replay), rep in zip(jobs, replies):
        if rep != real:
            dis += 1
            short = dict(replay)
            short.update({"request": req[:4000], "model": rep[:2000], "impl": real[:2000]})
            ck.fail("tie:" + tie_name, "model %r vs implementation %r" % (rep[:200], real[:200]), short)
    ck.tie(tie_name, len(jobs), dis, False)
    return dis
